#!/usr/bin/env python3-vt
"""C03 - files written by the library conform to the classic CDF-1/2/5 format specification."""
import os, sys, shutil, copy, unicodedata
sys.path.insert(0, os.path.dirname(os.path.dirname(os.path.abspath(__file__))))
import numpy as np
from hypothesis import strategies as st
from pv import model as M
from pv import schema as S
from pv import cdfspec
from pv.schema import hexb
from pv.prog import Prog
from pv.pool import hx
from pv import runner

PROP = "C03"
RULE = ("Hypothesis-generated schemas and histories on a file created with NC_CLOBBER in CDF-1/2/5 by k=1..4 ranks: 0-8 dimensions "
        "(0/1 record dimension at any position), 0-8 variables in random fixed/record order incl. scalars and the exactly-one-record-"
        "variable case with NC_BYTE/NC_CHAR/NC_SHORT x odd counts, global and per-variable attributes of every type legal for the "
        "format with 0..40 elements, ASCII/UTF-8 names of 1..256 bytes; alignment requests through an MPI_Info object, through "
        "PNETCDF_HINTS, through ncmpi__enddef(h_minfree,v_align,v_minfree,r_align) or any combination; then a history of "
        "redef/(_)enddef blocks (adding dimensions, variables, attributes, renaming, deleting attributes), data-mode put_att "
        "(same/smaller size), data-mode renames (shorter/equal), collective writes of whole variables / whole records that grow "
        "numrecs, sync, close+reopen, optionally closing in define mode; optionally a larger predecessor file filled with "
        "'SENTINEL' at the path (regular file or symlink target). Oracle: at every enddef, record-adding write, sync, data-mode "
        "header update and close the file bytes are copied and (a) strictly decoded by pv/cdfspec.py (grammar, zero padding, legal "
        "types, requested version), (b) compared with the model's dims/atts/vars/numrecs and with every written (and flushed) element, "
        "(c) checked for the layout invariants (cdfspec.layout_problems, record stride via the data comparison and recsize, begins "
        "and header extent never decrease over the history, alignment and min-free rules on the enddef that follows create), "
        "(d) compared with ncmpi_inq_header_size/header_extent/recsize/varoffset/dimlen(unlimited) taken on every rank at the same "
        "point; clobber: no 'SENTINEL' run in the closed file, file not longer than its layout implies, symlink target holds the new "
        "file. Non-trivial = schema with at least one fixed and one record variable at some checked point and at least one explicit "
        "alignment request or one redefinition (redef ... enddef/close) after the first enddef; distinct = distinct case hash.")
ASSUMPTIONS = ["names use NFC-stable code points assigned before Unicode 5.0 (ASCII, Latin-1 letters, Greek, Cyrillic, Hiragana, CJK, Hangul "
               "syllables), so the stored bytes equal the given bytes; the attribute name _FillValue is never generated",
               "no fill mode: elements never written are unconstrained; a written element is compared from the moment of the next "
               "ncmpi_sync/close (and stays comparable across later enddef calls that move data) until it is overwritten",
               "file bytes are read with POSIX by rank 0 after a harness barrier on a node-local file system (ROMIO, no client cache)",
               "alignment is asserted only on the enddef that follows create (RELEASE_NOTES 1.13.0 clarifications, comment block of "
               "ncmpio__enddef): PNETCDF_HINTS beats everything; where RELEASE_NOTES 1.6.0 (ncmpi__enddef arguments beat MPI_Info) and the "
               "ncmpio__enddef comment (MPI_Info beats ncmpi__enddef arguments) disagree, both outcomes are accepted; the header-extent "
               "alignment is asserted only when fixed-size variables exist; individual variables only need 4-byte alignment",
               "ncmpi_inq_header_extent is compared with the smallest variable begin when variables exist, otherwise only >= header size",
               "ENABLE_NULL_BYTE_HEADER_PADDING is off in this build: the gap between header size and header extent is not written, so "
               "nothing is asserted about those bytes beyond the absence of predecessor content",
               "all metadata calls are collective with identical arguments on all k ranks; writes are collective put_vara_all of disjoint "
               "whole records (scalar variables with k>1: one rank in independent mode)"]

MODE = {1: 0, 2: 0x200, 5: 0x20}
ALIGN = [1, 2, 3, 4, 6, 7, 8, 10, 50, 64, 197, 512, 1001, 1024, 4096]     # any positive integer is legal; the library rounds up to a multiple of 4
HINTKEY = {"h": "nc_header_align_size", "v": "nc_var_align_size", "r": "nc_record_align_size"}
PATH, REAL = "t.nc", "real.nc"
SENT = b"SENTINEL"
MAXREC = 6

# ---- switches (True = the assertion / sub-domain is active).  A switch is turned off only for a confirmed defect that is kept
# ---- as a replay under replays/C03/ (the replay carries "sw" with the switch on), so that the search continues past it.
SWITCHES = {
    # ncmpi_inq_header_extent on a file that was OPENED while it has no variables returns 0 (< header size) until the next
    # enddef: compute_var_shape() in ncmpio_header_get.c returns before setting ncp->begin_var when vars.ndefined == 0.
    # Confirmed defect, replays/C03/hext-zero-after-open-without-variables.json
    "hext_after_open_without_vars": True,
}


def sw(case, name):
    return bool((case.get("sw") or {}).get(name, SWITCHES[name]))

# ------------------------------------------------------------------ names
A_FIRST = "abcxyzABZ_0159"
A_MID = A_FIRST + " .-+@"
UTF = ["é", "Å", "ñ", "ß", "α", "Ω", "ж", "Я", "あ", "中", "文", "가", "한"]
assert all(unicodedata.normalize("NFC", c) == c for c in UTF)
assert unicodedata.normalize("NFC", "".join(UTF) * 2) == "".join(UTF) * 2


def _fit(s, maxlen):
    while len(s.encode("utf-8")) > maxlen:
        s = s[:-1]
    return s


def _legal(s):
    if not s:
        return None
    if s[-1] == " ":
        s = s[:-1] + "_"
    if ord(s[0]) < 128 and s[0] not in A_FIRST:
        s = "_" + s[1:]
    return s


def make_name(draw, used, maxlen=256):
    """a legal, NFC-stable name of at most maxlen bytes that is not in `used` (bytes); None when none can be built"""
    r = draw(st.integers(0, 99))
    if r < 60:
        n = draw(st.integers(1, 8))
        s = "".join(draw(st.sampled_from(A_FIRST if i == 0 else A_MID)) for i in range(n))
    elif r < 80:
        n = draw(st.integers(1, 6))
        s = "".join(draw(st.sampled_from(UTF + list(A_MID))) for i in range(n))
    elif r < 90:
        L = draw(st.integers(13, 64))
        unit = draw(st.sampled_from(UTF + list(A_FIRST)))
        s = _fit(unit * L, L)
        s = s + "_" * (L - len(s.encode("utf-8")))
    else:
        L = draw(st.sampled_from([256, 256, 255, 254, 253, 250]))
        unit = draw(st.sampled_from(UTF + list(A_FIRST)))
        s = _fit(unit * L, L)
        s = s + "x" * (L - len(s.encode("utf-8")))
    s = _legal(_fit(s, maxlen))
    if s is None:
        return None
    b = s.encode("utf-8")
    i = 0
    while b in used or b == b"_FillValue":
        i += 1
        suf = str(i)
        if len(suf) > maxlen or i > 400:
            return None
        s2 = _legal(_fit(s, maxlen - len(suf)) + suf)
        if s2 is None:
            return None
        b = s2.encode("utf-8")
    assert 1 <= len(b) <= maxlen and not S.name_errs(b) and S.nfc(b) == b
    return b


# ------------------------------------------------------------------ model shared by generator and oracle
def val_list(v, seed, n):
    return [(seed * 31 + v * 7 + j * 3) % 97 + 1 for j in range(n)]


class Sim:
    """sequential model: schema (pv/schema.py objects), mode, record count, data with flush state"""

    def __init__(self, fmt):
        self.f = S.FileS(fmt)
        self.indef = True
        self.numrecs = 0
        self.data = {}        # vi -> {rec|-1: [external big-endian bytes, state 1 written / 2 flushed]}
        self.nenddef = 0
        self.redefs = 0
        self.opened_novars = False   # the file was opened while it had no variables and no enddef happened since

    # -- shape helpers
    def is_rec(self, vi):
        v = self.f.vars[vi]
        return bool(v.dimids) and self.f.dims[v.dimids[0]][1] == 0

    def inner(self, vi):
        """list of the non-record dimension lengths"""
        v = self.f.vars[vi]
        ds = v.dimids[1:] if self.is_rec(vi) else v.dimids
        return [self.f.dims[d][1] for d in ds]

    def count(self, vi):
        n = 1
        for l in self.inner(vi):
            n *= l
        return n

    def rec_vars(self):
        return [i for i in range(len(self.f.vars)) if self.is_rec(i)]

    def fix_vars(self):
        return [i for i in range(len(self.f.vars)) if not self.is_rec(i)]

    @staticmethod
    def ext_bytes(xt, vals):
        if xt == M.NC_CHAR:
            return bytes(vals)
        return np.array(vals, dtype=cdfspec.NP_DTYPE[xt]).tobytes()

    # -- state change
    def apply(self, op):
        k, f = op["op"], self.f
        if k == "def_dim":
            f.dims.append([hexb(op["name"]), op["len"]])
        elif k == "def_var":
            f.vars.append(S.VarS(hexb(op["name"]), op["xt"], op["dims"]))
        elif k == "put_att":
            lst = f.attlist(op["v"])
            nm = hexb(op["name"])
            vals = hexb(op["text"]) if op["xt"] == M.NC_CHAR else list(op["vals"])
            i = f.find_att(lst, nm)
            if i >= 0:
                lst[i].xt, lst[i].vals = op["xt"], vals
            else:
                lst.append(S.AttS(nm, op["xt"], vals))
        elif k == "del_att":
            lst = f.attlist(op["v"])
            del lst[f.find_att(lst, hexb(op["name"]))]
        elif k == "rename_dim":
            f.dims[op["id"]][0] = hexb(op["name"])
        elif k == "rename_var":
            f.vars[op["id"]].name = hexb(op["name"])
        elif k == "rename_att":
            lst = f.attlist(op["v"])
            lst[f.find_att(lst, hexb(op["name"]))].name = hexb(op["new"])
        elif k in ("enddef", "_enddef"):
            self.indef = False
            self.nenddef += 1
            self.opened_novars = False
        elif k == "redef":
            self.indef = True
            self.redefs += 1
        elif k == "write":
            vi = op["v"]
            xt = f.vars[vi].xt
            n = self.count(vi)
            d = self.data.setdefault(vi, {})
            if self.is_rec(vi):
                for rec in range(op["rec0"], op["rec0"] + op["nrec"]):
                    d[rec] = [self.ext_bytes(xt, val_list(vi, op["seed"] + rec, n)), 1]
                self.numrecs = max(self.numrecs, op["rec0"] + op["nrec"])
            else:
                d[-1] = [self.ext_bytes(xt, val_list(vi, op["seed"], n)), 1]
        elif k in ("sync", "reopen", "close"):
            self.flush()
            if k != "sync":
                if self.indef:
                    self.nenddef += 1
                self.indef = False
                self.opened_novars = k == "reopen" and not self.f.vars
        else:
            raise ValueError(k)

    def flush(self):
        for d in self.data.values():
            for e in d.values():
                e[1] = 2

    def logical(self):
        want = self.f.logical()
        want["numrecs"] = self.numrecs
        return want

    def expected_data(self, flushed_only):
        return [(vi, rec, e[0]) for vi, d in sorted(self.data.items()) for rec, e in sorted(d.items()) if (e[1] == 2 or not flushed_only)]


# ------------------------------------------------------------------ generator
def chance(draw, pct):
    return draw(st.integers(0, 99)) < pct


def pick(draw, seq):
    return seq[draw(st.integers(0, len(seq) - 1))]


def gen_att_payload(draw, legal_xt, xt=None, maxbytes=None):
    """{'xt', 'vals'|'text'}; maxbytes limits the unpadded size (data-mode overwrite)"""
    if xt is None:
        xt = pick(draw, legal_xt)
    sz = M.XT_SIZE[xt]
    nmax = 40 if maxbytes is None else min(40, maxbytes // sz)
    r = draw(st.integers(0, 99))
    if r < 12:
        n = 0
    elif r < 45:
        n = min(nmax, draw(st.sampled_from([1, 1, 3, 5, 7, 2])))
    elif r < 55:
        n = nmax
    else:
        n = draw(st.integers(0, nmax))
    if xt == M.NC_CHAR:
        return {"xt": xt, "text": bytes(draw(st.sampled_from(list(b"abcxyz 019_.\xe9\xff\x01"))) for _ in range(n)).hex()}
    signed = xt in S.SIGNED_XT
    vals = [draw(st.integers(-100 if signed else 0, 100)) for _ in range(n)]
    if xt in (M.NC_FLOAT, M.NC_DOUBLE) and chance(draw, 40):
        vals = [v / 4 for v in vals]
    return {"xt": xt, "vals": vals}


def gen_enddef(draw, plain_pct=45):
    if chance(draw, plain_pct):
        return {"op": "enddef"}
    return {"op": "_enddef", "args": [draw(st.sampled_from([0, 0, 1, 7, 64, 300])), draw(st.sampled_from([0, 0] + ALIGN)),
                                      draw(st.sampled_from([0, 0, 3, 16, 100])), draw(st.sampled_from([0, 0] + ALIGN))]}


class Gen:
    def __init__(self, draw, fmt, flavor):
        self.draw = draw
        self.sim = Sim(fmt)
        self.flavor = flavor
        self.legal_xt = list(range(1, 7)) if fmt != 5 else list(range(1, 12))
        self.ops = []

    def emit(self, op):
        self.sim.apply(op)
        self.ops.append(op)

    # -- single definitions
    def def_dim(self, rec=None):
        d, f = self.draw, self.sim.f
        if rec is None:
            rec = f.recdim() < 0 and chance(d, 25)
        nm = make_name(d, {n for n, _ in f.dims})
        if nm is None:
            return
        self.emit({"op": "def_dim", "name": nm.hex(), "len": 0 if rec else d(st.sampled_from([1, 1, 2, 3, 3, 4, 5, 7]))})

    def def_var(self, want_rec=None, packed=False):
        d, sim, f = self.draw, self.sim, self.sim.f
        rd = f.recdim()
        fixed = [i for i, (_, l) in enumerate(f.dims) if l != 0]
        nrec = len(sim.rec_vars())
        if want_rec is None and self.flavor == "reconly" and sim.nenddef == 0:
            want_rec = True
        if want_rec is None:
            if rd < 0:
                want_rec = False
            elif self.flavor == "onerec":
                want_rec = nrec == 0 and chance(d, 50)
            else:
                want_rec = chance(d, 45)
        if want_rec and rd < 0:
            return
        if self.flavor == "onerec" and want_rec and nrec == 0:
            packed = True
        xt = pick(d, self.legal_xt)
        nd = d(st.integers(0, min(3, len(fixed)))) if fixed else 0
        dims = [pick(d, fixed) for _ in range(nd)]
        if packed:
            xt = pick(d, [M.NC_BYTE, M.NC_CHAR, M.NC_SHORT])
            odd = [i for i in fixed if f.dims[i][1] % 2 == 1]
            dims = [pick(d, odd)] if (odd and chance(d, 85)) else []
        while dims and int(np.prod([f.dims[i][1] for i in dims])) > 150:
            dims.pop()
        if want_rec:
            dims = [rd] + dims
        nm = make_name(d, {v.name for v in f.vars})
        if nm is None:
            return
        self.emit({"op": "def_var", "name": nm.hex(), "xt": xt, "dims": dims})

    def put_att(self):
        d, f = self.draw, self.sim.f
        v = -1 if (not f.vars or chance(d, 40)) else d(st.integers(0, len(f.vars) - 1))
        lst = f.attlist(v)
        if lst and chance(d, 20):
            nm = pick(d, lst).name
        else:
            nm = make_name(d, {a.name for a in lst})
            if nm is None:
                return
        op = {"op": "put_att", "v": v, "name": nm.hex()}
        op.update(gen_att_payload(d, self.legal_xt))
        self.emit(op)

    def att_target(self):
        f = self.sim.f
        lists = [(-1, f.gatts)] + [(i, v.atts) for i, v in enumerate(f.vars)]
        lists = [(v, l) for v, l in lists if l]
        if not lists:
            return None
        v, l = pick(self.draw, lists)
        return v, pick(self.draw, l)

    def rename(self, shorter):
        """rename a dim / var / att; shorter=True: new name not longer than the old one (data mode)"""
        d, f = self.draw, self.sim.f
        what = d(st.sampled_from(["dim", "var", "att"]))
        if what == "dim" and f.dims:
            i = d(st.integers(0, len(f.dims) - 1))
            nm = make_name(d, {n for n, _ in f.dims}, maxlen=len(f.dims[i][0]) if shorter else 256)
            if nm is not None:
                self.emit({"op": "rename_dim", "id": i, "name": nm.hex()})
                return True
        elif what == "var" and f.vars:
            i = d(st.integers(0, len(f.vars) - 1))
            nm = make_name(d, {v.name for v in f.vars}, maxlen=len(f.vars[i].name) if shorter else 256)
            if nm is not None:
                self.emit({"op": "rename_var", "id": i, "name": nm.hex()})
                return True
        elif what == "att":
            t = self.att_target()
            if t is not None:
                v, a = t
                nm = make_name(d, {x.name for x in f.attlist(v)}, maxlen=len(a.name) if shorter else 256)
                if nm is not None:
                    self.emit({"op": "rename_att", "v": v, "name": a.name.hex(), "new": nm.hex()})
                    return True
        return False

    def del_att(self):
        t = self.att_target()
        if t is not None:
            self.emit({"op": "del_att", "v": t[0], "name": t[1].name.hex()})

    def put_att_datamode(self):
        t = self.att_target()
        if t is None:
            return False
        d = self.draw
        v, a = t
        xt = a.xt if chance(d, 60) else pick(d, self.legal_xt)
        op = {"op": "put_att", "v": v, "name": a.name.hex()}
        op.update(gen_att_payload(d, self.legal_xt, xt=xt, maxbytes=a.raw_size()))
        self.emit(op)
        return True

    # -- a block of definitions (define mode)
    def block(self, initial):
        d, sim = self.draw, self.sim
        if initial:
            nd = d(st.integers(0, 8)) if self.flavor in ("free", "novars") else d(st.integers(1, 6))
            nv = d(st.integers(0, 8)) if self.flavor == "free" else d(st.integers(1, 7))
            if self.flavor == "novars":
                nv = 0
            if self.flavor == "reconly":
                self.def_dim(rec=True)
            na = d(st.integers(0, 7))
            kinds = ["dim"] * nd + ["var"] * nv + ["att"] * na
        else:
            kinds = (["dim"] * d(st.integers(0, 2)) + ["var"] * d(st.integers(0, 3)) + ["att"] * d(st.integers(0, 3)) +
                     ["ren"] * d(st.integers(0, 1)) + ["del"] * d(st.integers(0, 1)))
        kinds = list(d(st.permutations(kinds)))
        if initial and "dim" in kinds and chance(d, 70):
            for _ in range(2):          # pull up to two dimensions to the front so that early variables are not all scalars
                if "dim" in kinds:
                    kinds.remove("dim")
                    kinds.insert(0, "dim")
        first_dim = True
        for kd in kinds:
            if kd == "dim":
                if initial and first_dim and self.flavor in ("mixed", "onerec"):
                    self.def_dim(rec=chance(d, 30))
                else:
                    self.def_dim()
                first_dim = False
            elif kd == "var":
                if len(sim.f.vars) < 12:
                    self.def_var()
            elif kd == "att":
                self.put_att()
            elif kd == "ren":
                self.rename(shorter=False)
            elif kd == "del":
                self.del_att()
        if initial and self.flavor in ("mixed", "onerec"):
            f = sim.f
            if f.recdim() < 0:
                self.def_dim(rec=True)
            if not any(l % 2 == 1 for _, l in f.dims if l):
                self.emit({"op": "def_dim", "name": make_name(d, {n for n, _ in f.dims}).hex(), "len": pick(d, [1, 3, 5, 7])})
            if not sim.rec_vars():
                self.def_var(want_rec=True)
            if not sim.fix_vars() and (self.flavor == "mixed" or chance(d, 60)):
                self.def_var(want_rec=False)

    def write(self, vi=None):
        d, sim = self.draw, self.sim
        if not sim.f.vars:
            return False
        if vi is None:
            vi = d(st.integers(0, len(sim.f.vars) - 1))
        op = {"op": "write", "v": vi, "seed": d(st.integers(0, 50))}
        if sim.is_rec(vi):
            rec0 = d(st.integers(0, min(sim.numrecs + 1, MAXREC - 1)))
            op["rec0"] = rec0
            op["nrec"] = d(st.integers(1, min(3, MAXREC - rec0)))
            # how a rank writes its share: one vara, or a varn request with one segment per record, highest record first
            op["how"] = d(st.sampled_from(["vara", "vara", "varn_desc"]))
        self.emit(op)
        return True


@st.composite
def case_strategy(draw, tier="quick"):
    big = tier == "thorough"
    fmt = draw(st.sampled_from([1, 2, 5]))
    k = draw(st.sampled_from([1, 1, 2, 2, 3, 4]))
    flavor = draw(st.sampled_from(["mixed"] * 10 + ["onerec"] * 5 + ["free"] * 3 + ["reconly"] * 2 + ["novars"]))
    clobber = draw(st.sampled_from([None, None, None, "file", "symlink"]))
    info, env = {}, {}
    src = draw(st.sampled_from(["none", "none", "info", "info", "env", "env", "both"]))
    for key in "hvr":
        if src in ("info", "both") and chance(draw, 45):
            info[key] = draw(st.sampled_from(ALIGN))
        if src in ("env", "both") and chance(draw, 45):
            env[key] = draw(st.sampled_from(ALIGN))
    g = Gen(draw, fmt, flavor)
    g.block(initial=True)
    g.emit(gen_enddef(draw))
    nev = draw(st.integers(0, 7 if not big else 12))
    if g.sim.f.vars and chance(draw, 65):
        for vi in range(len(g.sim.f.vars)):
            if chance(draw, 60):
                g.write(vi)
        if chance(draw, 70):
            g.emit({"op": "sync"})
    for i in range(nev):
        sim = g.sim
        kind = draw(st.sampled_from(["redef"] * 6 + ["write"] * 6 + ["att_dm"] * 2 + ["ren_dm"] * 2 + ["sync"] * 2 + ["reopen"] * 2))
        if kind == "redef":
            g.emit({"op": "redef"})
            g.block(initial=False)
            if i == nev - 1 and chance(draw, 30):
                break                      # close in define mode
            g.emit(gen_enddef(draw, plain_pct=65))
        elif kind == "write":
            for _ in range(draw(st.integers(1, 3))):
                g.write()
        elif kind == "att_dm":
            g.put_att_datamode()
        elif kind == "ren_dm":
            g.rename(shorter=True)
        elif kind == "sync":
            g.emit({"op": "sync"})
        elif kind == "reopen":
            g.emit({"op": "reopen"})
    return {"fmt": fmt, "k": k, "clobber": clobber, "sentinel": draw(st.sampled_from([1 << 17, 1 << 17, 40000, 300000])) if clobber else 0,
            "info": info, "env": env, "ops": g.ops}


# ------------------------------------------------------------------ script
class Point:
    """a place where the file must be up to date"""
    pass


def att_args(op):
    if op["xt"] == M.NC_CHAR:
        b = hexb(op["text"])
        return {"mt": "text", "n_": len(b), "hex": b.hex()}
    mt = M.XT_NATIVE_MT[op["xt"]]
    return {"mt": mt, "n_": len(op["vals"]), "hex": np.array(op["vals"], dtype=M.MT_DTYPE[mt]).tobytes().hex()}


def emit_write(p, sim, op, k):
    """collective put of one whole fixed variable (one rank, the others zero-length) or of whole records split over the ranks"""
    vi = op["v"]
    v = sim.f.vars[vi]
    inner = sim.inner(vi)
    n = sim.count(vi)
    mt = M.XT_NATIVE_MT[v.xt]
    dt = M.MT_DTYPE[mt]
    if sim.is_rec(vi):
        sn = p.s.same_n()
        r0, nr = op["rec0"], op["nrec"]
        for r in range(k):
            a, b = r0 + (r * nr) // k, r0 + ((r + 1) * nr) // k
            desc = op.get("how") == "varn_desc" and b > a
            vals = sum([val_list(vi, op["seed"] + rec, n) for rec in (range(b - 1, a - 1, -1) if desc else range(a, b))], [])
            buf = p.newbuf()
            p.s.op("buf", ranks=[r], b=buf, size=max(1, len(vals) * np.dtype(dt).itemsize), hex=np.array(vals, dtype=dt).tobytes() if vals else b"\xee")
            if b > a:
                start, count = [a] + [0] * len(inner), [b - a] + inner
            else:
                start, count = [0] * (1 + len(inner)), [0] * (1 + len(inner))
            if op.get("how") == "varn_desc":
                recs = list(range(b - 1, a - 1, -1))
                p.s.op("data", ranks=[r], sn=sn, step=True, api="put", form="varn", coll=1, mt=mt, f="f0", v=vi, buf=buf, num=len(recs),
                       starts=[[rec] + [0] * len(inner) for rec in recs] if recs else None, counts=[[1] + inner for rec in recs] if recs else None)
                continue
            p.s.op("data", ranks=[r], sn=sn, step=True, api="put", form="vara", coll=1, mt=mt, f="f0", v=vi, start=start, count=count, buf=buf)
        p.expect_rc(sn, range(k), 0, "put_%s_all(record variable)" % ("varn" if op.get("how") == "varn_desc" else "vara"))
        return
    vals = val_list(vi, op["seed"], n)
    w = op["seed"] % k
    raw = np.array(vals, dtype=dt).tobytes()
    if not inner and k > 1:           # scalar: no zero-length form exists; one rank writes in independent mode
        p.op("begin_indep", step=True, f="f0")
        buf = p.newbuf()
        p.s.op("buf", ranks=[w], b=buf, size=len(raw), hex=raw)
        nn = p.s.op("data", ranks=[w], api="put", form="var", coll=0, mt=mt, f="f0", v=vi, buf=buf)
        p.expect_rc(nn, [w], 0, "put_var(scalar)")
        p.op("end_indep", step=True, f="f0")
        return
    sn = p.s.same_n()
    for r in range(k):
        buf = p.newbuf()
        mine = r == w
        p.s.op("buf", ranks=[r], b=buf, size=len(raw) if mine else 1, hex=raw if mine else b"\xee")
        kw = {}
        if inner:
            kw = {"start": [0] * len(inner), "count": inner if mine else [0] * len(inner)}
        p.s.op("data", ranks=[r], sn=sn, step=True, api="put", form="vara", coll=1, mt=mt, f="f0", v=vi, buf=buf, **kw)
    p.expect_rc(sn, range(k), 0, "put_vara_all(fixed variable)")


def build(case):
    k = case["k"]
    p = Prog(k=k)
    sim = Sim(case["fmt"])
    points = []
    if case["clobber"]:
        p.op("writefile", ranks=[0], path=hx(PATH if case["clobber"] == "file" else REAL), sentinel=case["sentinel"])
        if case["clobber"] == "symlink":
            p.op("symlink", ranks=[0], target=hx(REAL), path=hx(PATH))
        p.op("barrier", expect=None)
    if case["env"]:
        p.op("env", expect=None, e__PNETCDF_HINTS=hx(";".join("%s=%d" % (HINTKEY[kk], v) for kk, v in sorted(case["env"].items()))))
    kw = {}
    if case["info"]:
        p.op("info", expect=None, i="i1", **{"h__" + HINTKEY[kk]: hx(str(v)) for kk, v in sorted(case["info"].items())})
        kw["info"] = "i1"
    p.op("create", step=True, f="f0", path=hx(PATH), mode=MODE[case["fmt"]], **kw)

    def point(what, i, kind, dump=True, first=None):
        pt = Point()
        pt.what, pt.kind, pt.first = "op %d (%s)" % (i, what), kind, first
        pt.snap = "s%d" % len(points)
        p.op("snapshot", expect=None, path=hx(PATH), to=pt.snap)
        pt.dump = p.op("dumpall", expect=None, f="f0", data=0) if dump else None
        pt.logical = copy.deepcopy(sim.logical())
        pt.nvars = len(sim.f.vars)
        pt.nfix, pt.nrec = len(sim.fix_vars()), len(sim.rec_vars())
        pt.redefs = sim.redefs
        pt.opened_novars = sim.opened_novars
        pt.data = sim.expected_data(flushed_only=kind not in ("sync", "close"))
        points.append(pt)
        return pt

    open_ = True
    for i, op in enumerate(case["ops"]):
        kd = op["op"]
        if kd == "def_dim":
            p.op("def_dim", step=True, f="f0", name=op["name"], len=op["len"])
        elif kd == "def_var":
            p.op("def_var", step=True, f="f0", name=op["name"], xt=op["xt"], dims=op["dims"], ndims=len(op["dims"]))
        elif kd == "put_att":
            p.op("put_att", step=True, f="f0", v=op["v"], name=op["name"], xt=op["xt"], **att_args(op))
        elif kd == "del_att":
            p.op("del_att", step=True, f="f0", v=op["v"], name=op["name"])
        elif kd in ("rename_dim", "rename_var"):
            p.op(kd, step=True, f="f0", v=op["id"], name=op["name"])
        elif kd == "rename_att":
            p.op(kd, step=True, f="f0", v=op["v"], name=op["name"], newname=op["new"])
        elif kd == "enddef":
            p.op("enddef", step=True, f="f0")
        elif kd == "_enddef":
            a = op["args"]
            p.op("_enddef", step=True, f="f0", h_minfree=a[0], v_align=a[1], v_minfree=a[2], r_align=a[3])
        elif kd == "redef":
            p.op("redef", step=True, f="f0")
        elif kd == "write":
            emit_write(p, sim, op, k)
        elif kd == "sync":
            p.op("sync", step=True, f="f0")
        elif kd == "reopen":
            p.op("close", step=True, f="f0", what="close before reopen")
        else:
            raise ValueError(kd)
        was_indef, old_numrecs, was_first = sim.indef, sim.numrecs, sim.nenddef == 0
        sim.apply(op)
        if kd in ("enddef", "_enddef"):
            point(kd, i, "enddef", first=(op.get("args") or [0, 0, 0, 0]) if was_first else None)
        elif kd == "write" and sim.numrecs > old_numrecs:
            point("write adding records", i, "grow")
        elif kd == "sync":
            point("sync", i, "sync")
        elif kd in ("put_att", "rename_dim", "rename_var", "rename_att") and not was_indef:
            point("data-mode " + kd, i, "datamode")
        elif kd == "reopen":
            pt = point("close", i, "close", dump=False)
            p.op("open", step=True, f="f0", path=hx(PATH), mode=1, what="reopen for writing")
            pt.dump = p.op("dumpall", expect=None, f="f0", data=0)
    i = len(case["ops"])
    first = [0, 0, 0, 0] if sim.nenddef == 0 else None
    p.op("close", step=True, f="f0", what="final close")
    sim.apply({"op": "close"})
    pt = point("final close", i, "close", dump=False, first=first)
    pt.final = True
    nex = None
    if case["clobber"] == "symlink":
        nex = p.op("exists", ranks=[0], expect=None, path=hx(REAL))
    b = Point()
    b.p, b.points, b.sim, b.nex = p, points, sim, nex
    return b


# ------------------------------------------------------------------ oracle
def prob(kind, msg, **sig):
    s = {"kind": kind}
    s.update(sig)
    return {"kind": kind, "msg": msg, "sig": s}


def _short(x):
    s = repr(x)
    return s if len(s) < 300 else s[:300] + "..."


def align_sets(case, args):
    """acceptable alignments of (data section start, record section start) on the first enddef"""
    env, info = case["env"], case["info"]
    v_align, r_align = args[1], args[3]
    # reading A (comment block in ncmpio__enddef): PNETCDF_HINTS > MPI_Info > ncmpi__enddef arguments > defaults
    ha = env.get("h") or info.get("h") or env.get("v") or info.get("v") or v_align or 512
    ra = env.get("r") or info.get("r") or r_align or 4
    # reading B (RELEASE_NOTES 1.6.0): PNETCDF_HINTS > ncmpi__enddef arguments > MPI_Info > defaults
    hb = env.get("h") or env.get("v") or v_align or info.get("h") or info.get("v") or 512
    rb = env.get("r") or r_align or info.get("r") or 4
    # an alignment that is not a multiple of 4 is rounded up to one (variable begins must be 4-byte aligned in any case)
    return {M.roundup(ha, 4), M.roundup(hb, 4)}, {M.roundup(ra, 4), M.roundup(rb, 4)}


def check_point(case, pt, prev, d, res, k):
    """returns (problems, state for monotonicity)"""
    w = pt.what
    try:
        raw = open(os.path.join(d, pt.snap), "rb").read()
    except OSError as e:
        return [prob("nofile", "%s: no file to read: %s" % (w, e), when=pt.kind)], prev
    # (a) grammar
    try:
        cf = cdfspec.decode(raw, strict=True)
    except cdfspec.CDFError as e:
        return [prob("grammar", "%s: file violates the format grammar: %s" % (w, e), when=pt.kind)], prev
    out = []
    # (b) logical content
    got, want = cf.logical(), pt.logical
    for key in ("version", "numrecs", "dims", "gatts"):
        if got[key] != want[key]:
            out.append(prob("content_" + key, "%s: file has %s = %s, model %s" % (w, key, _short(got[key]), _short(want[key])), when=pt.kind))
    if len(got["vars"]) != len(want["vars"]):
        out.append(prob("content_nvars", "%s: file has %d variables, model %d" % (w, len(got["vars"]), len(want["vars"])), when=pt.kind))
    else:
        for i, (a, b) in enumerate(zip(got["vars"], want["vars"])):
            if a != b:
                out.append(prob("content_var", "%s: file var %d = %s, model %s" % (w, i, _short(a), _short(b)), when=pt.kind))
    if out:
        return out, prev
    # (c) layout
    for msg in cdfspec.layout_problems(cf, len(raw)):
        out.append(prob("layout", "%s: %s" % (w, msg), when=pt.kind, what=msg.split(":")[0].split(" ")[0]))
    if out:
        return out, prev
    hsize = cf.header_size
    fixed, rec = cf.fixed_vars(), cf.record_vars()
    begins = [v.begin for v in cf.vars]
    first_fix = cf.vars[fixed[0]].begin if fixed else None
    first_rec = min(cf.vars[i].begin for i in rec) if rec else None
    end_fix = max(cf.vars[i].begin + cf.var_nbytes_unpadded(cf.vars[i]) for i in fixed) if fixed else None
    if pt.first is not None:
        hset, rset = align_sets(case, pt.first)
        hmin, vmin = pt.first[0], pt.first[2]
        if fixed:
            if not any(first_fix % a == 0 for a in hset):
                out.append(prob("align_header", "%s: data section starts at %d, not a multiple of the header alignment in force %s "
                                "(env %s, info %s, _enddef %s)" % (w, first_fix, sorted(hset), case["env"], case["info"], pt.first), when="first_enddef"))
            if first_fix < hsize + hmin:
                out.append(prob("h_minfree", "%s: data section starts at %d < header size %d + h_minfree %d" % (w, first_fix, hsize, hmin), when="first_enddef"))
        if rec:
            if not any(first_rec % a == 0 for a in rset):
                out.append(prob("align_record", "%s: record section starts at %d, not a multiple of the record alignment in force %s "
                                "(env %s, info %s, _enddef %s)" % (w, first_rec, sorted(rset), case["env"], case["info"], pt.first), when="first_enddef"))
            if fixed and first_rec < end_fix + vmin:
                out.append(prob("v_minfree", "%s: record section starts at %d < end of fixed section %d + v_minfree %d" % (w, first_rec, end_fix, vmin), when="first_enddef"))
            if not fixed and first_rec < hsize + hmin:
                out.append(prob("h_minfree", "%s: record section starts at %d < header size %d + h_minfree %d" % (w, first_rec, hsize, hmin), when="first_enddef"))
    extent = min(begins) if begins else None
    if prev is not None:
        for i, (a, b) in enumerate(zip(prev["begins"], begins)):
            if b < a:
                out.append(prob("begin_decreased", "%s: begin of variable %d decreased from %d to %d" % (w, i, a, b), when=pt.kind))
        if prev["extent"] is not None and extent is not None and extent < prev["extent"]:
            out.append(prob("extent_decreased", "%s: start of the data section decreased from %d to %d" % (w, prev["extent"], extent), when=pt.kind))
    # written data
    for vi, recno, want_b in pt.data:
        arr = cdfspec.read_var(raw, cf, vi)
        got_b = (arr if recno < 0 else arr[recno:recno + 1]).tobytes()
        if got_b != want_b:
            out.append(prob("data", "%s: variable %d%s holds %s, written %s (begin %d, recsize %d)" % (
                w, vi, "" if recno < 0 else " record %d" % recno, got_b.hex()[:64], want_b.hex()[:64], cf.vars[vi].begin, cf.recsize()),
                when=pt.kind, rec=recno >= 0))
            break
    # (d) the library's own reports
    hext_seen = None
    if pt.dump is not None:
        for rk in range(k):
            dd = res.get(pt.dump, rk)
            if dd is None or dd.get("rc") != 0:
                out.append(prob("dump", "%s: inquiry failed on rank %d: %s" % (w, rk, None if dd is None else dd.get("rc")), when=pt.kind))
                continue
            if any(dd.get("he", [0])):
                out.append(prob("report_rc", "%s: inq_header_size/extent/recsize returned %s on rank %d" % (w, dd["he"], rk), when=pt.kind))
                continue
            if dd["hsize"] != hsize:
                out.append(prob("report_hsize", "%s: inq_header_size = %d on rank %d, the header in the file has %d bytes" % (w, dd["hsize"], rk, hsize), when=pt.kind))
            if extent is not None and dd["hext"] != extent:
                out.append(prob("report_hext", "%s: inq_header_extent = %d on rank %d, the first variable begins at %d" % (w, dd["hext"], rk, extent), when=pt.kind))
            if extent is None and pt.opened_novars and not sw(case, "hext_after_open_without_vars"):
                dd = dict(dd, hext=None)          # excluded (counted in classify)
            elif extent is None and dd["hext"] < hsize:
                out.append(prob("report_hext", "%s: inq_header_extent = %d on rank %d < header size %d" % (w, dd["hext"], rk, hsize), when=pt.kind))
            if dd["recsize"] != cf.recsize():
                out.append(prob("report_recsize", "%s: inq_recsize = %d on rank %d, the layout implies %d" % (w, dd["recsize"], rk, cf.recsize()), when=pt.kind))
            if cf.rec_dimid() >= 0 and dd["numrecs"] != cf.numrecs:
                out.append(prob("report_numrecs", "%s: inq_dimlen(unlimited) = %d on rank %d, the file header holds %d" % (w, dd["numrecs"], rk, cf.numrecs), when=pt.kind))
            offs = [v.get("off") for v in dd["vars"]]
            if offs != begins:
                out.append(prob("report_varoffset", "%s: inq_varoffset = %s on rank %d, the file header holds %s" % (w, offs, rk, begins), when=pt.kind))
            hext_seen = dd["hext"]
            # without variables the file does not record the extent, so it need not survive close + open
            if prev is not None and prev.get("hext") is not None and dd["hext"] is not None and pt.kind != "close" and dd["hext"] < prev["hext"]:
                out.append(prob("extent_decreased", "%s: inq_header_extent decreased from %d to %d" % (w, prev["hext"], dd["hext"]), when=pt.kind))
    # clobber
    if getattr(pt, "final", False) and case["clobber"]:
        at = raw.find(SENT)
        if at >= 0:
            out.append(prob("sentinel", "%s: bytes of the clobbered predecessor survive at offset %d of %d (header size %d, begins %s)" % (
                w, at, len(raw), hsize, begins), clobber=case["clobber"]))
        # nothing is ever written beyond the largest header of the history, the fixed-size variables and the last record;
        # a file without variables is truncated to its header at close (ncmpio_close.c)
        bound = max(hsize, (prev or {}).get("maxh", 0)) if cf.vars else hsize
        for i in fixed:
            bound = max(bound, cf.vars[i].begin + cf.var_vsize_computed(cf.vars[i]))
        if rec and cf.numrecs:
            bound = max(bound, first_rec + cf.numrecs * cf.recsize())
        if len(raw) > bound:
            out.append(prob("length", "%s: file has %d bytes, the layout implies at most %d" % (w, len(raw), bound), clobber=case["clobber"]))
    return out, {"begins": begins, "extent": extent, "hext": hext_seen, "maxh": max(hsize, (prev or {}).get("maxh", 0))}


def evaluate(case, b, res, d):
    probs = b.p.evaluate(res)
    if probs:
        return probs
    prev = None
    for pt in b.points:
        out, prev = check_point(case, pt, prev, d, res, case["k"])
        if out:
            return out
    if b.nex is not None:
        e = res.get(b.nex, 0)
        fin = os.path.getsize(os.path.join(d, b.points[-1].snap))
        if e is None or e.get("exists") != 1 or e.get("size") != fin:
            return [prob("symlink", "after create(NC_CLOBBER) through a symbolic link the link target is %s, the file read through the link "
                         "has %d bytes" % (e, fin))]
    return []


def classify(case, b):
    labels = {"fmt%d" % case["fmt"], "k%d" % case["k"], "clobber_%s" % (case["clobber"] or "none")}
    hint = ("info" if case["info"] else "") + ("env" if case["env"] else "")
    labels.add("hint_" + (hint or "none"))
    arg_align = nt_schema = redef_after = False
    sim = Sim(case["fmt"])
    for op in case["ops"]:
        kd = op["op"]
        if kd in ("enddef", "_enddef"):
            if sim.nenddef == 0:
                labels.add("first_" + kd)
                if kd == "_enddef" and (op["args"][1] or op["args"][3]):
                    arg_align = True
                    labels.add("first__enddef_align_args")
                if kd == "_enddef" and (op["args"][0] or op["args"][2]):
                    labels.add("first__enddef_minfree")
                if (case["info"] or case["env"]) and kd == "_enddef" and (op["args"][1] or op["args"][3]):
                    labels.add("first_enddef_hint_and_arg")
            else:
                labels.add("redef_then_" + kd)
        elif sim.nenddef > 0:
            if kd == "redef":
                redef_after = True
            elif sim.indef:
                labels.add("redef_" + kd)
                if kd == "def_var":
                    vrec = bool(op["dims"]) and sim.f.dims[op["dims"][0]][1] == 0
                    labels.add("redef_add_recvar" if vrec else "redef_add_fixvar")
                    if vrec and len(sim.rec_vars()) == 1:
                        labels.add("redef_second_recvar_unpacks")
            elif kd in ("put_att", "rename_dim", "rename_var", "rename_att"):
                labels.add("datamode_" + kd)
            elif kd in ("write", "sync", "reopen"):
                labels.add("op_" + kd)
        sim.apply(op)
        if not sim.indef:
            if sim.fix_vars() and sim.rec_vars():
                nt_schema = True
            if len(sim.rec_vars()) == 1:
                vi = sim.rec_vars()[0]
                if (sim.count(vi) * M.XT_SIZE[sim.f.vars[vi].xt]) % 4:
                    labels.add("one_recvar_packed_unaligned")
            if sim.opened_novars and not sw(case, "hext_after_open_without_vars"):
                labels.add("excluded_hext_after_open_without_vars")
    if sim.indef:
        labels.add("close_in_define_mode")
        if sim.fix_vars() and sim.rec_vars():
            nt_schema = True
    if sim.numrecs:
        labels.add("numrecs>0")
    if not sim.f.vars:
        labels.add("no_variables")
    if sim.f.vars and not sim.fix_vars():
        labels.add("only_record_variables")
    if sim.f.vars and not sim.rec_vars():
        labels.add("only_fixed_variables")
    names = [hexb(op[kk]) for op in case["ops"] for kk in ("name", "new") if kk in op]
    if any(len(n) >= 250 for n in names):
        labels.add("name_250+_bytes")
    if any(max(n) >= 0x80 for n in names):
        labels.add("name_utf8")
    if any(op["op"] == "put_att" and len(op.get("vals", hexb(op.get("text", "")))) == 0 for op in case["ops"]):
        labels.add("att_len0")
    nt = nt_schema and (bool(case["info"]) or bool(case["env"]) or arg_align or redef_after)
    if nt:
        labels.add("nontrivial")
    return labels, nt


def describe(op):
    o = dict(op)
    for kk in ("name", "new"):
        if kk in o:
            b_ = hexb(o[kk])
            o[kk] = repr(b_ if len(b_) <= 24 else b_[:10] + b"..." + b"(%d bytes)" % len(b_))
    if "vals" in o and len(o["vals"]) > 6:
        o["vals"] = "%d values" % len(o["vals"])
    if "text" in o and len(o["text"]) > 16:
        o["text"] = "%d bytes" % (len(o["text"]) // 2)
    return " ".join("%s=%s" % (kk, v) for kk, v in o.items())


def run_case(ctx, case):
    b = build(case)
    pool = ctx.pool("asan", nprocs=1 if case["k"] == 1 else 4)
    res, d = pool.run(b.p.s, keepdir=True)
    try:
        probs = evaluate(case, b, res, d)
    finally:
        shutil.rmtree(d, ignore_errors=True)
    labels, nt = classify(case, b)
    ctx.count(*labels)
    ctx.stats["points_checked"] += len(b.points)
    ctx.stats["ops_total"] += len(case["ops"])
    if nt and not probs:
        ctx.nontrivial(runner.case_hash(case))
    ctx.sample({"fmt": case["fmt"], "k": case["k"], "clobber": case["clobber"], "info": case["info"], "env": case["env"],
                "ops": [describe(o) for o in case["ops"][:30]]}, limit=2)
    return probs


def case_script(case):
    return build(case).p.s.text("<dir>")[0]


def campaign(ctx):
    n = {"quick": 500, "thorough": 2000}[ctx.tier]
    runner.run_hypothesis(ctx, case_strategy(ctx.tier), runner.guarded(run_case), n)


if __name__ == "__main__":
    runner.main("checks.c03", PROP, default_workers=8, nt_floor=60)
