#!/usr/bin/env python3-vt
"""C09 - numeric type conversion and range checking are exact (variables and attributes)."""
import os, sys, re, shutil, collections
sys.path.insert(0, os.path.dirname(os.path.dirname(os.path.abspath(__file__))))
import numpy as np
from hypothesis import strategies as st
from pv import model as M
from pv import convert as C
from pv.pool import Script, hx
from pv import runner

PROP = "C09"
RULE = ("Deterministic enumeration of every (external type x memory type incl. long) pair legal for the format, both "
        "directions, variables (with and without a user _FillValue) and attributes, CDF-1/2/5, plus text<->numeric NC_ECHAR "
        "probes; each pair transfers whole value vectors through one put/get call: ALL 2^8/2^16 source values when the source "
        "type is <= 16 bits, otherwise every bound of every integer type +-{0,1,2}, nextafter neighbours, halves around the "
        "bounds, powers of two +-1, 0, sign changes, denormals, FLT_MAX/DBL_MAX neighbourhoods, +-Inf, NaN and seeded "
        "pseudo-random values; plus a Hypothesis part that draws pair, API flavour (typed/flexible, var/vara/vars/varm/varn, "
        "collective/independent), fill value and the positions of offending elements among in-range ones. Oracle = independent "
        "numpy/Python-int conversion model (pv/convert.py, Appendix D) applied to the bytes stored in the file (native-type "
        "read back + independent CDF decoder on the closed file) for writes and to the user buffer for reads. "
        "Non-trivial = a transferred vector holding both in-range and out-of-range elements for a pair that needs "
        "conversion; distinct = distinct case hash.")
ASSUMPTIONS = ["single process (MPI singleton), local POSIX file system; conversion is rank-local so nprocs is irrelevant",
               "the build has ERANGE_FILL enabled (configured default): out-of-range elements receive fill values",
               "IEEE-754 binary32/binary64, two's complement, long is 64 bit (LP64)",
               "ambiguity band of DESIGN Appendix D is not asserted either way: floating values strictly between MAX and MAX+1 "
               "(MIN-1 and MIN) of an integer target, the single value fl(MAX) of 64-bit integer targets, +-Inf between float "
               "and double, and doubles above FLT_MAX that round-to-nearest still maps to FLT_MAX",
               "the value substituted for an out-of-range element read into a `long` buffer is unconstrained (no NC_FILL constant "
               "exists for long); NaN payloads are not compared (any NaN for NaN)",
               "blocking APIs only; nonblocking conversions share the same conversion routines and are covered by C02 for in-range values"]

ERANGE, ECHAR = M.E["ERANGE"], M.E["ECHAR"]
XT_NUM = [1, 3, 4, 5, 6, 7, 8, 9, 10, 11]
MTS = list(M.MT_NUMERIC)
MODE = {1: 0, 2: 0x200, 5: 0x20}
FILLBYTE = 0xEE

# ---- generator switches (True = the sub-domain is generated).  A switch is turned off only for a confirmed
# ---- defect that is kept as a replay under replays/C09/, so that the search continues past it.
SWITCHES = {
    # NaN source value with an integer destination (put and get, variables and attributes): passes the range comparisons,
    # (int)NaN is executed.  Confirmed defect, replays/C09/nan-to-int-*.json
    "nan_to_int": True,
    # the value fl(MAX) = 2^63 (2^64) written to a 64-bit integer external type: `*ip > (double)X_INT64_MAX` is false, the cast
    # overflows, INT64_MIN (0 / garbage for unsigned) is stored with NC_NOERR.  Confirmed defect, replays/C09/flmax64-put-*.json
    "flmax64_put": True,
    # flexible API with a text buftype on a numeric variable or a numeric buftype on an NC_CHAR variable: assertion abort
    # instead of NC_ECHAR.  Confirmed defect, replays/C09/echar-flex-*.json
    "echar_flex": True,
    # independent blocking put_varn whose buffer holds an out-of-range element: ncmpio_put_varn returns NC_ERANGE before
    # waiting for the request it just queued -> nothing is written, ncmpi_close reports NC_EPENDING.  Confirmed defect,
    # replays/C09/put-varn-indep-erange.json.  Off = such cases are run with the collective call instead.
    "put_varn_indep_erange": True,
}


ECHAR_FLEX = ["put_text_on_num", "put_num_on_char", "get_text_on_num", "get_num_on_char"]


def xt_legal(fmt):
    return [x for x in XT_NUM if fmt == 5 or x <= 6]


def is_exempt(fmt, xt, mt):
    return fmt != 5 and xt == M.NC_BYTE and mt == "uchar"


def case_dtypes(case):
    xd, md = np.dtype(M.XT_DTYPE[case["xt"]]), np.dtype(M.MT_DTYPE[case["mt"]])
    return (md, xd) if case["dir"] == "put" else (xd, md)


def needs_conversion(case):
    sd, dd = case_dtypes(case)
    return sd != dd and not is_exempt(case["fmt"], case["xt"], case["mt"])


def sw(case, name):
    return bool((case.get("sw") or {}).get(name, SWITCHES[name]))


# ------------------------------------------------------------------ value vectors
class Vec:
    def __init__(self, name, src, status, val):
        self.name, self.src, self.status, self.val = name, src, status, val

    @property
    def n(self):
        return len(self.src)

    def expect_rc(self):
        if (self.status == C.OUT).any():
            return [ERANGE]
        if (self.status == C.AMB).any():
            return [0, ERANGE]
        return [0]

    def mixed(self):
        return bool((self.status == C.OUT).any() and (self.status == C.IN).any())


def source_pool(case):
    """candidate source values of the case (before classification); a pure function of the case"""
    sd, dd = case_dtypes(case)
    vec = case["vec"]
    mode = vec["mode"]
    if mode == "explicit":
        return np.frombuffer(bytes.fromhex(vec["hex"]), dtype=sd).copy()
    if mode == "exh":
        lo, hi = C.irange(sd)
        return np.arange(lo, hi + 1, dtype=np.int64).astype(sd)
    nrand = int(vec.get("nrand", 0))
    parts = [C.boundary_values(sd)]
    if nrand:
        parts.append(C.random_values(sd, dd, vec.get("seed", 0), nrand))
    return np.concatenate(parts)


def apply_switches(case, vals):
    """remove sub-domains excluded by generator switches; returns (vals, {name: count})"""
    sd, dd = case_dtypes(case)
    excl = {}
    if sd.kind == "f" and dd.kind in "iu":
        if not sw(case, "nan_to_int"):
            m = np.isnan(vals)
            if m.any():
                excl["nan_to_int"] = int(m.sum())
                vals = vals[~m]
        if not sw(case, "flmax64_put") and case["dir"] == "put" and dd.itemsize == 8:
            m = vals.astype(np.float64) == float(C.irange(dd)[1])
            if m.any():
                excl["flmax64_put"] = int(m.sum())
                vals = vals[~m]
    return vals, excl


def make_vectors(case):
    """-> (list of Vec, exclusions)"""
    sd, dd = case_dtypes(case)
    ex = is_exempt(case["fmt"], case["xt"], case["mt"])
    vec = case["vec"]
    mode = vec["mode"]
    vals, excl = apply_switches(case, source_pool(case))
    status, val = C.convert(vals, dd, exempt=ex)
    if mode == "explicit":
        return ([Vec("explicit", vals, status, val)] if len(vals) else []), excl
    rng = np.random.Generator(np.random.PCG64(int(vec.get("seed", 0)) * 2654435761 % (1 << 48) + 17))
    if mode == "placed":
        # n_in in-range values, offending values inserted at the drawn positions
        idx_in = np.flatnonzero(status == C.IN)
        idx_out = np.flatnonzero(status == C.OUT)
        n_in = min(int(vec["n_in"]), len(idx_in))
        pick = rng.choice(idx_in, size=n_in, replace=False) if n_in else np.zeros(0, np.int64)
        order = list(pick.tolist())
        if len(idx_out):
            for pos, sel in vec["ins"]:
                order.insert(pos % (len(order) + 1), int(idx_out[sel % len(idx_out)]))
        order = np.array(order, dtype=np.int64)
        vs = []
        if len(order):
            vs.append(Vec("placed", vals[order], status[order], val[order]))
        if n_in and len(idx_out):
            vs.append(Vec("placed_in", vals[pick], status[pick], val[pick]))
        return vs, excl
    vs = []
    i_in = np.flatnonzero(status == C.IN)
    i_mix = np.flatnonzero(status != C.AMB)
    i_amb = np.flatnonzero(status == C.AMB)
    has_out = bool((status == C.OUT).any())
    if len(i_in):
        vs.append(Vec("in", vals[i_in], status[i_in], val[i_in]))
    if has_out:
        if mode == "bnd":
            i_mix = i_mix[rng.permutation(len(i_mix))]
        vs.append(Vec("mix", vals[i_mix], status[i_mix], val[i_mix]))
    if len(i_amb):
        # ambiguous values interleaved with in-range ones
        k = min(len(i_in), len(i_amb))
        sel = np.concatenate([i_amb, i_in[:k]])
        sel = sel[rng.permutation(len(sel))]
        vs.append(Vec("amb", vals[sel], status[sel], val[sel]))
    return vs, excl


def value_class(x):
    if isinstance(x, (float, np.floating)):
        if np.isnan(x):
            return "nan"
        if np.isinf(x):
            return "inf"
        if abs(float(x)) in (2.0 ** 63, 2.0 ** 64):
            return "flmax64"
        return "finite"
    return "int"


# ------------------------------------------------------------------ script construction
def user_fill(case):
    """the variable's _FillValue as a 0-d array of the external dtype, or None"""
    f = case.get("fill")
    if not f:
        return None
    return np.frombuffer(bytes.fromhex(f["hex"]), dtype=M.XT_DTYPE[case["xt"]])[0]


def idx_kw(api, n, seed):
    form = api.get("form", "vara")
    kw = {"form": form}
    if form in ("vara", "vars", "varm"):
        kw["start"], kw["count"] = [0], [n]
    if form in ("vars", "varm"):
        kw["stride"] = [1] if seed % 2 else None
    if form == "varm":
        kw["imap"] = [1] if (seed // 2) % 2 else None
    if form == "varn":
        cuts = sorted(set([0, n] + [((seed * 7919 + 13 * j) % n) for j in range(1, 3)])) if n > 1 else [0, n]
        kw["starts"] = [[a] for a, b in zip(cuts[:-1], cuts[1:])]
        kw["counts"] = [[b - a] for a, b in zip(cuts[:-1], cuts[1:])]
        kw["num"] = len(kw["starts"])
    return kw


def bt_type(api, mt, n, native=False):
    """derived buffer datatype of a flexible call (None = primitive buftype with bufcount n): 'vec2' = every other element of
    the buffer, 'idx' = two blocks separated by a 3-element gap (first block displaced by one element)"""
    bt = api.get("bt") if (api.get("flex") and not native) else None
    if not bt or n < 1:
        return None
    P = ("prim", M.MT_PRIM[mt])
    if bt == "vec2":
        return ("vec", n, 1, 2, P)
    h = max(1, n // 2)
    return ("idx", [(h, 1), (n - h, h + 4)] if n - h > 0 else [(h, 1)], P)


def bt_spread(T, raw, itemsize, fillbyte):
    """lay the packed bytes raw out in a buffer described by one instance of T; gaps hold fillbyte"""
    offs, size = M.t_layout(T, 1)
    out = np.full(size, fillbyte, dtype=np.uint8)
    src = np.frombuffer(raw, dtype=np.uint8).reshape(-1, itemsize)
    for j in range(itemsize):
        out[offs + j] = src[:, j]
    return out.tobytes()


def bt_gather(T, buf, itemsize):
    """-> (packed bytes of the selected elements, bytes of the gaps)"""
    offs, size = M.t_layout(T, 1)
    a = np.frombuffer(buf[:size], dtype=np.uint8)
    if len(a) < size:
        return b"", b""
    sel = (offs[:, None] + np.arange(itemsize)[None, :]).reshape(-1)
    mask = np.ones(size, dtype=bool)
    mask[sel] = False
    return a[sel].tobytes(), a[mask].tobytes()


def data_op(s, api, kind, mt, vi, n, buf, seed, rb=0, native=False):
    """emit a blocking put/get of the whole 1-D variable vi"""
    kw = idx_kw(api if not native else {"form": "vara"}, n, seed)
    T = bt_type(api, mt, n, native)
    if T is not None:
        tname = "t%d" % (1 + vi % 60)
        s.op("type", t=tname, spec=M.t_spec(T))
        kw["buftype"] = tname
        kw["bufcount"] = 1
        mtarg = "flex"
    elif api.get("flex") and not native:
        kw["buftype"] = M.MT_PRIM[mt]
        kw["bufcount"] = n
        mtarg = "flex"
    else:
        mtarg = mt
    return s.op("data", api=kind, coll=1 if api.get("coll", 1) else 0, mt=mtarg, f="f0", v=vi, buf=buf, rb=rb, **kw)


def build(case):
    """-> (Script, plan) ; plan describes what evaluate() has to look at"""
    kind = case["kind"]
    if kind in ("echar_var", "echar_att", "echar_flex"):
        return build_echar(case)
    fmt, xt, mt, dr = case["fmt"], case["xt"], case["mt"], case["dir"]
    api = case.get("api") or {}
    seed = int(case["vec"].get("seed", 0))
    sd, dd = case_dtypes(case)
    vecs, excl = make_vectors(case)
    native = M.XT_NATIVE_MT[xt]
    s = Script(k=1)
    plan = {"vecs": vecs, "excl": excl, "steps": [], "ok0": []}
    ok0 = plan["ok0"]
    if (kind == "var" and dr == "put" and api.get("form") == "varn" and not api.get("coll", 1)
            and not sw(case, "put_varn_indep_erange") and any((v.status != C.IN).any() for v in vecs)):
        api = dict(api, coll=1)
        excl["put_varn_indep_erange"] = 1
    plan["api"] = api
    ok0.append((s.op("create", f="f0", path=hx("t.nc"), mode=MODE[fmt]), "create"))
    if kind == "var":
        for i, v in enumerate(vecs):
            ok0.append((s.op("def_dim", f="f0", name=hx("d%d" % i), len=v.n), "def_dim"))
        for i, v in enumerate(vecs):
            ok0.append((s.op("def_var", f="f0", name=hx("v%d" % i), xt=xt, dims=[i], ndims=1), "def_var"))
            f = case.get("fill")
            if f and dr == "put":
                if f.get("via") == "put_att":
                    ok0.append((s.op("put_att", f="f0", v=i, name=hx("_FillValue"), xt=xt, mt=native, n=1, hex=bytes.fromhex(f["hex"])), "put_att _FillValue"))
                else:
                    ok0.append((s.op("def_var_fill", f="f0", v=i, nofill=0, fv=bytes.fromhex(f["hex"])), "def_var_fill"))
        ok0.append((s.op("enddef", f="f0"), "enddef"))
        coll = 1 if api.get("coll", 1) else 0
        if not coll:
            ok0.append((s.op("begin_indep", f="f0"), "begin_indep"))
        for i, v in enumerate(vecs):
            T = bt_type(api, mt, v.n)
            if dr == "put":
                if T is not None:
                    sp = bt_spread(T, v.src.tobytes(), sd.itemsize, FILLBYTE)
                    s.op("buf", b="b%d" % i, size=len(sp), hex=sp)
                else:
                    s.op("buf", b="b%d" % i, size=max(1, v.n * sd.itemsize), hex=v.src.tobytes())
                n = data_op(s, api, "put", mt, i, v.n, "b%d" % i, seed + i)
                plan["steps"].append({"vec": i, "n": n, "what": "put"})
            else:
                s.op("buf", b="b%d" % i, size=max(1, v.n * sd.itemsize), hex=v.src.tobytes())
                ok0.append((data_op(s, api, "put", native, i, v.n, "b%d" % i, seed + i, native=True), "put native"))
                s.op("buf", b="b%d" % (i + 100), size=max(1, M.t_layout(T, 1)[1] if T is not None else v.n * dd.itemsize), fill=FILLBYTE)
                n = data_op(s, api, "get", mt, i, v.n, "b%d" % (i + 100), seed + i, rb=1)
                plan["steps"].append({"vec": i, "n": n, "what": "get"})
        if dr == "put":
            plan["dump"] = s.op("dumpall", f="f0", data=1, coll=coll, maxbytes=1 << 26)
        if not coll:
            ok0.append((s.op("end_indep", f="f0"), "end_indep"))
        ok0.append((s.op("close", f="f0"), "close"))
    else:   # attributes
        av = case.get("attvar", -1)
        ok0.append((s.op("def_dim", f="f0", name=hx("d"), len=2), "def_dim"))
        ok0.append((s.op("def_var", f="f0", name=hx("v"), xt=M.NC_INT, dims=[0], ndims=1), "def_var"))
        for i, v in enumerate(vecs):
            nm = hx("a%d" % i)
            if dr == "put":
                n = s.op("put_att", f="f0", v=av, name=nm, xt=xt, mt=mt, n=v.n, hex=v.src.tobytes())
                plan["steps"].append({"vec": i, "n": n, "what": "put_att"})
            else:
                ok0.append((s.op("put_att", f="f0", v=av, name=nm, xt=xt, mt=native, n=v.n, hex=v.src.tobytes()), "put_att native"))
        ok0.append((s.op("enddef", f="f0"), "enddef"))
        if dr == "get":
            for i, v in enumerate(vecs):
                n = s.op("get_att", f="f0", v=av, name=hx("a%d" % i), mt=mt, cap=v.n * dd.itemsize)
                plan["steps"].append({"vec": i, "n": n, "what": "get_att"})
        else:
            plan["dump"] = s.op("dumpall", f="f0", data=0, coll=1)
        ok0.append((s.op("close", f="f0"), "close"))
    if dr == "put" and case.get("decode", True):
        s.op("snapshot", path=hx("t.nc"), to="final")
        plan["decode"] = True
    return s, plan


def build_echar(case):
    fmt, xt, mt = case["fmt"], case["xt"], case["mt"]
    md = np.dtype(M.MT_DTYPE[mt])
    xd = np.dtype(M.XT_DTYPE[xt])
    native = M.XT_NATIVE_MT[xt]
    s = Script(k=1)
    plan = {"vecs": [], "excl": {}, "steps": [], "ok0": [], "echar": []}
    ok0, ech = plan["ok0"], plan["echar"]
    txt = b"abcd"
    num = np.array([1, 2, 3, 4]).astype(xd)
    oth = np.array([5, 6, 7, 8]).astype(md)
    ok0.append((s.op("create", f="f0", path=hx("t.nc"), mode=MODE[fmt]), "create"))
    ok0.append((s.op("def_dim", f="f0", name=hx("d"), len=4), "def_dim"))
    ok0.append((s.op("def_var", f="f0", name=hx("c"), xt=M.NC_CHAR, dims=[0], ndims=1), "def_var"))
    ok0.append((s.op("def_var", f="f0", name=hx("v"), xt=xt, dims=[0], ndims=1), "def_var"))
    if case["kind"] == "echar_att":
        ok0.append((s.op("put_att", f="f0", v=-1, name=hx("t"), xt=M.NC_CHAR, mt="text", n=4, hex=txt), "put_att_text"))
        ok0.append((s.op("put_att", f="f0", v=-1, name=hx("a"), xt=xt, mt=native, n=4, hex=num.tobytes()), "put_att native"))
        ech.append((s.op("put_att", f="f0", v=-1, name=hx("bad"), xt=M.NC_CHAR, mt=mt, n=4, hex=oth.tobytes()), "put_att_%s(NC_CHAR) new" % mt))
        ech.append((s.op("put_att", f="f0", v=-1, name=hx("t"), xt=M.NC_CHAR, mt=mt, n=4, hex=oth.tobytes()), "put_att_%s(NC_CHAR) over text att" % mt))
        ech.append((s.op("get_att", f="f0", v=-1, name=hx("a"), mt="text", cap=64), "get_att_text on numeric att"))
        ech.append((s.op("get_att", f="f0", v=-1, name=hx("t"), mt=mt, cap=64), "get_att_%s on text att" % mt))
        ok0.append((s.op("enddef", f="f0"), "enddef"))
    else:
        ok0.append((s.op("enddef", f="f0"), "enddef"))
    s.op("buf", b="b0", size=4, hex=txt)
    ok0.append((s.op("data", api="put", form="var", coll=1, mt="text", f="f0", v=0, buf="b0"), "put_var_text"))
    s.op("buf", b="b1", size=4 * xd.itemsize, hex=num.tobytes())
    ok0.append((s.op("data", api="put", form="var", coll=1, mt=native, f="f0", v=1, buf="b1"), "put_var native"))
    if case["kind"] == "echar_var":
        s.op("buf", b="b2", size=4 * md.itemsize, hex=oth.tobytes())
        ech.append((s.op("data", api="put", form="vara", coll=1, mt=mt, f="f0", v=0, start=[0], count=[4], buf="b2"), "put_vara_%s on NC_CHAR var" % mt))
        s.op("buf", b="b3", size=4, hex=b"wxyz")
        ech.append((s.op("data", api="put", form="vara", coll=1, mt="text", f="f0", v=1, start=[0], count=[4], buf="b3"), "put_vara_text on numeric var"))
        s.op("buf", b="b4", size=4 * md.itemsize, fill=FILLBYTE)
        ech.append((s.op("data", api="get", form="vara", coll=1, mt=mt, f="f0", v=0, start=[0], count=[4], buf="b4", rb=1), "get_vara_%s on NC_CHAR var" % mt))
        s.op("buf", b="b5", size=4, fill=FILLBYTE)
        ech.append((s.op("data", api="get", form="vara", coll=1, mt="text", f="f0", v=1, start=[0], count=[4], buf="b5", rb=1), "get_vara_text on numeric var"))
    if case["kind"] == "echar_flex":
        # flexible API: the element type of buftype plays the role of the memory type
        w = case["which"]
        prim = M.MT_PRIM[mt]
        if w == "put_text_on_num":
            s.op("buf", b="b2", size=4, hex=b"wxyz")
            ech.append((s.op("data", api="put", form="vara", coll=1, mt="flex", f="f0", v=1, start=[0], count=[4], buf="b2", buftype="char", bufcount=4), "flexible put_vara(MPI_CHAR) on numeric var"))
        elif w == "put_num_on_char":
            s.op("buf", b="b2", size=4 * md.itemsize, hex=oth.tobytes())
            ech.append((s.op("data", api="put", form="vara", coll=1, mt="flex", f="f0", v=0, start=[0], count=[4], buf="b2", buftype=prim, bufcount=4), "flexible put_vara(%s) on NC_CHAR var" % prim))
        elif w == "get_text_on_num":
            s.op("buf", b="b2", size=4, fill=FILLBYTE)
            ech.append((s.op("data", api="get", form="vara", coll=1, mt="flex", f="f0", v=1, start=[0], count=[4], buf="b2", buftype="char", bufcount=4, rb=1), "flexible get_vara(MPI_CHAR) on numeric var"))
        else:
            s.op("buf", b="b2", size=4 * md.itemsize, fill=FILLBYTE)
            ech.append((s.op("data", api="get", form="vara", coll=1, mt="flex", f="f0", v=0, start=[0], count=[4], buf="b2", buftype=prim, bufcount=4, rb=1), "flexible get_vara(%s) on NC_CHAR var" % prim))
    plan["dump"] = s.op("dumpall", f="f0", data=1, coll=1)
    ok0.append((s.op("close", f="f0"), "close"))
    s.op("snapshot", path=hx("t.nc"), to="final")
    plan["decode"] = True
    plan["echar_expect"] = {"txt": txt, "num": num}
    return s, plan


# ------------------------------------------------------------------ evaluation
def prob(kind, msg, case, **sig):
    g = {"kind": kind, "dir": case.get("dir"), "vk": case["kind"]}
    g.update(sig)
    return {"kind": kind, "msg": msg, "sig": g}


def label(case):
    return "%s.%s.f%d.%s<-%s" % (case["kind"], case.get("dir", "-"), case["fmt"], M.XT_NAME[case["xt"]], case["mt"]) if case.get("dir") == "put" \
        else "%s.%s.f%d.%s->%s" % (case["kind"], case.get("dir", "-"), case["fmt"], M.XT_NAME[case["xt"]], case["mt"])


def amb_class(x, dd):
    c = value_class(x)
    if c in ("inf", "flmax64"):
        return c
    return "band" if dd.kind in "iu" else "above_fltmax"


def judge_vec(case, v, got, fill, what, rc=None, stats=None):
    """compare delivered destination values with the model; returns problems"""
    out = []
    if len(got) != v.n:
        return [prob("size", "%s %s: %d values delivered, %d expected" % (label(case), what, len(got), v.n), case)]
    bad, reason = C.judge(got, v.status, v.val, fill)
    if stats is not None and fill is not None:
        # what the library does inside the ambiguity band (reported, never judged)
        for j in np.flatnonzero(v.status == C.AMB)[:64]:
            conv = not C.neq_bits(got[j:j + 1], v.val[j:j + 1].astype(got.dtype))[0]
            stats["amb_%s_%s_%s" % (case["dir"], amb_class(v.src[j], got.dtype), "converted" if conv else "filled")] += 1
    if bad.any():
        j = int(np.argmax(bad))
        src = v.src[j]
        why = {1: "in-range value converted wrongly (expected %r)" % (v.val[j].item(),),
               2: "out-of-range element does not hold the fill value %r" % (None if fill is None else fill.item(),),
               3: "ambiguous-band element is neither the fill value %r nor %r" % (None if fill is None else fill.item(), v.val[j].item())}[int(reason[j])]
        out.append({"kind": "value", "msg": "%s %s vector '%s' element %d of %d: source %r -> %r: %s (%d elements wrong; call returned %s)" % (
            label(case), what, v.name, j, v.n, src.item(), got[j].item(), why, int(bad.sum()), rc),
            "sig": {"kind": "value", "dir": case["dir"], "vk": case["kind"], "reason": int(reason[j]), "cls": value_class(src),
                    "dstkind": "int" if got.dtype.kind in "iu" else "float"},
            "where": {"vec": v.name, "index": j, "src_hex": src.tobytes().hex(),
                      "in_hex": (v.src[np.flatnonzero(v.status == C.IN)[:1]].tobytes().hex())}})
    return out


def rc_problem(case, v, rc, what):
    exp = v.expect_rc()
    if rc in exp:
        return []
    # name a culprit: the first out-of-range element if an error was expected, else nothing
    j = int(np.argmax(v.status == C.OUT)) if ERANGE in exp and len(exp) == 1 else None
    cls = value_class(v.src[j]) if j is not None else "none"
    if j is not None and len(exp) == 1:
        # prefer an offending class that is known to be special
        for jj in np.flatnonzero(v.status == C.OUT)[:4096]:
            c = value_class(v.src[jj])
            if c in ("nan", "inf"):
                cls = c
                break
    w = {"vec": v.name}
    if j is not None:
        w.update({"index": j, "src_hex": v.src[j].tobytes().hex(), "in_hex": (v.src[np.flatnonzero(v.status == C.IN)[:1]].tobytes().hex())})
    return [{"kind": "rc", "msg": "%s %s vector '%s' (%d elements, %d out of range, %d ambiguous) returned %s, expected %s" % (
        label(case), what, v.name, v.n, int((v.status == C.OUT).sum()), int((v.status == C.AMB).sum()), rc, exp),
        "sig": {"kind": "rc", "dir": case["dir"], "vk": case["kind"], "rc": rc, "expect": exp, "cls": cls,
                "dstkind": "int" if case_dtypes(case)[1].kind in "iu" else "float"}, "where": w}]


def find_att(atts, name):
    for a in atts:
        if bytes.fromhex(a["name"]) == name:
            return a
    return None


def evaluate(case, plan, res, d, stats=None):
    probs = []
    for n, what in plan["ok0"]:
        rc = res.rc(n)
        if rc != 0:
            probs.append(prob("rc0", "%s: %s returned %s, expected 0" % (label(case), what, rc), case, op=what.split()[0], rc=rc))
    if any(p["sig"]["op"] not in ("close", "end_indep") for p in probs):
        return probs
    late = probs
    probs = []
    probs += _evaluate_data(case, plan, res, d, stats)
    if late:
        # a failing close/end_indep (e.g. NC_EPENDING) is named in the signature of everything else the case reports
        tag = ",".join("%s=%s" % (p["sig"]["op"], p["sig"]["rc"]) for p in late)
        for p in probs:
            p["sig"]["after"] = tag
    return probs + late


def _evaluate_data(case, plan, res, d, stats=None):
    probs = []
    if case["kind"] in ("echar_var", "echar_att", "echar_flex"):
        return evaluate_echar(case, plan, res, d)
    vecs = plan["vecs"]
    xt, mt, dr = case["xt"], case["mt"], case["dir"]
    sd, dd = case_dtypes(case)
    xd = np.dtype(M.XT_DTYPE[xt])
    if dr == "put":
        uf = user_fill(case) if case["kind"] == "var" else None
        fill = np.array(uf if uf is not None else C.fill_scalar(xt, xd), dtype=xd)
    else:
        fx = C.MT_FILL_XT.get(mt)
        fill = None if fx is None else C.fill_scalar(fx, dd)
    dump = res.get(plan["dump"]) if "dump" in plan else None
    dec = None
    if plan.get("decode") and d is not None:
        from pv import cdfspec
        try:
            data = open(os.path.join(d, "final"), "rb").read()
            dec = (cdfspec.decode(data, strict=True), data)
        except cdfspec.CDFError as e:
            probs.append(prob("decode", "%s: closed file violates the format grammar: %s" % (label(case), e), case))
        except OSError as e:
            probs.append(prob("nofile", "%s: %s" % (label(case), e), case))
    for stp in plan["steps"]:
        v = vecs[stp["vec"]]
        e = res.get(stp["n"])
        rc = None if e is None else e.get("rc")
        what = stp["what"]
        probs += rc_problem(case, v, rc, what)
        if e is not None and e.get("guards") == 0:
            probs.append(prob("guard", "%s %s: guard zone damaged" % (label(case), what), case))
        if what == "put" and e is not None and e.get("same") == 0:
            probs.append(prob("wbuf", "%s %s: caller's write buffer was modified" % (label(case), what), case))
        if rc not in (0, ERANGE):
            continue
        i = stp["vec"]
        if what in ("get", "get_att"):
            T = bt_type(plan.get("api") or {}, case["mt"], v.n) if what == "get" else None
            if T is not None:
                raw, gaps = bt_gather(T, bytes.fromhex(e.get("hex", "")), dd.itemsize)
                if gaps.strip(bytes([FILLBYTE])):
                    probs.append(prob("gap", "%s %s: bytes of the read buffer outside the buffer datatype were modified" % (label(case), what), case))
            else:
                raw = bytes.fromhex(e.get("hex", ""))[: v.n * dd.itemsize]
            got = np.frombuffer(raw, dtype=dd)
            probs += judge_vec(case, v, got, fill, what, rc, stats)
        elif what == "put":
            if dump is None or dump.get("rc") != 0:
                probs.append(prob("nodump", "%s: dumpall failed" % label(case), case))
                continue
            dv = dump["vars"][i]
            if dv.get("de") != 0 or dv.get("data") is None:
                probs.append(prob("rc0", "%s: native read back of variable %d returned %s" % (label(case), i, dv.get("de")), case, op="get_var native"))
                continue
            got = np.frombuffer(bytes.fromhex(dv["data"]), dtype=xd)
            probs += judge_vec(case, v, got, fill, "put (file content read back natively)", rc, stats)
            if dec is not None and not probs:
                from pv import cdfspec
                f, data = dec
                a = np.asarray(cdfspec.read_var(data, f, i))
                a = np.ascontiguousarray(a).view(np.uint8) if a.dtype.kind == "S" else a.astype(a.dtype.newbyteorder("="))
                inside = np.asarray(cdfspec.read_var_mask(data, f, i))
                if f.vars[i].xtype != xt or a.shape != (v.n,) or not inside.all():
                    probs.append(prob("decode", "%s: decoded variable %d has type %s shape %s" % (label(case), i, f.vars[i].xtype, a.shape), case))
                else:
                    probs += judge_vec(case, v, a.astype(xd, copy=False), fill, "put (independent decode of the closed file)", rc)
        elif what == "put_att":
            if dump is None or dump.get("rc") != 0:
                probs.append(prob("nodump", "%s: dumpall failed" % label(case), case))
                continue
            av = case.get("attvar", -1)
            atts = dump["gatts"] if av < 0 else dump["vars"][av]["atts"]
            a = find_att(atts, b"a%d" % i)
            if a is None or a.get("xt") != xt or a.get("len") != v.n or a.get("ge") != 0:
                probs.append(prob("att", "%s: attribute a%d after put_att: %s" % (label(case), i, None if a is None else {k: a.get(k) for k in ("xt", "len", "ge")}), case))
                continue
            got = np.frombuffer(bytes.fromhex(a["val"]), dtype=xd)
            probs += judge_vec(case, v, got, fill, "put_att (attribute read back natively)", rc, stats)
            if dec is not None and not probs:
                f, data = dec
                fa = f.gatts if av < 0 else f.vars[av].atts
                m = [x for x in fa if x.name == b"a%d" % i]
                if len(m) != 1 or m[0].xtype != xt or m[0].nelems != v.n:
                    probs.append(prob("decode", "%s: decoded attribute a%d missing or wrong type/length" % (label(case), i), case))
                else:
                    vals = np.frombuffer(m[0].values, dtype=np.uint8) if isinstance(m[0].values, bytes) else np.asarray(m[0].values)
                    probs += judge_vec(case, v, vals.astype(vals.dtype.newbyteorder("=")).astype(xd, copy=False), fill,
                                       "put_att (independent decode of the closed file)", rc)
        if len(probs) > 8:
            break
    return probs


def evaluate_echar(case, plan, res, d):
    probs = []
    xt = case["xt"]
    xd = np.dtype(M.XT_DTYPE[xt])
    for n, what in plan["echar"]:
        rc = res.rc(n)
        if rc != ECHAR:
            probs.append(prob("echar", "%s: %s returned %s, expected NC_ECHAR" % (label(case), what, rc), case, rc=rc, op=what.split()[0]))
    exp = plan["echar_expect"]
    dump = res.get(plan["dump"])
    if dump is None or dump.get("rc") != 0:
        return probs + [prob("nodump", "%s: dumpall failed" % label(case), case)]
    c, v = dump["vars"][0], dump["vars"][1]
    if c.get("de") != 0 or bytes.fromhex(c["data"]) != exp["txt"]:
        probs.append(prob("echar_file", "%s: NC_CHAR variable changed by a rejected numeric put: %r" % (label(case), c.get("data")), case))
    if v.get("de") != 0 or bytes.fromhex(v["data"]) != exp["num"].tobytes():
        probs.append(prob("echar_file", "%s: numeric variable changed by a rejected text put: %r" % (label(case), v.get("data")), case))
    if case["kind"] == "echar_att":
        g = dump["gatts"]
        names = [bytes.fromhex(a["name"]) for a in g]
        if names != [b"t", b"a"]:
            probs.append(prob("echar_file", "%s: global attributes after rejected put_att calls: %r" % (label(case), names), case))
        else:
            if g[0]["xt"] != M.NC_CHAR or bytes.fromhex(g[0]["val"]) != exp["txt"]:
                probs.append(prob("echar_file", "%s: text attribute changed by a rejected numeric put_att" % label(case), case))
            if g[1]["xt"] != xt or bytes.fromhex(g[1]["val"]) != exp["num"].tobytes():
                probs.append(prob("echar_file", "%s: numeric attribute changed" % label(case), case))
    if d is not None and not probs:
        from pv import cdfspec
        try:
            data = open(os.path.join(d, "final"), "rb").read()
            f = cdfspec.decode(data, strict=True)
            a = np.asarray(cdfspec.read_var(data, f, 0)).tobytes()
            b = np.asarray(cdfspec.read_var(data, f, 1))
            b = b.astype(b.dtype.newbyteorder("=")).astype(xd, copy=False)
            if a != exp["txt"] or b.tobytes() != exp["num"].tobytes():
                probs.append(prob("echar_file", "%s: decoded closed file differs from the content before the rejected calls" % label(case), case))
            if case["kind"] == "echar_att" and [x.name for x in f.gatts] != [b"t", b"a"]:
                probs.append(prob("echar_file", "%s: decoded closed file has attributes %r" % (label(case), [x.name for x in f.gatts]), case))
        except (cdfspec.CDFError, OSError) as e:
            probs.append(prob("decode", "%s: %s" % (label(case), e), case))
    return probs


UBSAN_RE = re.compile(r"(\S*ncx\.c|\S*convert_swap\.c|\S*ncmpio_attr\.c):(\d+):\d+: runtime error: ([^\n]*)")


def stderr_delta(pool):
    try:
        return pool.stderr_delta()
    except ValueError:      # pool just died; its log is closed (the crash itself is reported by runner.guarded)
        return ""


def ubsan_problem(case, err):
    m = UBSAN_RE.search(err)
    if not m:
        return []
    text = m.group(3)
    what = re.sub(r"[-+]?(\d[\d.e+]*|nan|inf)", "N", text)[:60]
    cls = "other"
    mv = re.match(r"(\S+) is outside the range of representable values", text)
    if mv:
        try:
            x = float(mv.group(1).replace("-nan", "nan"))
            cls = "nan" if x != x else ("inf" if abs(x) == float("inf") else
                                        ("flmax64" if min(abs(abs(x) / 2.0 ** 63 - 1), abs(abs(x) / 2.0 ** 64 - 1)) < 1e-4 else "finite"))
        except ValueError:
            pass
    return [{"kind": "ubsan", "msg": "%s: undefined behaviour in the conversion code: %s:%s: %s" % (label(case), os.path.basename(m.group(1)), m.group(2), text),
             "sig": {"kind": "ubsan", "dir": case.get("dir"), "vk": case["kind"], "what": what, "cls": cls, "dstkind": "int"}, "stderr": err[-2000:]}]


def run_case(ctx, case):
    s, plan = build(case)
    pool = ctx.pool("asan", nprocs=1)
    stderr_delta(pool)
    keep = bool(plan.get("decode"))
    amb = collections.Counter()
    res, d = pool.run(s, keepdir=keep)
    try:
        probs = evaluate(case, plan, res, d, amb)
    finally:
        if d:
            shutil.rmtree(d, ignore_errors=True)
    probs += ubsan_problem(case, stderr_delta(pool))
    # ---- accounting
    lab = label(case)
    ctx.count(lab, "kind_" + case["kind"], "fmt%d" % case["fmt"])
    ctx.stats.update(amb)
    if case["kind"] in ("var", "att"):
        ctx.count("vecmode_" + case["vec"]["mode"])
        api = plan.get("api") or {}
        if api.get("flex") and case["kind"] == "var":
            ctx.count("flex_buftype_%s" % (api.get("bt") or "prim"))
        ctx.count("api_%s_%s_%s" % ("flex" if api.get("flex") else "typed", api.get("form", "vara") if case["kind"] == "var" else "att", "coll" if api.get("coll", 1) else "indep"))
        ctx.stats["elements_transferred"] += sum(v.n for v in plan["vecs"])
        for k, n in plan["excl"].items():
            ctx.count("excluded_" + k)
            ctx.stats["excluded_" + k + "_values"] += n
        if is_exempt(case["fmt"], case["xt"], case["mt"]):
            ctx.count("byte_uchar_exemption")
        if case.get("fill") and case["dir"] == "put" and case["kind"] == "var":
            ctx.count("user_fillvalue_" + case["fill"].get("via", "def_var_fill"))
        if any((v.status == C.AMB).any() for v in plan["vecs"]):
            ctx.count("has_ambiguous_band_values")
        if needs_conversion(case) and any(v.mixed() for v in plan["vecs"]):
            ctx.nontrivial(runner.case_hash(case))
            ctx.count("nontrivial_" + case["kind"] + "_" + case["dir"])
    ctx.sample({"case": {k: v for k, v in case.items() if k != "vec"}, "vec": {k: (v if k != "hex" else v[:64]) for k, v in case.get("vec", {}).items()},
                "vectors": [(v.name, v.n, int((v.status == C.OUT).sum())) for v in plan["vecs"]], "script_head": [l[:160] for l in s.lines[:12]]})
    return probs


def case_script(case):
    s = build(case)[0]
    return "\n".join(l[:400] for l in s.text("<dir>")[0].splitlines())


# ------------------------------------------------------------------ minimisation of enumerated failures
def _try(ctx, small):
    try:
        return [q for q in runner.guarded(run_case)(ctx, small) if not ctx.known.match(q)]
    except Exception:
        return []


def minimise(ctx, case, probs):
    """reduce a failing enumerated case to an explicit short vector (one in-range value + the culprit); falls back to
    bisection of the failing vector when the problem does not name a culprit (e.g. a spurious NC_ERANGE)"""
    if case["kind"] not in ("var", "att"):
        return case, probs
    base = dict(case)
    base["sw"] = {k: True for k in SWITCHES}
    for p in probs:
        w = p.get("where")
        if not w or "src_hex" not in w:
            continue
        small = dict(base, vec={"mode": "explicit", "hex": (w.get("in_hex") or "") + w["src_hex"]})
        p2 = _try(ctx, small)
        if p2:
            return small, p2
    for p in probs:
        w = p.get("where")
        if not w or "vec" not in w:
            continue
        vs = [v for v in make_vectors(case)[0] if v.name == w["vec"]]
        if not vs:
            continue
        vals = vs[0].src
        best = None
        for _ in range(40):
            if len(vals) <= 1:
                break
            h = len(vals) // 2
            for part in (vals[:h], vals[h:]):
                small = dict(base, vec={"mode": "explicit", "hex": part.tobytes().hex()})
                p2 = _try(ctx, small)
                if p2:
                    vals, best = part, (small, p2)
                    break
            else:
                break
        if best:
            return best
    return case, probs


# ------------------------------------------------------------------ enumeration
def fill_for(xt, seed, via=None):
    xd = np.dtype(M.XT_DTYPE[xt])
    if xd.kind == "f":
        v = np.array([-1234.5, 7.25e10, -3.0e-5][seed % 3], dtype=xd)
    elif xd.kind == "u":
        v = np.array([42, 200, 1][seed % 3], dtype=xd)
    else:
        v = np.array([-42, 99, -1][seed % 3], dtype=xd)
    return {"hex": v.tobytes().hex(), "via": via or ("put_att" if (seed // 3) % 2 else "def_var_fill")}


FORMS = ["vara", "var", "vars", "varm", "varn"]
NRAND = {"quick": (60000, 10000), "thorough": (200000, 30000)}     # random values per wide pair and round: (variables, attributes)
ROUNDS = {"quick": 1, "thorough": 8}                                 # enumeration rounds (fresh value seeds, rotated API flavours)


def enum_cases(tier, seed, rnd=0):
    nr_var, nr_att = NRAND[tier]
    cases = []
    k = 0
    seed = seed + 7919 * rnd
    for fmt in (5, 1, 2):
        # the one legal text pair (all 256 byte values, identity) first, then every numeric pair
        for xt, mt in [(M.NC_CHAR, "text")] + [(x, m) for x in xt_legal(fmt) for m in MTS]:
            for dr in ("put", "get"):
                base = {"fmt": fmt, "xt": xt, "mt": mt, "dir": dr}
                sd, dd = case_dtypes(dict(base))
                k += 1
                if sd.kind in "iu" and sd.itemsize <= 2:
                    vec = {"mode": "exh", "seed": seed * 1000 + k}
                else:
                    vec = {"mode": "bnd", "seed": seed * 1000 + k, "nrand": nr_var}
                # API flavour rotates deterministically with the pair and the campaign seed
                r = k + seed
                api = {"flex": r % 3 == 0, "form": FORMS[r % 5], "coll": 0 if r % 4 == 0 else 1}
                if api["flex"]:      # buffer datatype of the flexible call: primitive, strided vector, two displaced blocks
                    api["bt"] = (None, "vec2", "idx")[(r // 3) % 3]
                for kind in ("var", "att"):
                    if kind == "att" and vec["mode"] == "bnd":
                        v2 = dict(vec, nrand=nr_att)      # attribute values live in the header: keep it moderate
                    else:
                        v2 = dict(vec)
                    c = dict(base, kind=kind, vec=v2)
                    if kind == "att":
                        c["attvar"] = -1 if k % 2 else 0
                    else:
                        c["api"] = api
                    cases.append(c)
                    if kind == "var" and dr == "put" and xt != M.NC_CHAR:
                        cases.append(dict(c, fill=fill_for(xt, seed + k)))
            if xt == M.NC_CHAR:
                continue
            for kind in ("echar_var", "echar_att"):
                cases.append({"kind": kind, "fmt": fmt, "xt": xt, "mt": mt})
            if fmt == 5:
                for which in ECHAR_FLEX:
                    cases.append({"kind": "echar_flex", "fmt": fmt, "xt": xt, "mt": mt, "which": which})
    return cases


# ------------------------------------------------------------------ Hypothesis part
@st.composite
def case_strategy(draw, tier="quick"):
    fmt = draw(st.sampled_from([1, 2, 5, 5]))
    xt = draw(st.sampled_from(xt_legal(fmt)))
    mt = draw(st.sampled_from(MTS))
    dr = draw(st.sampled_from(["put", "get"]))
    kind = draw(st.sampled_from(["var", "var", "att"]))
    case = {"kind": kind, "fmt": fmt, "xt": xt, "mt": mt, "dir": dr}
    nins = draw(st.integers(0, 4))
    case["vec"] = {"mode": "placed", "seed": draw(st.integers(0, 10 ** 6)), "nrand": 300,
                   "n_in": draw(st.integers(0, 24)),
                   "ins": [[draw(st.integers(0, 30)), draw(st.integers(0, 10 ** 4))] for _ in range(nins)]}
    if kind == "var":
        case["api"] = {"flex": draw(st.booleans()), "form": draw(st.sampled_from(FORMS)),
                       "coll": draw(st.sampled_from([1, 1, 0]))}
        if case["api"]["flex"]:
            case["api"]["bt"] = draw(st.sampled_from([None, "vec2", "idx"]))
        if dr == "put" and draw(st.booleans()):
            case["fill"] = fill_for(xt, draw(st.integers(0, 5)))
    else:
        case["attvar"] = draw(st.sampled_from([-1, 0]))
    return case


def campaign(ctx):
    g = runner.guarded(run_case)
    cases = []
    for rnd in range(ROUNDS[ctx.tier]):
        cases += enum_cases(ctx.tier, ctx.seed, rnd)
    seen = {}
    for i, case in enumerate(cases):
        if i % ctx.nworkers != ctx.widx:
            continue
        if case["kind"] == "echar_flex" and not SWITCHES["echar_flex"]:
            ctx.count("excluded_echar_flex")
            continue
        ctx.evaluations += 1
        probs = g(ctx, case)
        real = []
        for p in probs:
            if ctx.known.match(p):
                ctx.excluded_known += 1
            else:
                real.append(p)
        if not real:
            continue
        key = str(sorted((k, str(v)) for k, v in (real[0].get("sig") or {}).items()))
        seen[key] = seen.get(key, 0) + 1
        ctx.stats["enum_failures"] += 1
        if seen[key] > 1 or len(ctx.failures) >= 8:
            continue            # one representative per signature and worker
        small, sp = minimise(ctx, case, real)
        ctx.failures.append({"case": small, "problems": sp, "label": "enum"})
    n = {"quick": 1500, "thorough": 20000}[ctx.tier]
    runner.run_hypothesis(ctx, case_strategy(ctx.tier), g, n)     # no label: runner seeds with hash(label), which is salted per process


def coverage_extra(stats, tier):
    pairs = sorted(k for k in stats if k.startswith(("var.", "att.")))
    return {"exhaustive": False,
            "exhaustive_subdomain": {"claimed": True,
                                     "what": "every source value of the 8- and 16-bit integer types (memory types schar/uchar/short/ushort on write, external "
                                             "types byte/ubyte/short/ushort on read) against every one of the 10 numeric external / 11 memory types, CDF-1, 2 "
                                             "and 5, variables and attributes, one whole-vector call each, on this platform and build",
                                     "cases": int(stats.get("vecmode_exh", 0))},
            "pair_direction_kind_format_classes_covered": len(pairs),
            "generator_switches": dict(SWITCHES),
            "not_exhaustive": "32/64-bit integer and floating sources are covered by boundary sets plus seeded random values only"}


if __name__ == "__main__":
    runner.main("checks.c09", PROP, default_workers=8, nt_floor=40)
