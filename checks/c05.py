#!/usr/bin/env python3-vt
"""C05 - record count stays coherent across processes, memory and file header."""
import os, sys, struct
sys.path.insert(0, os.path.dirname(os.path.dirname(os.path.abspath(__file__))))
import numpy as np
from hypothesis import strategies as st
from pv import model as M, gen as G
from pv.prog import Prog
from pv.pool import hx
from pv import runner

PROP = "C05"
RULE = ("Hypothesis-generated histories on a file with 1-3 record variables and k=2..4 ranks: collective puts (vara/vars/varn/vard) "
        "where every rank writes a different record range (some zero-length, some below the current count), fill_var_rec, "
        "nonblocking puts completed by wait_all on subsets, independent puts by a subset of ranks followed by one of the documented "
        "synchronisation calls (end_indep_data, sync, sync_numrecs, redef, close+reopen), mode switches and redefinitions. "
        "Oracle: model numrecs = 1 + highest record written by a completed write. After every collective write / fill / wait_all: "
        "inq_dimlen(unlimited) equal on all ranks and equal to the model, and the numrecs field of the header on disk equals it; "
        "after independent writes the writer's own count covers its own records at once and everything agrees after the next "
        "synchronisation call; per-rank observed sequence never decreases; the highest written record is readable. "
        "Non-trivial = ranks write different highest records in one step, or a partial wait completes a record request that is "
        "not first in the queue, or an independent write raises the count before a synchronisation call.")
ASSUMPTIONS = ["timing-independent observables only (values after calls return); rank r only writes records = r mod k so writes never overlap",
               "OpenMPI 4.1.4 + ROMIO on one node; header bytes are read with POSIX after the call returned on all ranks (harness barrier)"]
X = 3
VARS = [("a", M.NC_INT, [0, 1]), ("b", M.NC_DOUBLE, [0]), ("c", M.NC_SHORT, [0, 1])]
MAXREC = 10


@st.composite
def case_strategy(draw, tier="quick"):
    k = draw(st.sampled_from([2, 2, 3, 4] if tier == "quick" else [2, 3, 4, 6, 8]))
    fmt = draw(st.sampled_from([1, 2, 5]))
    nvars = draw(st.integers(1, 3))
    fixed_first = G.chance(draw, 50)
    events = []
    pend = [[] for _ in range(k)]   # pending iput ids per rank
    rid = 0
    indep = False
    nev = draw(st.integers(3, 10 if tier == "quick" else 18))

    def recs_for(r):
        """a few record indices owned by rank r (r mod k)"""
        n = draw(st.integers(0, 3))
        base = draw(st.integers(0, 2))
        return sorted(set(r + k * (base + j) for j in range(n) if r + k * (base + j) < MAXREC))

    for _ in range(nev):
        choices = ["coll_put", "coll_put", "fill", "iput", "iput", "iput", "wait_all", "wait_all", "redef", "indep_put", "sync"] if not indep else ["indep_put", "indep_put", "sync", "iput", "wait"]
        ev = draw(st.sampled_from(choices))
        v = draw(st.integers(0, nvars - 1))
        if ev == "coll_put":
            form = draw(st.sampled_from(["vara", "vars", "varn", "vard"]))
            per = {}
            for r in range(k):
                rr = recs_for(r)
                if form in ("vara", "vard") and rr:
                    # contiguous range form: use a single record (ranges of one rank are strided by k)
                    rr = rr[:1]
                per[str(r)] = rr
            e = {"ev": "coll_put", "v": v, "form": form, "recs": per}
            if form == "varn":
                # order of the segments in the request; 'block' = every rank owns two consecutive records (one multi-record
                # segment) and, optionally, one higher single record
                e["order"] = draw(st.sampled_from(["asc", "desc", "hi_first"]))
                if draw(st.integers(0, 2)) == 0:
                    e["recs"] = {str(r): [2 * r, 2 * r + 1] + ([2 * k + r] if 2 * k + r < MAXREC and draw(st.booleans()) else [])
                                 for r in range(k)}
                    e["block"] = 1
            events.append(e)
        elif ev == "fill":
            events.append({"ev": "fill", "v": v, "rec": draw(st.integers(0, MAXREC - 1))})
        elif ev == "iput":
            r = draw(st.integers(0, k - 1))
            for _ in range(draw(st.integers(1, 3))):
                v = draw(st.integers(0, nvars - 1))
                rr = recs_for(r) or [r]
                busy = set(x for (_, vv, recs) in pend[r] for x in recs if vv == v)
                rr = [x for x in rr if x not in busy]
                if not rr:
                    continue
                rid += 1
                pend[r].append((rid, v, rr))
                events.append({"ev": "iput", "rank": r, "v": v, "recs": rr, "id": rid, "order": draw(st.sampled_from(["asc", "desc", "hi_first"]))})
        elif ev in ("wait_all", "wait"):
            per = {}
            ranks = range(k) if ev == "wait_all" else draw(st.lists(st.integers(0, k - 1), min_size=1, max_size=k, unique=True))
            for r in ranks:
                ids = [i for (i, _, _) in pend[r]]
                sel = list(draw(st.permutations(ids)))[:draw(st.integers(0, len(ids)))] if ids else []
                per[str(r)] = sel
                pend[r] = [t for t in pend[r] if t[0] not in sel]
            events.append({"ev": ev, "ids": per})
        elif ev == "redef":
            events.append({"ev": "redef", "grow": draw(st.sampled_from([0, 0, 40, 700]))})
        elif ev == "indep_put":
            if not indep:
                events.append({"ev": "begin_indep"})
                indep = True
            writers = draw(st.lists(st.integers(0, k - 1), min_size=1, max_size=k, unique=True))
            per = {str(r): recs_for(r) for r in writers}
            events.append({"ev": "indep_put", "v": v, "recs": per, "order": draw(st.sampled_from(["asc", "desc", "hi_first"]))})
        elif ev == "sync":
            how = draw(st.sampled_from(["end_indep", "sync", "sync_numrecs", "reopen"] if indep else ["sync", "sync_numrecs", "reopen"]))
            if how == "reopen" and any(pend[r] for r in range(k)):
                how = "sync"
            events.append({"ev": "sync", "how": how})
            if how in ("end_indep", "reopen"):
                indep = False
    # intra-node write aggregation (hint nc_num_aggrs_per_node): 0 = off, else the number of aggregators on the node
    aggr = draw(st.sampled_from([0, 0, 0, 1, 1, 2]))
    return {"k": k, "fmt": fmt, "nvars": nvars, "fixed_first": fixed_first, "events": events, "aggr": min(aggr, k)}


def vals_for(v, rec, step):
    name, xt, dims = VARS[v]
    n = X if len(dims) == 2 else 1
    base = (step * 100 + rec * 7 + v) % 20000
    return [base + j for j in range(n)]


def varn_segs(recs, order, nd2):
    """segments of a varn request over the records recs: runs of consecutive records form ONE multi-record segment; the
    segments are listed ascending, descending, or with the highest one first -> (records in buffer order, starts, counts)"""
    groups = []
    for rec in sorted(recs):
        if groups and groups[-1][-1] + 1 == rec:
            groups[-1].append(rec)
        else:
            groups.append([rec])
    if order == "desc":
        groups.reverse()
    elif order == "hi_first" and len(groups) > 1:
        groups = [groups[-1]] + groups[:-1]
    flat = [r for g in groups for r in g]
    return flat, [[g[0], 0] if nd2 else [g[0]] for g in groups], [[len(g), X] if nd2 else [len(g)] for g in groups]


def pack(v, vals):
    xt = VARS[v][1]
    return np.array(vals, dtype=M.XT_DTYPE[xt]).tobytes()


def build(case):
    k = case["k"]
    p = Prog(k=k)
    mode = {1: 0, 2: 0x200, 5: 0x20}[case["fmt"]]
    ikw = {}
    if case.get("aggr"):
        p.s.op("info", i="i1", **{"h__nc_num_aggrs_per_node": hx(str(case["aggr"]))})
        ikw = {"info": "i1"}
    p.op("create", step=True, f="f0", path=hx("t.nc"), mode=mode, **ikw)
    p.op("def_dim", step=True, f="f0", name=hx("t"), len=0)
    p.op("def_dim", step=True, f="f0", name=hx("x"), len=X)
    nv = case["nvars"]
    vid = {}
    nextid = 0
    if case["fixed_first"]:
        p.op("def_var", step=True, f="f0", name=hx("fx"), xt=M.NC_INT, dims=[1], ndims=1)
        nextid = 1
    for i in range(nv):
        name, xt, dims = VARS[i]
        p.op("def_var", step=True, f="f0", name=hx(name), xt=xt, dims=dims, ndims=len(dims))
        p.op("def_var_fill", step=True, f="f0", v=nextid, nofill=0)
        vid[i] = nextid
        nextid += 1
    p.op("enddef", step=True, f="f0")
    labels = set(["k%d" % k, "fmt%d" % case["fmt"], "nvars%d" % nv, "aggregators_per_node_%d" % case.get("aggr", 0)])
    info = {"nontrivial": False}
    # ---- model
    numrecs = 0                      # synchronised value
    view = [0] * k                   # per-rank value (independent mode may run ahead)
    data = {}                        # (v, rec) -> values of the last completed write
    pend = [dict() for _ in range(k)]   # id -> (v, recs, step, reqslot, bufslots)
    order = [[] for _ in range(k)]
    indep = False
    recsize = None
    seen = [[] for _ in range(k)]    # statement numbers of inq dimlen per rank, with lower bounds

    def rec_bytes(v):
        xt = VARS[v][1]
        return M.XT_SIZE[xt] * (X if len(VARS[v][2]) == 2 else 1)

    def recsz():
        if nv == 1:
            return rec_bytes(0)
        return sum(M.roundup(rec_bytes(i), 4) for i in range(nv))

    def rec_off(v):
        return sum(M.roundup(rec_bytes(i), 4) for i in range(v))

    def observe(what, ranks=None, exact=True):
        """every rank inquires the record dimension length; compare with the model"""
        for r in (ranks if ranks is not None else range(k)):
            n = p.s.op("inq", ranks=[r], f="f0", what="dimlen", v=0)
            want = view[r]
            lo = max([0] + [x for x in seen[r]])

            def chk(res, n=n, r=r, want=want, what=what):
                e = res.get(n, r)
                if e is None or e.get("rc") != 0:
                    return [{"kind": "rc", "msg": "inq_dimlen failed after %s" % what, "sig": {"kind": "inq_rc"}}]
                got = e["r"][0]
                if got != want:
                    return [{"kind": "numrecs", "msg": "after %s: rank %d reports %d records, model %d" % (what, r, got, want), "sig": {"kind": "numrecs_view", "after": what.split()[0]}}]
                return []
            p.check(chk)
            seen[r].append(want)

    def header_check(what):
        """numrecs field of the file on disk (rank 0 copies the file after a barrier)"""
        nm = "snap%d" % p.s.n
        p.s.op("snapshot", path=hx("t.nc"), to=nm)
        want = numrecs
        fmt = case["fmt"]
        info.setdefault("snaps", []).append((nm, want, what))

    def apply_completed(v, rec, step):
        data[(v, rec)] = vals_for(v, rec, step)

    step = 0
    for ev in case["events"]:
        step += 1
        kind = ev["ev"]
        labels.add("ev_" + kind + ("_" + ev.get("how", "") if kind == "sync" else ""))
        if kind == "coll_put":
            v = ev["v"] % nv
            form = ev["form"]
            sn = p.s.same_n()
            tops = []
            for r in range(k):
                recs = ev["recs"].get(str(r), [])
                nd2 = len(VARS[v][2]) == 2
                if form == "varn":
                    recs, seg_st, seg_cn = varn_segs(recs, ev.get("order", "asc"), nd2)
                    if any(c[0] > 1 for c in seg_cn):
                        labels.add("varn_multi_record_segment")
                    if len(seg_st) > 1 and seg_st[0][0] > seg_st[-1][0]:
                        labels.add("varn_segments_not_ascending")
                vals = sum([vals_for(v, rec, step) for rec in recs], [])
                b = p.newbuf()
                p.s.op("buf", ranks=[r], b=b, size=max(1, len(vals) * M.XT_SIZE[VARS[v][1]]), hex=pack(v, vals) if vals else b"\xee")
                kw = {}
                if form == "vara":
                    st0, cn0 = (recs[0], 1) if recs else (0, 0)
                    kw.update(start=[st0, 0] if nd2 else [st0], count=[cn0, X] if nd2 else [cn0])
                elif form == "vars":
                    st0, cn0 = (recs[0], len(recs)) if recs else (0, 0)
                    kw.update(start=[st0, 0] if nd2 else [st0], count=[cn0, X] if nd2 else [cn0], stride=[k, 1] if nd2 else [k])
                elif form == "varn":
                    kw.update(num=len(seg_st), starts=seg_st if recs else None, counts=seg_cn if recs else None)
                elif form == "vard":
                    t = p.newtype()
                    prim = M.MT_PRIM[M.XT_NATIVE_MT[VARS[v][1]]]
                    n_el = X if nd2 else 1
                    spec = "hidx(%d:%d,%s)" % (n_el, recs[0] * recsz(), prim) if recs else "ctg(0,%s)" % prim
                    p.s.op("type", ranks=[r], t=t, spec=spec)
                    kw.update(ftype=t, buftype=prim, bufcount=len(vals))
                p.s.op("data", ranks=[r], sn=sn, step=True, api="put", form=form, coll=1,
                       mt="flex" if form == "vard" else M.XT_NATIVE_MT[VARS[v][1]], f="f0", v=vid[v], buf=b, **kw)
                for rec in recs:
                    apply_completed(v, rec, step)
                tops.append(max(recs) + 1 if recs else 0)
            p.expect_rc(sn, range(k), 0, "put_%s_all" % form)
            if len(set(t for t in tops if t)) > 1:
                info["nontrivial"] = True
                labels.add("different_tops")
            numrecs = max([numrecs] + tops)
            view = [numrecs] * k
            observe("collective put_%s_all" % form)
            header_check("collective put")
        elif kind == "fill":
            v = ev["v"] % nv
            p.op("fill_var_rec", step=True, f="f0", v=vid[v], rec=ev["rec"])
            data[(v, ev["rec"])] = "fill"
            numrecs = max(numrecs, ev["rec"] + 1)
            view = [numrecs] * k
            observe("fill_var_rec")
            header_check("fill_var_rec")
        elif kind == "iput":
            r, v = ev["rank"], ev["v"] % nv
            nd2 = len(VARS[v][2]) == 2
            recs, seg_st, seg_cn = varn_segs(ev["recs"], ev.get("order", "asc"), nd2)
            if len(seg_st) > 1 and seg_st[0][0] > seg_st[-1][0]:
                labels.add("varn_segments_not_ascending")
            vals = sum([vals_for(v, rec, step) for rec in recs], [])
            b, q = p.newbuf(), p.newreq()
            p.s.op("buf", ranks=[r], b=b, size=len(vals) * M.XT_SIZE[VARS[v][1]], hex=pack(v, vals))
            n = p.s.op("data", ranks=[r], api="iput", form="varn", coll=0, mt=M.XT_NATIVE_MT[VARS[v][1]], f="f0", v=vid[v], buf=b, req=q,
                       num=len(seg_st), starts=seg_st, counts=seg_cn)
            p.expect_rc(n, [r], 0, "iput_varn")
            pend[r][ev["id"]] = (v, recs, step, q)
            order[r].append(ev["id"])
        elif kind in ("wait_all", "wait"):
            coll = kind == "wait_all"
            sn = p.s.same_n() if coll else None
            tops = []
            for r in (range(k) if coll else [int(x) for x in ev["ids"]]):
                ids = [i for i in ev["ids"].get(str(r), []) if i in pend[r]]
                toks = [pend[r][i][3] for i in ids]
                n = p.s.op("wait", ranks=[r], sn=sn, step=coll, f="f0", coll=1 if coll else 0, reqs=toks if toks else "", st=1)
                p.expect_rc(n, [r], 0, kind)
                cur = [i for i in order[r] if i in pend[r]]
                if ids and cur and ids[0] != cur[0]:
                    info["nontrivial"] = True
                    labels.add("partial_wait_not_first")
                top = 0
                for i in ids:
                    v, recs, st_, q = pend[r].pop(i)
                    for rec in recs:
                        apply_completed(v, rec, st_)
                    top = max(top, max(recs) + 1)
                tops.append(top)
                if not coll:
                    view[r] = max(view[r], top)
                    if k > 1:
                        pass
            if coll:
                numrecs = max([numrecs] + tops)
                view = [numrecs] * k
                observe("wait_all")
                header_check("wait_all")
            else:
                for r in [int(x) for x in ev["ids"]]:
                    observe("independent wait", ranks=[r])
                p.op("barrier", expect=None)
        elif kind == "begin_indep":
            p.op("begin_indep", step=True, f="f0")
            indep = True
        elif kind == "indep_put":
            v = ev["v"] % nv
            nd2 = len(VARS[v][2]) == 2
            for rs, recs in ev["recs"].items():
                r = int(rs)
                if not recs:
                    continue
                recs, seg_st, seg_cn = varn_segs(recs, ev.get("order", "asc"), nd2)
                if len(seg_st) > 1 and seg_st[0][0] > seg_st[-1][0]:
                    labels.add("varn_segments_not_ascending")
                vals = sum([vals_for(v, rec, step) for rec in recs], [])
                b = p.newbuf()
                p.s.op("buf", ranks=[r], b=b, size=len(vals) * M.XT_SIZE[VARS[v][1]], hex=pack(v, vals))
                n = p.s.op("data", ranks=[r], api="put", form="varn", coll=0, mt=M.XT_NATIVE_MT[VARS[v][1]], f="f0", v=vid[v], buf=b,
                           num=len(seg_st), starts=seg_st, counts=seg_cn)
                p.expect_rc(n, [r], 0, "independent put_varn")
                for rec in recs:
                    apply_completed(v, rec, step)
                if max(recs) + 1 > view[r]:
                    info["nontrivial"] = True
                    labels.add("indep_growth")
                view[r] = max(view[r], max(recs) + 1)
                observe("independent put", ranks=[r])
            p.op("barrier", expect=None)
        elif kind == "redef":
            if indep:
                continue
            p.op("redef", step=True, f="f0")
            if ev["grow"]:
                p.op("put_att", step=True, f="f0", v=-1, name=hx("g%d" % step), xt=M.NC_CHAR, mt="text", n=ev["grow"], hex=b"z" * ev["grow"])
            p.op("enddef", step=True, f="f0")
            numrecs = max([numrecs] + view)
            view = [numrecs] * k
            observe("redef/enddef")
            header_check("redef/enddef")
        elif kind == "sync":
            how = ev["how"]
            if how == "end_indep":
                if not indep:
                    continue
                p.op("end_indep", step=True, f="f0")
                indep = False
            elif how == "sync":
                p.op("sync", step=True, f="f0")
            elif how == "sync_numrecs":
                p.op("sync_numrecs", step=True, f="f0")
            elif how == "reopen":
                if any(pend[r] for r in range(k)):
                    continue
                p.op("close", step=True, f="f0")
                p.op("open", step=True, f="f0", path=hx("t.nc"), mode=1, **ikw)
                indep = False
            numrecs = max([numrecs] + view)
            view = [numrecs] * k
            observe("sync call " + how)
            header_check("sync call " + how)
    # ---- wrap up: leave independent mode, complete what is pending, compare everything
    if indep:
        p.op("end_indep", step=True, f="f0")
        numrecs = max([numrecs] + view)
        view = [numrecs] * k
    sn = p.s.same_n()
    tops = []
    for r in range(k):
        p.s.op("wait", ranks=[r], sn=sn, step=True, f="f0", coll=1, reqs="ALL", st=0)
        for i in list(pend[r]):
            v, recs, st_, q = pend[r].pop(i)
            for rec in recs:
                apply_completed(v, rec, st_)
            tops.append(max(recs) + 1)
    numrecs = max([numrecs] + tops)
    view = [numrecs] * k
    observe("final wait_all")
    header_check("final wait_all")
    p.op("fence", step=True, f="f0")
    nd = p.op("dumpall", step=True, f="f0", data=1, coll=1)
    final = dict(data)
    fin_numrecs = numrecs

    def chk_data(res):
        out = []
        for r in range(k):
            d = res.get(nd, r)
            if d is None or d.get("rc") != 0:
                return [{"kind": "dump", "msg": "dumpall failed", "sig": {"kind": "dump"}}]
            if d["numrecs"] != fin_numrecs:
                out.append({"kind": "numrecs", "msg": "final numrecs %s on rank %d, model %d" % (d["numrecs"], r, fin_numrecs), "sig": {"kind": "numrecs_view", "after": "final"}})
                continue
            for v in range(nv):
                dv = d["vars"][vid[v]]
                if dv.get("de") != 0:
                    out.append({"kind": "rc", "msg": "reading record variable %d failed rc=%s (highest record must be readable)" % (v, dv.get("de")), "sig": {"kind": "read_rc"}})
                    continue
                ncol = X if len(VARS[v][2]) == 2 else 1
                a = np.frombuffer(bytes.fromhex(dv["data"]), dtype=M.XT_DTYPE[VARS[v][1]]).reshape(fin_numrecs, ncol)
                fv = np.frombuffer(bytes.fromhex(dv["fv"]), dtype=M.XT_DTYPE[VARS[v][1]])[0]
                for (vv, rec), vals in final.items():
                    if vv != v:
                        continue
                    want = [fv] * a.shape[1] if vals == "fill" else vals
                    if not np.array_equal(a[rec], np.array(want, dtype=a.dtype)):
                        out.append({"kind": "value", "msg": "rank %d: var %d record %d is %s expected %s" % (r, v, rec, a[rec].tolist(), list(want)), "sig": {"kind": "value"}})
                        break
        return out
    p.check(chk_data)
    p.op("close", step=True, f="f0")
    p.s.op("snapshot", path=hx("t.nc"), to="final")
    info.setdefault("snaps", []).append(("final", numrecs, "close"))
    return p, info, labels


def header_numrecs(path, fmt):
    with open(path, "rb") as f:
        h = f.read(12)
    return int.from_bytes(h[4:12], "big") if fmt == 5 else int.from_bytes(h[4:8], "big")


def run_case(ctx, case):
    p, info, labels = build(case)
    pool = ctx.pool("asan", nprocs=4 if case["k"] <= 4 else 8)
    res, d = pool.run(p.s, keepdir=True)
    try:
        probs = p.evaluate(res)
        if not probs:
            for nm, want, what in info.get("snaps", []):
                try:
                    got = header_numrecs(os.path.join(d, nm), case["fmt"])
                except OSError:
                    continue
                if got != want:
                    probs.append({"kind": "header", "msg": "file header after %s holds numrecs %d, model %d" % (what, got, want), "sig": {"kind": "header_numrecs", "after": what.split()[0]}})
                    break
    finally:
        import shutil
        shutil.rmtree(d, ignore_errors=True)
    ctx.count(*labels)
    if info["nontrivial"]:
        ctx.nontrivial(runner.case_hash(case))
    ctx.sample({"case": case, "script_head": p.s.lines[:30]})
    return probs


def case_script(case):
    return build(case)[0].s.text("<dir>")[0]


def campaign(ctx):
    n = {"quick": 1400, "thorough": 5000}[ctx.tier]
    runner.run_hypothesis(ctx, case_strategy(ctx.tier), runner.guarded(run_case), n)


if __name__ == "__main__":
    runner.main("checks.c05", PROP, default_workers=6, nt_floor=20)
