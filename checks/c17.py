#!/usr/bin/env python3-vt
"""C17 - file handles and library resources have a clean lifecycle."""
import os, sys, struct
sys.path.insert(0, os.path.dirname(os.path.dirname(os.path.abspath(__file__))))
import numpy as np
from hypothesis import strategies as st
from pv import model as M, gen as G
from pv.prog import Prog
from pv.pool import hx
from pv import runner

PROP = "C17"
NSLOT = 6
NC_MAX_NFILES = 1024
RULE = ("Hypothesis state machine over up to 6 simultaneously open files (plus one deterministic case per run that opens "
        "NC_MAX_NFILES files and one more): create/open/close/abort in any interleaving with API calls of every family in between, "
        "successful and deliberately failing (bad arguments, wrong mode, NC_NOCLOBBER on an existing path, open of a missing or "
        "malformed file, writes to a read-only file), calls of every API family on ids that are not open (stale, never issued, "
        "negative, huge), close with pending nonblocking requests. Oracle: an id that is not open gives NC_EBADID (and the process "
        "survives), ids are reissued (lowest free index), operations on file A leave file B's dump unchanged, the 1025th open gives "
        "NC_ENFILE, close with pending requests returns NC_EPENDING and releases the id; at every point where no file is open "
        "ncmpi_inq_files_opened == 0, ncmpi_inq_malloc_size == 0 (PNC_MALLOC_TRACE build) and the PMPI ledger of datatypes, "
        "communicators, info objects and file handles created by library code is balanced. Non-trivial = an id that is not open "
        "is used while another file is open, or a failing call is followed by a quiesce point.")
ASSUMPTIONS = ["ids are predicted as 'lowest free table index'; a case whose prediction fails is counted as inconclusive, not as a violation",
               "most cases run on one process (id table and heap are per process); a quarter on 2 (thorough: up to 3) processes, where files have separate collective and independent MPI file handles",
               "MPI objects are attributed to the library by return address (the harness itself only uses PMPI_*)"]
X = 4

PROBES = ["enddef", "redef", "sync", "inq", "def_dim", "def_var", "put_att", "get_att", "inq_att", "rename_var", "put", "get", "iput", "iget",
          "wait", "cancel", "buffer_attach", "buffer_usage", "begin_indep", "end_indep", "fill_var_rec", "set_fill", "close", "abort", "inq_nreqs",
          "del_att", "file_info", "flush", "sync_numrecs", "varn", "inq_varid", "def_var_fill"]


@st.composite
def case_strategy(draw, tier="quick"):
    nsteps = draw(st.integers(4, 16 if tier == "quick" else 30))
    k = draw(st.sampled_from([1, 1, 1, 2] if tier == "quick" else [1, 1, 2, 3]))
    steps = []
    open_slots = {}      # slot -> {"ro":bool, "define":bool, "pending":int}
    exists = set()       # file names that exist on disk
    for _ in range(nsteps):
        free = [s for s in range(NSLOT) if s not in open_slots]
        choices = []
        if free:
            choices += ["create", "create", "open", "bad_open"]
        if open_slots:
            choices += ["close", "abort", "use", "use", "use", "fail", "fail", "pending_close", "pending_abort"]
        choices += ["probe", "probe", "quiesce"]
        ev = draw(st.sampled_from(choices))
        if ev == "create":
            s = draw(st.sampled_from(free))
            name = "f%d.nc" % draw(st.integers(0, 3))
            if name in [o["name"] for o in open_slots.values()]:
                continue
            steps.append({"ev": "create", "slot": s, "name": name, "fmt": draw(st.sampled_from([1, 2, 5]))})
            open_slots[s] = {"name": name, "ro": False, "define": False, "pending": 0}
            exists.add(name)
        elif ev == "open":
            cands = sorted(exists - set(o["name"] for o in open_slots.values()))
            if not cands:
                continue
            s = draw(st.sampled_from(free))
            name = draw(st.sampled_from(cands))
            ro = G.chance(draw, 50)
            steps.append({"ev": "open", "slot": s, "name": name, "ro": ro})
            open_slots[s] = {"name": name, "ro": ro, "define": False, "pending": 0}
        elif ev == "bad_open":
            s = draw(st.sampled_from(free))
            what = draw(st.sampled_from(["missing", "garbage", "noclobber", "empty", "truncated"]))
            if what == "noclobber":
                cands = sorted(exists - set(o["name"] for o in open_slots.values()))
                if not cands:
                    continue
                steps.append({"ev": "bad_open", "slot": s, "what": what, "name": draw(st.sampled_from(cands))})
            else:
                steps.append({"ev": "bad_open", "slot": s, "what": what, "seed": draw(st.integers(0, 99))})
        elif ev in ("close", "abort"):
            s = draw(st.sampled_from(sorted(open_slots)))
            if open_slots[s]["pending"]:
                continue
            o = open_slots.pop(s)
            steps.append({"ev": ev, "slot": s})
        elif ev in ("pending_close", "pending_abort"):
            s = draw(st.sampled_from(sorted(open_slots)))
            if open_slots[s]["ro"]:
                continue
            open_slots.pop(s)
            steps.append({"ev": ev, "slot": s, "n": draw(st.integers(1, 3)), "kind": draw(st.sampled_from(["iput", "iget", "bput", "iget_varm"]))})
        elif ev == "use":
            s = draw(st.sampled_from(sorted(open_slots)))
            steps.append({"ev": "use", "slot": s, "what": draw(st.sampled_from(["put", "get", "att", "redef", "nb", "indep", "varn", "flex"])), "seed": draw(st.integers(0, 999))})
        elif ev == "fail":
            s = draw(st.sampled_from(sorted(open_slots)))
            steps.append({"ev": "fail", "slot": s, "what": draw(st.sampled_from(["bad_varid", "def_in_data", "edge", "bad_att", "echar", "bad_reqid", "ebaddim", "nameinuse", "iomismatch", "bput_insuff"]))})
        elif ev == "probe":
            kind = draw(st.sampled_from(["stale", "negative", "huge", "inrange_unused", "max"]))
            steps.append({"ev": "probe", "idkind": kind, "apis": draw(st.lists(st.sampled_from(PROBES), min_size=1, max_size=6, unique=True)), "n": draw(st.integers(0, 50))})
        elif ev == "quiesce":
            steps.append({"ev": "quiesce"})
    return {"k": k, "steps": steps}


def vals(seed):
    return [(seed * 17 + j) % 1000 for j in range(X)]


def build(case):
    k = case["k"]
    p = Prog(k=k)
    labels = set(["k%d" % k])
    info = {"nontrivial": False, "id_checks": []}
    files = {}        # name on disk -> content model {"fmt", "data": list or None, "att": int or None}
    slots = {}        # slot -> {"name","ro","id"}
    used = set()      # ids in use (predicted)
    last_closed = []  # ids released (stale candidates)
    failed_since_quiesce = False

    def new_id():
        i = 0
        while i in used:
            i += 1
        used.add(i)
        return i

    def expect_id(n, want):
        def chk(res):
            out = []
            for r in range(k):
                e = res.get(n, r)
                if e is not None and e.get("rc") == 0 and e.get("ncid") != want:
                    out.append({"kind": "idpred", "msg": "stmt %d: library issued ncid %s, lowest free index is %d" % (n, e.get("ncid"), want), "sig": {"kind": "id_prediction"}})
            return out
        p.check(chk)

    def check_file(slot, what):
        """dump an open file and compare with its model"""
        sl = slots[slot]
        fmodel = files[sl["name"]]
        if sl.get("define"):
            return
        nd = p.op("dumpall", step=True, f="f%d" % slot, data=1, coll=1)

        def chk(res, nd=nd, fm=dict(fmodel), what=what, slot=slot):
            out = []
            for r in range(k):
                d = res.get(nd, r)
                if d is None or d.get("rc") != 0:
                    out.append({"kind": "dump", "msg": "%s: dump of slot %d failed (%s)" % (what, slot, d and d.get("rc")), "sig": {"kind": "dump_rc"}})
                    continue
                if d["nvars"] != 1 + fm.get("extra_vars", 0) or d["ndims"] != 1 + fm.get("extra_dims", 0):
                    out.append({"kind": "isolation", "msg": "%s: slot %d has %s vars / %s dims, expected %d / %d" % (what, slot, d["nvars"], d["ndims"], 1 + fm.get("extra_vars", 0), 1 + fm.get("extra_dims", 0)), "sig": {"kind": "isolation_meta"}})
                    continue
                if fm["data"] is not None:
                    got = list(struct.unpack("%di" % X, bytes.fromhex(d["vars"][0]["data"])))
                    if got != fm["data"]:
                        out.append({"kind": "isolation", "msg": "%s: variable of slot %d reads %s expected %s" % (what, slot, got, fm["data"]), "sig": {"kind": "isolation_data"}})
                gat = [a for a in d["gatts"] if bytes.fromhex(a["name"]) == b"a"]
                if fm["att"] is not None:
                    if not gat or struct.unpack("i", bytes.fromhex(gat[0]["val"]))[0] != fm["att"]:
                        out.append({"kind": "isolation", "msg": "%s: attribute of slot %d is %s expected %s" % (what, slot, gat and gat[0]["val"], fm["att"]), "sig": {"kind": "isolation_att"}})
            return out
        p.check(chk)

    def check_others(except_slot, what):
        for s in sorted(slots):
            if s != except_slot:
                check_file(s, what)

    def create(slot, name, fmt):
        mode = {1: 0, 2: 0x200, 5: 0x20}[fmt]
        n = p.op("create", step=True, f="f%d" % slot, path=hx(name), mode=mode)
        i = new_id()
        expect_id(n, i)
        f = "f%d" % slot
        filled = (len(name) + slot + fmt) % 3 == 0
        if filled:
            # fill mode: enddef writes fill values, the work is divided among the ranks (a scalar leaves most ranks without a share)
            p.op("set_fill", step=True, f=f, mode=0)
            labels.add("create_in_fill_mode")
        p.op("def_dim", step=True, f=f, name=hx("x"), len=X)
        p.op("def_var", step=True, f=f, name=hx("v"), xt=M.NC_INT, dims=[0], ndims=1)
        p.op("enddef", step=True, f=f)
        if filled:
            # a second define scope that adds only a scalar: at this enddef every rank but one has nothing to fill
            p.op("redef", step=True, f=f)
            p.op("def_var", step=True, f=f, name=hx("sc"), xt=M.NC_SHORT, dims=[], ndims=0)
            p.op("enddef", step=True, f=f)
        files[name] = {"fmt": fmt, "data": None, "att": None, "extra_dims": 0, "extra_vars": 1 if filled else 0}
        slots[slot] = {"name": name, "ro": False, "id": i, "define": False}

    def release(slot):
        sl = slots.pop(slot)
        used.discard(sl["id"])
        last_closed.append(sl["id"])

    def put_all(slot, seed):
        f = "f%d" % slot
        sn = p.s.same_n()
        for r in range(k):
            b = p.newbuf()
            p.s.op("buf", ranks=[r], b=b, size=4 * X, hex=struct.pack("%di" % X, *vals(seed)))
            p.s.op("data", ranks=[r], sn=sn, step=True, api="put", form="var", coll=1, mt="int", f=f, v=0, buf=b)
        p.expect_rc(sn, range(k), 0, "put_var_all")
        files[slots[slot]["name"]]["data"] = vals(seed)

    for stp in case["steps"]:
        ev = stp["ev"]
        labels.add("ev_" + ev)
        if ev == "create":
            if stp["slot"] in slots or stp["name"] in [s["name"] for s in slots.values()]:
                continue
            create(stp["slot"], stp["name"], stp["fmt"])
            check_others(stp["slot"], "after create of another file")
        elif ev == "open":
            if stp["slot"] in slots or stp["name"] not in files or stp["name"] in [s["name"] for s in slots.values()]:
                continue
            n = p.op("open", step=True, f="f%d" % stp["slot"], path=hx(stp["name"]), mode=0 if stp["ro"] else 1)
            i = new_id()
            expect_id(n, i)
            slots[stp["slot"]] = {"name": stp["name"], "ro": stp["ro"], "id": i, "define": False}
            check_file(stp["slot"], "after reopen")
        elif ev == "bad_open":
            slot = stp["slot"]
            if slot in slots:
                continue
            f = "f%d" % slot
            what = stp["what"]
            failed_since_quiesce = True
            # half of the failing opens/creates carry hints (an MPI_Info the library has to combine, duplicate and release)
            ikw = {}
            if (stp.get("seed", len(stp.get("name", ""))) + slot) % 2 == 0:
                if not info.get("have_info"):
                    p.s.op("info", i="i9", **{"h__nc_var_align_size": hx("8"), "h__nc_header_read_chunk_size": hx("1024")})
                    info["have_info"] = True
                ikw = {"info": "i9"}
                labels.add("bad_open_with_hints")
            if what == "missing":
                p.op("open", step=True, f=f, path=hx("nope%d.nc" % stp["seed"]), mode=0, expect=M.E["ENOENT"], **ikw)
            elif what == "noclobber":
                if stp["name"] not in files or stp["name"] in [s["name"] for s in slots.values()]:
                    continue
                p.op("create", step=True, f=f, path=hx(stp["name"]), mode=4, expect=M.E["EEXIST"], **ikw)
            else:
                name = "junk%d" % stp["seed"]
                data = {"garbage": bytes((stp["seed"] * 7 + j * 13) % 251 for j in range(200)), "empty": b"", "truncated": b"CDF\x01\x00\x00\x00\x00\x00\x00\x00\x0a\x00\x00\x00\x05\x00\x00"}[what]
                p.s.op("writefile", ranks=[0], path=hx(name), hex=data if data else None)
                if k > 1:
                    p.op("barrier", expect=None)
                n = p.s.op("open", step=True, f=f, path=hx(name), mode=0, **ikw)
                # any netCDF error is fine (NC_ENOTNC, NC_EFILE ...), success is not
                p.check(lambda res, n=n, what=what: [{"kind": "rc", "msg": "open of a %s file returned %s" % (what, res.rc(n, r)), "sig": {"kind": "bad_open_rc", "what": what}}
                                                      for r in range(k) if res.rc(n, r) in (0, None)])
            labels.add("bad_open_" + what)
            check_others(None, "after a failed open")
        elif ev in ("close", "abort"):
            slot = stp["slot"]
            if slot not in slots:
                continue
            sl = slots[slot]
            p.op(ev, step=True, f="f%d" % slot)
            if ev == "abort" and sl.get("define"):
                pass
            release(slot)
            check_others(None, "after %s of another file" % ev)
        elif ev in ("pending_close", "pending_abort"):
            slot = stp["slot"]
            if slot not in slots or slots[slot]["ro"] or slots[slot].get("define"):
                continue
            f = "f%d" % slot
            if stp["kind"] == "bput":
                p.op("buffer_attach", f=f, size=4096)
            for j in range(stp["n"]):
                for r in range(k):
                    b, q = p.newbuf(), p.newreq()
                    if stp["kind"] == "iget_varm":
                        # a true varm request (imap with a gap): the library builds an MPI datatype for it
                        p.s.op("buf", ranks=[r], b=b, size=12, fill=0xEE)
                        n = p.s.op("data", ranks=[r], api="iget", form="varm", coll=0, mt="int", f=f, v=0, start=[0], count=[2], stride=[1], imap=[2], buf=b, req=q)
                    elif stp["kind"] == "iget":
                        p.s.op("buf", ranks=[r], b=b, size=4, fill=0xEE)
                        n = p.s.op("data", ranks=[r], api="iget", form="var1", coll=0, mt="int", f=f, v=0, start=[j], buf=b, req=q)
                    else:
                        p.s.op("buf", ranks=[r], b=b, size=4, hex=struct.pack("i", 31337))
                        n = p.s.op("data", ranks=[r], api=stp["kind"], form="var1", coll=0, mt="int", f=f, v=0, start=[j], buf=b, req=q)
                    p.expect_rc(n, [r], 0, stp["kind"])
            if ev == "pending_close":
                p.op("close", step=True, f=f, expect=M.E["EPENDING"], what="close with pending requests")
            else:
                p.op("abort", step=True, f=f, expect=[0, M.E["EPENDING"]], what="abort with pending requests")
            release(slot)
            labels.add(ev + "_" + stp["kind"])
            failed_since_quiesce = True
            check_others(None, "after close with pending requests")
        elif ev == "use":
            slot = stp["slot"]
            if slot not in slots:
                continue
            sl = slots[slot]
            f = "f%d" % slot
            what = stp["what"]
            fmodel = files[sl["name"]]
            if sl["ro"]:
                what = "get" if what not in ("indep",) else "indep"
            if what == "put":
                put_all(slot, stp["seed"])
            elif what == "get":
                check_file(slot, "get")
            elif what == "att":
                p.op("redef", step=True, f=f)
                p.op("put_att", step=True, f=f, v=-1, name=hx("a"), xt=M.NC_INT, mt="int", n=1, hex=struct.pack("i", stp["seed"]))
                p.op("enddef", step=True, f=f)
                fmodel["att"] = stp["seed"]
            elif what == "redef":
                p.op("redef", step=True, f=f)
                p.op("def_dim", step=True, f=f, name=hx("d%d" % fmodel["extra_dims"]), len=2 + stp["seed"] % 5)
                fmodel["extra_dims"] += 1
                p.op("enddef", step=True, f=f)
            elif what == "nb":
                qs = {}
                for r in range(k):
                    b, q = p.newbuf(), p.newreq()
                    p.s.op("buf", ranks=[r], b=b, size=4 * X, hex=struct.pack("%di" % X, *vals(stp["seed"])))
                    n = p.s.op("data", ranks=[r], api="iput", form="var", coll=0, mt="int", f=f, v=0, buf=b, req=q)
                    p.expect_rc(n, [r], 0, "iput")
                    qs[r] = q
                sn = p.s.same_n()
                for r in range(k):
                    p.s.op("wait", ranks=[r], sn=sn, step=True, f=f, coll=1, reqs=[qs[r]], st=1)
                p.expect_rc(sn, range(k), 0, "wait_all")
                fmodel["data"] = vals(stp["seed"])
            elif what == "indep":
                p.op("begin_indep", step=True, f=f)
                if not sl["ro"]:
                    b = p.newbuf()
                    p.s.op("buf", ranks=[0], b=b, size=4 * X, hex=struct.pack("%di" % X, *vals(stp["seed"])))
                    p.op("data", ranks=[0], api="put", form="var", coll=0, mt="int", f=f, v=0, buf=b, what="put_var")
                    fmodel["data"] = vals(stp["seed"])
                p.op("end_indep", step=True, f=f)
            elif what == "varn":
                sn = p.s.same_n()
                for r in range(k):
                    b = p.newbuf()
                    p.s.op("buf", ranks=[r], b=b, size=4 * X, hex=struct.pack("%di" % X, *vals(stp["seed"])))
                    p.s.op("data", ranks=[r], sn=sn, step=True, api="put", form="varn", coll=1, mt="int", f=f, v=0, buf=b, num=2, starts=[[0], [2]], counts=[[2], [2]])
                p.expect_rc(sn, range(k), 0, "put_varn_all")
                fmodel["data"] = vals(stp["seed"])
            elif what == "flex":
                sn = p.s.same_n()
                for r in range(k):
                    b, t = p.newbuf(), p.newtype()
                    v4 = vals(stp["seed"])
                    raw = b"".join(struct.pack("i", x) + b"\xee\xee\xee\xee" for x in v4)
                    p.s.op("type", ranks=[r], t=t, spec="vec(%d,1,2,int)" % X)
                    p.s.op("buf", ranks=[r], b=b, size=len(raw), hex=raw)
                    p.s.op("data", ranks=[r], sn=sn, step=True, api="put", form="var", coll=1, mt="flex", f=f, v=0, buf=b, buftype=t, bufcount=1)
                p.expect_rc(sn, range(k), 0, "put_var_all(flexible)")
                fmodel["data"] = vals(stp["seed"])
            labels.add("use_" + what)
            check_others(slot, "after %s on another file" % what)
        elif ev == "fail":
            slot = stp["slot"]
            if slot not in slots:
                continue
            f = "f%d" % slot
            what = stp["what"]
            failed_since_quiesce = True
            ro = slots[slot]["ro"]
            b = p.newbuf()
            p.s.op("buf", b=b, size=4 * X, hex=struct.pack("%di" % X, *vals(7)))
            E = M.E
            if what == "bad_varid":
                p.op("data", step=True, api="get", form="var", coll=1, mt="int", f=f, v=55, buf=b, expect=E["ENOTVAR"], what="get_var_all(bad varid)")
            elif what == "def_in_data":
                p.op("def_dim", step=True, f=f, name=hx("zz"), len=3, expect=[E["EPERM"], E["ENOTINDEFINE"]] if ro else E["ENOTINDEFINE"])
            elif what == "edge":
                p.op("data", step=True, api="get", form="vara", coll=1, mt="int", f=f, v=0, start=[0], count=[X + 1], buf=b, expect=E["EEDGE"], what="get_vara_all(edge)")
            elif what == "bad_att":
                p.op("get_att", step=True, f=f, v=-1, name=hx("nosuch"), mt="int", cap=16, expect=E["ENOTATT"])
            elif what == "echar":
                p.op("data", step=True, api="get", form="var", coll=1, mt="text", f=f, v=0, buf=b, expect=E["ECHAR"], what="get_var_text_all on int")
            elif what == "bad_reqid":
                p.op("wait", step=True, f=f, coll=1, reqs=["raw:4444"], st=1, expect=E["EINVAL_REQUEST"])
            elif what == "ebaddim":
                p.op("inq", step=True, f=f, what_="dimlen", v=77, expect=E["EBADDIM"])
            elif what == "nameinuse":
                if ro:
                    continue
                p.op("redef", step=True, f=f)
                p.op("def_var", step=True, f=f, name=hx("v"), xt=M.NC_INT, dims=[0], ndims=1, expect=E["ENAMEINUSE"])
                p.op("enddef", step=True, f=f)
            elif what == "bput_insuff":
                if ro:
                    continue
                p.op("buffer_attach", f=f, size=4)
                p.op("data", api="bput", form="varm", coll=0, mt="int", f=f, v=0, start=[0], count=[2], stride=[1], imap=[2], buf=b, req=p.newreq(),
                     expect=E["EINSUFFBUF"], what="bput_varm larger than the attached buffer")
                p.op("buffer_detach", f=f)
            elif what == "iomismatch":
                p.op("data", step=True, api="get", form="var", coll=1, mt="flex", f=f, v=0, buf=b, buftype="int", bufcount=X + 2, expect=E["EIOMISMATCH"], what="flexible get with wrong bufcount")
            labels.add("fail_" + what)
            check_file(slot, "after a failing call on it")
        elif ev == "probe":
            kind = stp["idkind"]
            if kind == "stale":
                cands = [i for i in last_closed if i not in used]
                if not cands:
                    continue
                bad = cands[-1]
            elif kind == "negative":
                bad = -1 - stp["n"]
            elif kind == "huge":
                bad = NC_MAX_NFILES + stp["n"] * 1000
            elif kind == "max":
                bad = NC_MAX_NFILES - 1
            else:
                bad = max(used | {0}) + 1 + stp["n"] % 7
                if bad in used:
                    continue
            tok = "raw:%d" % bad
            if slots:
                info["nontrivial"] = True
                labels.add("badid_while_open")
            b = p.newbuf()
            p.s.op("buf", b=b, size=4 * X, fill=0x11)
            for api in stp["apis"]:
                kw = dict(step=False, f=tok, expect=M.E["EBADID"], what="%s on id %d (%s)" % (api, bad, kind))
                if api in ("enddef", "redef", "sync", "begin_indep", "end_indep", "close", "abort", "flush", "sync_numrecs"):
                    p.op(api, **kw)
                elif api == "inq":
                    p.op("inq", what_="inq", **kw)
                elif api == "inq_nreqs":
                    p.op("inq", what_="nreqs", **kw)
                elif api == "buffer_usage":
                    p.op("inq", what_="buffer_usage", **kw)
                elif api == "inq_att":
                    p.op("inq", what_="att", v=-1, name=hx("a"), **kw)
                elif api == "inq_varid":
                    p.op("inq", what_="varid", name=hx("v"), **kw)
                elif api == "file_info":
                    p.op("inq", what_="file_info", **kw)
                elif api == "def_dim":
                    p.op("def_dim", name=hx("q"), len=3, **kw)
                elif api == "def_var":
                    p.op("def_var", name=hx("q"), xt=M.NC_INT, dims=[0], ndims=1, **kw)
                elif api == "def_var_fill":
                    p.op("def_var_fill", v=0, nofill=0, **kw)
                elif api == "put_att":
                    p.op("put_att", v=-1, name=hx("a"), xt=M.NC_INT, mt="int", n=1, hex=struct.pack("i", 1), **kw)
                elif api == "get_att":
                    p.op("get_att", v=-1, name=hx("a"), mt="int", cap=16, **kw)
                elif api == "del_att":
                    p.op("del_att", v=-1, name=hx("a"), **kw)
                elif api == "rename_var":
                    p.op("rename_var", v=0, name=hx("w"), **kw)
                elif api in ("put", "get"):
                    p.op("data", api=api, form="var", coll=1, mt="int", v=0, buf=b, **kw)
                elif api == "varn":
                    p.op("data", api="put", form="varn", coll=1, mt="int", v=0, buf=b, num=1, starts=[[0]], counts=[[1]], **kw)
                elif api in ("iput", "iget"):
                    p.op("data", api=api, form="var", coll=0, mt="int", v=0, buf=b, req=p.newreq(), **kw)
                elif api == "wait":
                    p.op("wait", coll=1, reqs="ALL", st=0, **kw)
                elif api == "cancel":
                    p.op("cancel", coll=0, reqs="ALL", st=0, **kw)
                elif api == "buffer_attach":
                    p.op("buffer_attach", size=100, **kw)
                elif api == "fill_var_rec":
                    p.op("fill_var_rec", v=0, rec=0, **kw)
                elif api == "set_fill":
                    p.op("set_fill", mode=0, **kw)
                labels.add("probe_" + api)
            labels.add("idkind_" + kind)
            check_others(None, "after calls on an id that is not open")
        elif ev == "quiesce":
            if slots:
                continue
            n = p.s.op("quiesce")
            if failed_since_quiesce:
                info["nontrivial"] = True
                labels.add("quiesce_after_failure")
            failed_since_quiesce = False
            p.check(_chk_quiesce(n, k, "quiesce point"))
    # ---- end: close everything, final quiesce
    for slot in sorted(slots):
        p.op("close", step=True, f="f%d" % slot)
    n = p.s.op("quiesce")
    p.check(_chk_quiesce(n, k, "end of program"))
    if failed_since_quiesce:
        info["nontrivial"] = True
    return p, info, labels


def _chk_quiesce(n, k, what):
    def chk(res):
        out = []
        for r in range(k):
            e = res.get(n, r)
            if e is None:
                continue
            if e["nopen"] != 0:
                out.append({"kind": "leak", "msg": "%s: ncmpi_inq_files_opened reports %d open files on rank %d" % (what, e["nopen"], r), "sig": {"kind": "leak_ids"}})
            leaked = e["malloc"] - e.get("malloc0", 0)     # heap leaked by EARLIER scripts of this pool is theirs, not ours
            if leaked != 0:
                out.append({"kind": "leak", "msg": "%s: the library still holds %d bytes of heap (ncmpi_inq_malloc_size) on rank %d with no file open" % (what, leaked, r), "sig": {"kind": "leak_heap"}})
            if e.get("fds", 0) > 0:
                out.append({"kind": "leak", "msg": "%s: rank %d still holds %d open POSIX file descriptor(s) on files of the scratch directory with no netCDF file open" % (what, r, e["fds"]), "sig": {"kind": "leak_fd"}})
            led = e["ledger"]
            names = ["datatype", "communicator", "info", "file handle"]
            for i in range(4):
                if led["created"][i] != led["freed"][i]:
                    sites = [hex(s) for (kd, s, stp) in led["live"] if kd == i][:4]
                    out.append({"kind": "leak", "msg": "%s: %d MPI %s object(s) created by the library were not freed (rank %d, creation sites %s)" % (
                        what, led["created"][i] - led["freed"][i], names[i], r, sites), "sig": {"kind": "leak_mpi", "obj": names[i]}})
        return out
    return chk


def max_files_case():
    return {"k": 1, "special": "max_files"}


def build_max_files():
    p = Prog(k=1)
    p.op("create", f="f0", path=hx("base.nc"), mode=0)
    p.op("def_dim", f="f0", name=hx("x"), len=2)
    p.op("enddef", f="f0")
    p.op("close", f="f0")
    # the executor has 24 slots; reuse slot f1 for the many opens: the ids stay open because only the slot is overwritten
    ns = []
    for i in range(NC_MAX_NFILES):
        ns.append(p.s.op("open", f="f1", path=hx("base.nc"), mode=0))
    n_over = p.s.op("open", f="f2", path=hx("base.nc"), mode=0)

    def chk(res):
        out = []
        ids = [res.get(n, 0).get("ncid") for n in ns if res.rc(n, 0) == 0]
        bad = [n for n in ns if res.rc(n, 0) != 0]
        if bad:
            out.append({"kind": "maxfiles", "msg": "open number %d of %d simultaneous opens failed with %s" % (ns.index(bad[0]) + 1, NC_MAX_NFILES, res.rc(bad[0], 0)), "sig": {"kind": "max_files_open"}})
        elif sorted(ids) != list(range(NC_MAX_NFILES)):
            out.append({"kind": "maxfiles", "msg": "ids of %d simultaneous opens are not 0..%d" % (NC_MAX_NFILES, NC_MAX_NFILES - 1), "sig": {"kind": "max_files_ids"}})
        if res.rc(n_over, 0) != M.E["ENFILE"]:
            out.append({"kind": "maxfiles", "msg": "open number %d returned %s, expected NC_ENFILE" % (NC_MAX_NFILES + 1, res.rc(n_over, 0)), "sig": {"kind": "max_files_enfile"}})
        return out
    p.check(chk)
    for i in range(NC_MAX_NFILES):
        p.op("close", f="raw:%d" % i, what="close of id %d" % i)
    n = p.s.op("quiesce")
    p.check(_chk_quiesce(n, 1, "after closing %d files" % NC_MAX_NFILES))
    return p, {"nontrivial": True}, set(["max_files"])


def run_case(ctx, case):
    if case.get("special") == "max_files":
        p, info, labels = build_max_files()
        pool = ctx.pool("asan", nprocs=1)
        res, _ = pool.run(p.s, timeout=300)
    else:
        p, info, labels = build(case)
        pool = ctx.pool("asan", nprocs=1 if case["k"] == 1 else 4)
        res, _ = pool.run(p.s)
    probs = p.evaluate(res)
    # a failed id prediction makes the remaining expectations meaningless: inconclusive, not a violation
    if any(pr["kind"] == "idpred" for pr in probs):
        ctx.count("inconclusive_id_prediction")
        return []
    # every script must also end clean (the executor's end-of-script report)
    cl = res.cleanup(0)
    if cl.get("closed") and not case.get("special"):
        probs.append({"kind": "harness", "msg": "script left files open: %s" % cl["closed"], "sig": {"kind": "harness_left_open"}})
    ctx.count(*labels)
    if info["nontrivial"]:
        ctx.nontrivial(runner.case_hash(case))
    ctx.sample({"case": case if not case.get("special") else "open NC_MAX_NFILES+1 files", "script_head": p.s.lines[:30]})
    return probs


def case_script(case):
    if case.get("special"):
        return build_max_files()[0].s.text("<dir>")[0][:3000]
    return build(case)[0].s.text("<dir>")[0]


def campaign(ctx):
    n = {"quick": 1000, "thorough": 6000}[ctx.tier]
    # the NC_MAX_NFILES+1 case runs on every invocation as the regression replay replays/C17/max-files.json
    runner.run_hypothesis(ctx, case_strategy(ctx.tier), runner.guarded(run_case), n)


if __name__ == "__main__":
    runner.main("checks.c17", PROP, default_workers=8, nt_floor=20)
