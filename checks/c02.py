#!/usr/bin/env python3-vt
"""C02 - nonblocking request aggregation is equivalent to blocking execution."""
import os, sys
sys.path.insert(0, os.path.dirname(os.path.dirname(os.path.abspath(__file__))))
import numpy as np
from hypothesis import strategies as st
from pv import model as M, gen as G
from pv.prog import Prog, define_schema, req_geometry
from pv.pool import hx
from pv import runner
from pv.common import compare_dump, decode_compare
from checks.c01 import req_for, mtsel_for

PROP = "C02"
MAXREC = 6
RULE = ("Hypothesis-generated programs: schema as in C01 (record variables likely), per rank a multiset of iput/iget/bput requests "
        "(var..varm, varn with multi-record sub-requests, flexible buffers, posts in define mode, zero-length), then a wait plan: "
        "successive wait_all / independent wait / cancel calls on arbitrary subsets of the pending ids in arbitrary order, with "
        "NC_REQ_NULL entries, NC_REQ_ALL / NC_GET_REQ_ALL / NC_PUT_REQ_ALL, statuses present or NULL, and further posts between "
        "waits; k=1..4 ranks with different request counts. Oracle: each completed request is applied to the reference model as the "
        "corresponding blocking call at the time its wait returns; file content (dumpall after fence, independent decoder after "
        "close), iget buffers, statuses[i] bound to req_ids[i] (NC_ERANGE planted at random positions), ids reset to NC_REQ_NULL, "
        "inq_nreqs after every call. Non-trivial = a wait on a strict subset, or ids out of posting order, or a varn request "
        "spanning >1 record, or k>=2 with unequal request counts.")
ASSUMPTIONS = ["single node, local POSIX file system, OpenMPI 4.1.4 with ROMIO",
               "pending puts never overlap; a variable never has pending gets and pending puts at the same time",
               "independent waits of different ranks are serialised by harness barriers"]


@st.composite
def case_strategy(draw, tier="quick"):
    big = tier == "thorough"
    sch = draw(G.schema(max_dims=3, max_len=4, max_vars=4, max_ndims=3, p_rec=85))
    for v in sch["vars"]:
        xt = v["xt"]
        if xt == M.NC_CHAR:
            v["vclass"] = "wild"
        elif xt in (M.NC_INT, M.NC_SHORT, M.NC_FLOAT, M.NC_DOUBLE, M.NC_INT64, M.NC_USHORT, M.NC_UINT, M.NC_UINT64) and G.chance(draw, 25):
            v["vclass"] = "big"          # values 1000.. : narrow iget memory types give NC_ERANGE statuses
        else:
            signed = xt in (M.NC_BYTE, M.NC_SHORT, M.NC_INT, M.NC_FLOAT, M.NC_DOUBLE, M.NC_INT64)
            v["vclass"] = draw(st.sampled_from(["wild", "pos", "neg"] if signed else ["wild", "pos"]))
    k = draw(st.sampled_from([1, 1, 2, 2, 3, 4] if not big else [1, 2, 3, 4, 6, 8]))
    dims = sch["dims"]
    nv = len(sch["vars"])
    numrecs = 0
    busy = [None] * nv          # boolean arrays of elements targeted by pending puts
    pend_put = [0] * nv
    pend_get = [0] * nv
    pending = [dict() for _ in range(k)]   # rank -> {rid: info}
    events = []
    rid = [0]

    def shape_cap(v):
        shp = [dims[d] for d in v["dims"]]
        if shp and shp[0] == 0:
            shp[0] = MAXREC
        return shp

    for vi, v in enumerate(sch["vars"]):
        busy[vi] = np.zeros(shape_cap(v), dtype=bool)

    def draw_post(r, in_define):
        nonlocal numrecs
        vi = draw(st.integers(0, nv - 1))
        v = sch["vars"][vi]
        is_rec = bool(v["dims"]) and dims[v["dims"][0]] == 0
        can_put = pend_get[vi] == 0
        can_get = pend_put[vi] == 0 and not in_define
        kinds = (["iput", "iput", "bput"] if can_put else []) + (["iget", "iget"] if can_get else [])
        if in_define:
            kinds = ["iput"] if can_put else []
        if not kinds:
            return None
        kind = draw(st.sampled_from(kinds))
        shape = [dims[d] for d in v["dims"]]
        if kind == "iget":
            if is_rec:
                shape[0] = numrecs
            if any(s == 0 for s in shape):
                return None
            s, c, sd = draw(G.box(shape, stride=not G.chance(draw, 35)))
            # multi-record list-of-subarrays reads are split into one sub-request per record inside the library
            gforce = "varn" if (is_rec and all(x == 1 for x in sd) and c and c[0] >= 2 and G.chance(draw, 60)) else None
            rq = draw(req_for(v, vi, shape, s, c, sd, is_rec, numrecs, form=gforce))
            if rq["form"] == "vard":
                rq = draw(req_for(v, vi, shape, s, c, sd, is_rec, numrecs, form="vars"))
            erange = False
            if v["vclass"] == "big":
                # choose the memory type freely: narrow types produce NC_ERANGE
                mt = draw(st.sampled_from(["schar", "uchar", "int", "double", "longlong", "short"]))
                if rq["mt"] == "flex":
                    rq["prim"] = M.MT_PRIM[mt]
                    rq["bt"] = None
                    rq["bufcount"] = None
                else:
                    rq["mt"] = mt
                n_el = int(np.prod(c)) if c else 1
                erange = mt in ("schar", "uchar") and n_el > 0
            pend_get[vi] += 1
            return {"kind": "iget", "req": rq, "erange": erange, "nview": numrecs}
        # put
        if is_rec:
            shape[0] = min(MAXREC, max(1, numrecs + draw(st.integers(0, 2))))
        for _ in range(4):
            s, c, sd = draw(G.box(shape))
            idx = M.box_indices(s, c, sd)
            if len(idx) == 0 or not busy[vi][tuple(idx.T)].any():
                break
        else:
            return None
        force = "varn" if (is_rec and all(x == 1 for x in sd) and c and c[0] >= 2 and G.chance(draw, 50)) else None
        rq = draw(req_for(v, vi, shape, s, c, sd, is_rec, numrecs, form=force))
        if rq["form"] in ("vard",) or (rq["form"] == "var" and is_rec and numrecs == 0):
            rq = draw(req_for(v, vi, shape, s, c, sd, is_rec, numrecs, form="vars"))
        if v["vclass"] == "big":
            from checks.c01 import fix_mt
            fix_mt(rq, M.XT_NATIVE_MT[v["xt"]])
        if len(idx):
            busy[vi][tuple(idx.T)] = True
        pend_put[vi] += 1
        top = int(idx[:, 0].max()) + 1 if (is_rec and len(idx)) else 0
        return {"kind": kind, "req": rq, "nview": numrecs, "top": top}

    nrounds = draw(st.integers(1, 3 if not big else 5))
    define_posts = G.chance(draw, 25)
    prefill = 0
    if not define_posts and any(v["dims"] and dims[v["dims"][0]] == 0 for v in sch["vars"]) and G.chance(draw, 55):
        # records that exist before the first round (written by a blocking collective call): the first round can already
        # post reads of record variables
        prefill = numrecs = draw(st.integers(2, 4))
    for rnd in range(nrounds):
        # ---- posts
        posts = []
        in_define = (rnd == 0 and define_posts)
        for r in range(k):
            npost = draw(st.integers(0, 4 if not big else 7))
            for _ in range(npost):
                pst = draw_post(r, in_define)
                if pst is None:
                    continue
                rid[0] += 1
                pst["rank"] = r
                pst["id"] = rid[0]
                posts.append(pst)
                pst["zero"] = len(_idx_of(sch, pst["req"], pst["nview"])) == 0
                if pst["zero"]:
                    # a zero-length request is not queued (its id is NC_REQ_NULL): nothing to wait for
                    if pst["kind"] == "iget":
                        pend_get[pst["req"]["var"]] -= 1
                    else:
                        pend_put[pst["req"]["var"]] -= 1
                    continue
                pending[r][rid[0]] = pst
        events.append({"ev": "post", "posts": posts, "define": in_define})
        # ---- wait plan
        nwaits = draw(st.integers(1, 3))
        for w in range(nwaits):
            last = (rnd == nrounds - 1 and w == nwaits - 1)
            evk = "wait_all" if last else draw(st.sampled_from(["wait_all", "wait_all", "wait", "cancel"]))
            per_rank = {}
            done = []
            for r in range(k):
                ids = list(pending[r].keys())
                if evk == "wait" and not G.chance(draw, 75):
                    continue
                if last:
                    sel = draw(st.permutations(ids)) if ids else []
                    special = draw(st.sampled_from([None, None, "ALL"]))
                else:
                    special = draw(st.sampled_from([None, None, None, None, "ALL", "GETALL", "PUTALL"]))
                    sel = list(draw(st.permutations(ids)))[:draw(st.integers(0, len(ids)))] if ids else []
                if special:
                    sel = [i for i in ids if special == "ALL" or (special == "GETALL") == (pending[r][i]["kind"] == "iget")]
                    per_rank[str(r)] = {"special": special, "st": False}
                else:
                    toks = list(sel)
                    # sprinkle NC_REQ_NULL entries
                    for _ in range(draw(st.integers(0, 1)) if G.chance(draw, 25) else 0):
                        toks.insert(draw(st.integers(0, len(toks))), "null")
                    per_rank[str(r)] = {"ids": toks, "st": G.chance(draw, 75)}
                for i in sel:
                    done.append((r, i))
            events.append({"ev": evk, "per_rank": per_rank})
            for r, i in done:
                pst = pending[r].pop(i)
                vi = pst["req"]["var"]
                if pst["kind"] == "iget":
                    pend_get[vi] -= 1
                else:
                    pend_put[vi] -= 1
                    rq = pst["req"]
                    idx = _idx_of(sch, rq, pst["nview"])
                    if len(idx):
                        busy[vi][tuple(idx.T)] = False
                    if evk != "cancel":
                        numrecs = max(numrecs, pst.get("top", 0))
    # intra-node write aggregation at wait_all (hint nc_num_aggrs_per_node): 0 = off
    return {"schema": sch, "k": k, "events": events, "prefill": prefill, "aggr": min(k, draw(st.sampled_from([0, 0, 0, 1, 1, 2])))}


def _fm_of(sch):
    fm = M.FileM(sch["fmt"])
    for i, l in enumerate(sch["dims"]):
        fm.dims.append(("d%d" % i, l))
    for i, v in enumerate(sch["vars"]):
        fm.add_var("v%d" % i, v["xt"], v["dims"])
    return fm


def _idx_of(sch, rq, nview):
    fm = _fm_of(sch)
    return req_geometry(fm, rq, nview)[0]


def big_values(seed, n, xt):
    return ((np.arange(n, dtype=np.int64) * 3 + seed) % 100 + 1000).astype(M.XT_DTYPE[xt])


def build(case):
    sch, k = case["schema"], case["k"]
    p = Prog(k=k)
    events = case["events"]
    define_first = bool(events and events[0].get("define"))
    if case.get("aggr"):
        p.s.op("info", i="i1", **{"h__nc_num_aggrs_per_node": hx(str(case["aggr"]))})
    fm = define_schema(p, sch, enddef=not define_first, info="i1" if case.get("aggr") else None)
    labels = set(["k%d" % k, "fmt%d" % sch["fmt"], "aggregators_per_node_%d" % case.get("aggr", 0)])
    nontrivial = False
    in_define = define_first
    attached = False
    pend = [dict() for _ in range(k)]    # id -> runtime info
    post_order = [[] for _ in range(k)]

    def attach():
        nonlocal attached
        if not attached:
            p.op("buffer_attach", f="f0", size=1 << 16, what="buffer_attach")
            attached = True

    if not in_define:
        attach()
    if case.get("prefill") and not in_define:
        npre = case["prefill"]
        for vi, v in enumerate(sch["vars"]):
            if not (v["dims"] and sch["dims"][v["dims"][0]] == 0):
                continue
            inner = [sch["dims"][d] for d in v["dims"][1:]]
            sn = p.s.same_n()
            for r in range(k):
                rq = {"var": vi, "form": "vara", "start": [0] * (1 + len(inner)), "count": [npre if r == 0 else 0] + inner, "seed": 4242 + vi,
                      "mt": M.XT_NATIVE_MT[v["xt"]], "vclass": v["vclass"] if v["vclass"] != "big" else "big"}
                p.put(fm, r, rq, fm.numrecs if r else 0, coll=True, sn=sn, step=True)
        p.op("fence", step=True, f="f0")
        labels.add("prefilled_records")
    for ev in events:
        kind = ev["ev"]
        if kind == "post":
            for pst in ev["posts"]:
                r = pst["rank"]
                rq = dict(pst["req"])
                qs = p.newreq()
                info = {"kind": pst["kind"], "req": rq, "q": qs, "erange": pst.get("erange", False)}
                if pst["kind"] == "iget":
                    n, slot, verify = p.get(fm, r, rq, pst["nview"], api="iget", reqslot=qs)
                    info.update(slot=slot, verify=verify)
                    labels.add("iget_" + rq["form"])
                else:
                    v = fm.vars[rq["var"]]
                    idx, mempos, nlog = req_geometry(fm, rq, pst["nview"])
                    if sch["vars"][rq["var"]]["vclass"] == "big":
                        rq["vclass"] = "big"
                    n, slot, values, idx = p.put(fm, r, rq, pst["nview"], api=pst["kind"], reqslot=qs, apply=False)
                    info.update(slot=slot, values=values, idx=idx)
                    labels.add(pst["kind"] + "_" + rq["form"])
                    if rq["form"] == "varn" and fm.is_rec(v) and rq.get("counts") and any(c and c[0] > 1 for c in rq["counts"]):
                        labels.add("varn_multirecord")
                        nontrivial = True
                    if pst["kind"] == "bput":
                        # data is captured at posting time: scribble over the user buffer right away
                        p.s.op("bufset", ranks=[r], b=slot, fill=0x77)
                if ev.get("define"):
                    labels.add("post_in_define_mode")
                if pst.get("zero"):
                    labels.add("zero_length_post")
                    p.check(_chk_zero_req(n, r))
                    continue
                pend[r][pst["id"]] = info
                post_order[r].append(pst["id"])
            if in_define:
                p.op("enddef", step=True, f="f0")
                in_define = False
                attach()
            if k >= 2 and len(set(len(pd) for pd in pend)) > 1:
                labels.add("unequal_counts")
                nontrivial = True
            continue
        # ---- wait / cancel events
        per_rank = ev["per_rank"]
        indep = kind == "wait"
        if indep:
            p.op("begin_indep", step=True, f="f0")
        sn = p.s.same_n() if kind == "wait_all" else None
        for r in range(k):
            spec = per_rank.get(str(r))
            if spec is None:
                if kind == "wait_all":
                    spec = {"ids": [], "st": False}
                else:
                    continue
            if spec.get("special"):
                sp = spec["special"]
                sel = [i for i in post_order[r] if i in pend[r] and (sp == "ALL" or (sp == "GETALL") == (pend[r][i]["kind"] == "iget"))]
                toks = sp
                labels.add("special_" + sp)
                idlist = None
            else:
                idlist = spec["ids"]
                sel = [i for i in idlist if i != "null"]
                toks = [("null" if i == "null" else pend[r][i]["q"]) for i in idlist]
                cur = [i for i in post_order[r] if i in pend[r]]
                if 0 < len(sel) < len(cur):
                    labels.add("strict_subset")
                    nontrivial = True
                if sel != [i for i in cur if i in sel]:
                    labels.add("out_of_order")
                    nontrivial = True
                if "null" in idlist:
                    labels.add("null_entries")
            want_st = bool(spec.get("st")) and idlist is not None
            opname = "cancel" if kind == "cancel" else "wait"
            n = p.s.op(opname, ranks=[r], sn=sn, step=(kind == "wait_all"), f="f0", coll=1 if kind == "wait_all" else 0,
                       reqs=toks if toks != [] else "", st=1 if want_st else 0)
            may_erange = kind != "cancel" and any(pend[r][i]["kind"] == "iget" for i in sel)
            # the call's own return value is the first error among the completed requests; only per-request
            # statuses are asserted exactly.  A get may report NC_ERANGE (planted, or unknown file content).
            p.expect_rc(n, [r], [0, M.E["ERANGE"]] if may_erange else 0, kind)
            # expected per-entry results (a set of admissible codes per entry)
            exp_st = []
            if idlist is not None:
                for i in idlist:
                    if i == "null" or kind == "cancel":
                        exp_st.append({0})
                        continue
                    info = pend[r][i]
                    if info["kind"] != "iget":
                        exp_st.append({0})
                        continue
                    vf = info["verify"]
                    vf.refresh()      # expected values as of this wait
                    unknown = bool((vf.holder["mask"] == 0).any())
                    native = M.mt_key(info["req"]) == M.XT_NATIVE_MT[fm.vars[info["req"]["var"]].xt]
                    if unknown and not native:
                        info["erange"] = "maybe"
                        exp_st.append({0, M.E["ERANGE"]})
                    elif info["erange"]:
                        exp_st.append({M.E["ERANGE"]})
                    else:
                        exp_st.append({0})
                gk = {i: (pend[r][i]["req"]["var"], set(map(tuple, pend[r][i]["verify"].idx.tolist()))) for i in sel if pend[r][i]["kind"] == "iget"}
                anyov = kind != "cancel" and any(a != b and gk[a][0] == gk[b][0] and (gk[a][1] & gk[b][1]) for a in gk for b in gk)
                p.check(_chk_wait(n, r, len(idlist), exp_st if want_st else None, kind, anyov))
            else:
                for i in sel:
                    if pend[r][i]["kind"] == "iget":
                        pend[r][i]["verify"].refresh()
            # apply to the model / verify buffers
            # element sets of the gets completed by this call on this rank (a get overlapping ANY other one is tagged)
            getkeys = {i: (pend[r][i]["req"]["var"], set(map(tuple, pend[r][i]["verify"].idx.tolist())))
                       for i in sel if pend[r][i]["kind"] == "iget"}
            for i in sel:
                info = pend[r].pop(i)
                if info["kind"] == "iget":
                    nb = p.s.op("bufchk", ranks=[r], b=info["slot"])
                    vi_, keys = getkeys[i]
                    overlaps = kind != "cancel" and any(j != i and vj == vi_ and (keys & kj) for j, (vj, kj) in getkeys.items())
                    if overlaps:
                        labels.add("overlapping_gets_same_wait")
                    if kind == "cancel":
                        p.check(_chk_untouched(nb, r))
                    elif not info["erange"]:
                        p.check(lambda res, nb=nb, vf=info["verify"], ov=overlaps: _retag(vf(res, nb), ov))
                else:
                    if kind != "cancel":
                        fm.write(info["req"]["var"], info["idx"], info["values"])
                    if info["kind"] == "iput":
                        nb = p.s.op("bufchk", ranks=[r], b=info["slot"], rb=0)
                        p.check(_chk_same(nb, r, kind))
            npend = len(pend[r])
            ni = p.s.op("inq", ranks=[r], f="f0", what="nreqs")
            p.check(_chk_nreqs(ni, r, npend, kind))
            if indep and k > 1:
                p.op("barrier", expect=None)
        if indep:
            p.op("end_indep", step=True, f="f0")
        labels.add("ev_" + kind)
        # make everything visible, then compare the whole file with the model
        p.op("fence", step=True, f="f0")
        nd = p.op("dumpall", step=True, f="f0", data=1, coll=1)
        p.check(lambda res, nd=nd, snap=_snapshot(fm): sum([compare_dump(res.get(nd, r), snap, "dumpall after %s rank %d" % (kind, r)) for r in range(k)], []))
    p.op("buffer_detach", f="f0", what="buffer_detach")
    p.op("close", step=True, f="f0")
    p.op("snapshot", path=hx("t.nc"), to="final", expect=None)
    return p, fm, labels, nontrivial


def _snapshot(fm):
    """frozen copy of the model for a deferred comparison"""
    import copy
    return copy.deepcopy(fm)


def _chk_wait(n, r, nids, exp_st, kind, overlap=False):
    def chk(res):
        e = res.get(n, r)
        out = []
        if e is None or e.get("rc") not in (0, M.E["ERANGE"]):
            return out
        if any(i != -1 for i in e["ids"]):
            out.append({"kind": "ids", "msg": "stmt %d (%s) rank %d: request ids after the call %s, expected all NC_REQ_NULL" % (n, kind, r, e["ids"]), "sig": {"kind": "ids_not_null", "op": kind}})
        if exp_st is not None and (len(e["st"]) != len(exp_st) or any(s not in x for s, x in zip(e["st"], exp_st))):
            out.append({"kind": "status", "msg": "stmt %d (%s) rank %d: statuses %s expected %s" % (n, kind, r, e["st"], [sorted(x) for x in exp_st]), "sig": {"kind": "status_binding", "op": kind, **({"cause": "overlapping_gets_same_wait"} if overlap else {})}})
        return out
    return chk


def _retag(probs, overlapping):
    """a get that overlaps another get completed by the same wait gets its own signature (known finding F04)"""
    if overlapping:
        for pr in probs:
            if pr["kind"] == "value":
                pr["sig"] = {"kind": "value", "cause": "overlapping_gets_same_wait"}
    return probs


def _chk_zero_req(n, r):
    def chk(res):
        e = res.get(n, r)
        if e is not None and e.get("rc") == 0 and e.get("req") != -1:
            return [{"kind": "zeroreq", "msg": "stmt %d rank %d: zero-length nonblocking request returned id %s" % (n, r, e.get("req")), "sig": {"kind": "zero_req_id"}}]
        return []
    return chk


def _chk_untouched(nb, r):
    def chk(res):
        e = res.get(nb, r)
        if e is not None and (e.get("same") == 0 or e.get("guards") == 0):
            return [{"kind": "rbuf", "msg": "stmt %d rank %d: buffer of a cancelled iget was modified" % (nb, r), "sig": {"kind": "cancelled_get_buffer"}}]
        return []
    return chk


def _chk_same(nb, r, kind):
    def chk(res):
        e = res.get(nb, r)
        if e is not None and (e.get("same") == 0 or e.get("guards") == 0):
            return [{"kind": "wbuf", "msg": "stmt %d rank %d: iput buffer differs after %s" % (nb, r, kind), "sig": {"kind": "wbuf_modified", "op": kind}}]
        return []
    return chk


def _chk_nreqs(ni, r, want, kind):
    def chk(res):
        e = res.get(ni, r)
        if e is None or e.get("rc") != 0:
            return [{"kind": "rc", "msg": "inq_nreqs failed", "sig": {"kind": "inq_nreqs_rc"}}]
        if e["r"][0] != want:
            return [{"kind": "nreqs", "msg": "stmt %d rank %d: inq_nreqs %d after %s, model has %d pending" % (ni, r, e["r"][0], kind, want), "sig": {"kind": "nreqs", "op": kind}}]
        return []
    return chk


def run_case(ctx, case):
    p, fm, labels, nontrivial = build(case)
    pool = ctx.pool("asan", nprocs=4 if case["k"] <= 4 else 8)
    res, d = pool.run(p.s, keepdir=True)
    try:
        probs = p.evaluate(res)
        if not probs:
            probs += decode_compare(os.path.join(d, "final"), fm, "independent decode of closed file")
    finally:
        import shutil
        shutil.rmtree(d, ignore_errors=True)
    ctx.count(*labels)
    if nontrivial:
        ctx.nontrivial(runner.case_hash(case))
    ctx.sample({"k": case["k"], "schema": case["schema"], "script_head": p.s.lines[:40]})
    return probs


def case_script(case):
    return build(case)[0].s.text("<dir>")[0]


def campaign(ctx):
    n = {"quick": 800, "thorough": 5000}[ctx.tier]
    runner.run_hypothesis(ctx, case_strategy(ctx.tier), runner.guarded(run_case), n)


if __name__ == "__main__":
    runner.main("checks.c02", PROP, default_workers=6, nt_floor=20)
