#!/usr/bin/env python3-vt
"""C07 - metadata and namespace operations behave like a sequential model."""
import os, sys, shutil, collections
sys.path.insert(0, os.path.dirname(os.path.dirname(os.path.abspath(__file__))))
import numpy as np
from hypothesis import strategies as st
from pv import model as M
from pv import schema as S
from pv.schema import nfc, hexb, E
from pv.prog import Prog
from pv.pool import hx
from pv import runner

PROP = "C07"
RULE = ("Hypothesis-generated histories (6-36 steps quick, 6-60 thorough; k=1, in thorough 15% k=2) of def_dim/def_var/put_att (all external types legal for the format, all 13 "
        "memory-type APIs, 0-20 elements, overwrite smaller/equal/larger with type change)/get_att/rename_dim/rename_var/rename_att/"
        "copy_att (self, other variable, global<->variable, second open file)/del_att/inq_*id lookups by normalised and un-normalised "
        "spellings, interleaved with enddef/redef/close+open(rw|ro), on CDF-1/2/5 files created and re-opened with nc_hash_size_* hints "
        "1,2,3,8,64,256 or default; names from families engineered to share Bernstein hash keys at table size 256, to be NFC-equal with "
        "different bytes, to have 1/255/256 bytes and shared prefixes; ~15% of the operations are deliberately invalid and their "
        "documented error code is asserted. Oracle: after EVERY step a full inquiry dump of the touched file (counts, order, ids, "
        "NFC names, types, lengths, attribute values, inq_dimid/varid/attid of each reported name == position) is compared with the "
        "sequential model pv/schema.py; after every successful data-mode rename/put_att/copy_att the file bytes (copied without sync) are "
        "decoded by pv/cdfspec.py and must show the new header; after the final close the file is decoded and re-opened read-only and "
        "dumped again. Non-trivial = a successful rename or del_att whose object shares its hash bucket (old or new name, table size "
        "in effect) with another object of the same table, or that is spelled with a non-NFC byte string, followed by at least one "
        "explicit lookup/get_att and one explicit close+reopen; distinct = distinct case hash.")
ASSUMPTIONS = ["names use code points assigned before Unicode 5.0 (Latin, Greek, Cyrillic, combining marks U+0300-036F, Hangul, CJK) so "
               "Python's unicodedata NFC and the bundled utf8proc agree",
               "the attribute name _FillValue (extra type/length/ELATEFILL rules) is excluded from the name pool",
               "attribute values are drawn inside the common range of memory and external type (range errors belong to C09)",
               "copy_att of a CDF-5-only type into a CDF-1/2 file must be refused like the corresponding put_att (NC_ESTRICTCDF2): anything else leaves a file that is not of its declared version",
               "error codes are asserted only for the conditions listed in pv/schema.py (man page, pnetcdf.h comments, check_name.c); "
               "when several conditions apply any of their codes is accepted",
               "k=2 histories execute every (collective) metadata call with identical arguments on both ranks"]

XT_NUM = [1, 3, 4, 5, 6, 7, 8, 9, 10, 11]
HS_CHOICES = [None, 1, 2, 3, 8, 64, 256]
CAP = 256          # get_att user buffer: 20 elements * 8 bytes plus slack that must stay untouched


# ------------------------------------------------------------------ name pool
def _u(s):
    return s.encode("utf-8")


def _hash_families():
    """families of names whose normalised forms share the Bernstein key at table size 256 (hence also at 64 and 8)"""
    fams = []
    for prefix in (b"h", _u("\u0436"), b"q_"):
        groups = {}
        for i in range(4000):
            nm = prefix + str(i).encode()
            groups.setdefault(S.bernstein(nfc(nm), 256), []).append(nm)
        n = 0
        for key in sorted(groups):
            g = groups[key]
            if len(g) >= 5:
                fams.append(g[:5])
                n += 1
                if n == 2:
                    break
    return fams


def _anchor_family(variants):
    """spellings of one NFC name plus ASCII names that collide (size 256) with the normalised form and with the raw forms"""
    out = list(variants)
    want = {S.bernstein(nfc(variants[0]), 256)} | {S.bernstein(v, 256) for v in variants}
    got = {}
    for i in range(20000):
        nm = b"k" + str(i).encode()
        key = S.bernstein(nm, 256)
        if key in want and got.get(key, 0) < 2:
            got[key] = got.get(key, 0) + 1
            out.append(nm)
        if sum(got.values()) >= 2 * len(want):
            break
    return out


FAMILIES = [
    [b"a", b"b", b"x", b"Z", b"_", b"0", b"a b", b"t.1", b"a-b+c", b"v@(1)"],
    [b"t", b"te", b"tem", b"temp", b"tempe", b"temper", b"temperature", b"temperature_2"],
    [b"a" * 256, b"a" * 255 + b"b", b"a" * 255, _u("\u00e9") * 128, b"a" * 254 + _u("\u00e9"), b"b" + b"a" * 255, b"a" * 128, b"c"],
    # e + combining acute == U+00E9
    _anchor_family([_u("e\u0301"), _u("\u00e9")]) + [_u("xe\u0301"), _u("x\u00e9"), _u("e\u0301e"), b"e"],
    # A + ring above == U+00C5 == ANGSTROM SIGN U+212B
    _anchor_family([_u("A\u030a"), _u("\u00c5"), _u("\u212b")]) + [b"A", _u("A\u030ab"), _u("\u00c5b")],
    # Hangul jamo L+V == syllable LV; LV+T == LVT
    [_u("\u1100\u1161"), _u("\uac00"), _u("\u1100\u1161\u11a8"), _u("\uac01"), _u("\uac00\u11a8"), _u("\u1100")],
    # Greek alpha + tonos == U+03AC == U+1F71 (oxia)
    [_u("\u03b1\u0301"), _u("\u03ac"), _u("\u1f71"), _u("\u03b1"), _u("\u03b1\u03b2"), _u("\u03b1\u0301\u03b2"), _u("\u03ac\u03b2")],
    # Cyrillic i + breve == short i
    _anchor_family([_u("\u0438\u0306"), _u("\u0439")]) + [_u("\u0438"), _u("\u0434\u0438\u0306"), _u("\u0434\u0439")],
    # two combining marks in either order (canonical reordering) == U+1EAD
    [_u("a\u0323\u0302"), _u("a\u0302\u0323"), _u("\u1ead"), _u("\u1ea1\u0302"), _u("\u00e2\u0323"), _u("\u1ea1"), _u("a\u0323")],
    # CJK compatibility ideograph U+F900 == U+8C48
    [_u("\uf900"), _u("\u8c48"), _u("\u4e2d\u6587"), _u("\u4e2d"), _u("\u6587\u4e2d"), _u("\uf900\u4e2d"), _u("\u8c48\u4e2d")],
] + _hash_families()

# names that must be rejected (check_name.c syntax comment; dispatcher "name cannot be NULL or NULL string"; NC_EMAXNAME)
INVALID = [b"", b"/abc", b"a/b", b"ab ", b"a\x01b", b"a\x7fb", b"a\xffb", b"\xc3", b"\xe9t\xe9", b"-x", b".a", b"a" * 257,
           _u("\u00e9") * 129, b"a\n"]
assert all(S.name_errs(n) for n in INVALID)
assert all(not S.name_errs(n) and len(nfc(n)) <= 256 for fam in FAMILIES for n in fam)
assert all(b"_FillValue" != n for fam in FAMILIES for n in fam)


# ------------------------------------------------------------------ generator
def pick(draw, seq):
    return seq[draw(st.integers(0, len(seq) - 1))]


def roll(draw):
    """0..99; Hypothesis favours the bounds of an integer range (and shrinks towards 0), so the range is rotated to
    make the favoured values select the common, valid branches and not the rare deliberately-invalid ones"""
    return (draw(st.integers(0, 99)) + 63) % 100


def chance(draw, pct):
    return roll(draw) < pct


KINDS = ([["def_dim"] * 6, ["def_var"] * 6, ["put_att"] * 22, ["get_att"] * 7, ["rename_dim"] * 7, ["rename_var"] * 7,
          ["rename_att"] * 11, ["copy_att"] * 8, ["del_att"] * 9, ["lookup"] * 9, ["mode"] * 7, ["reopen"] * 4])
KIND_LIST = [k for ks in KINDS for k in ks]
DATA_OK = ["put_att", "get_att", "rename_dim", "rename_var", "rename_att", "copy_att", "lookup", "mode"]


class Gen:
    def __init__(self, draw, m, pool, fmt):
        self.draw = draw
        self.m = m
        self.pool = pool            # [(raw, nfc)]
        self.fmt = fmt
        self.ctr = 0
        self.legal_xt = list(range(1, 7)) if fmt != 5 else list(range(1, 12))       # replaced per operation by the file's own set

    # -- names
    def spelling(self, nname):
        """some spelling (pool entry) of a normalised name"""
        sp = [r for r, n in self.pool if n == nname] or [nname]
        return pick(self.draw, sp)

    def new_name(self, used, maxlen=None, own=None, p_bad=3, p_inuse=7, p_own=3):
        d = self.draw
        r = roll(d)
        if r < p_bad:
            return pick(d, INVALID)
        r -= p_bad
        others = sorted(u for u in used if u != own)
        if r < p_inuse and others:
            return self.spelling(pick(d, others))
        r -= p_inuse
        if r < p_own and own is not None:
            return self.spelling(own)
        cands = [raw for raw, n in self.pool if n not in used and (maxlen is None or len(raw) <= maxlen)]
        if not cands:
            cands = [raw for raw, n in self.pool if n not in used]
        if not cands:
            self.ctr += 1
            return b"n%d" % self.ctr
        return pick(d, cands)

    def any_name(self):
        return pick(self.draw, self.pool)[0]

    # -- targets
    def var_target(self, f, p_bad=2):
        """varid for an attribute call: -1 global, a variable, rarely an invalid id"""
        d = self.draw
        if chance(d, p_bad):
            return len(f.vars) + d(st.integers(0, 2))
        fv = getattr(self, "focus_v", None)
        if fv is not None and (fv == -1 or fv < len(f.vars)) and chance(d, 55):
            return fv            # one attribute list collects most operations (long lists, many ids, shared buckets)
        if not f.vars or chance(d, 40):
            return -1
        return d(st.integers(0, len(f.vars) - 1))

    def att_target(self, f, need=True):
        """(varid, AttS) of an existing attribute, preferring lists with several attributes; None if there is none"""
        lists = [(-1, f.gatts)] + [(i, v.atts) for i, v in enumerate(f.vars)]
        lists = [(v, l) for v, l in lists if l]
        if not lists:
            return None
        fv = getattr(self, "focus_v", None)
        foc = [(v, l) for v, l in lists if v == fv]
        v, l = foc[0] if (foc and chance(self.draw, 60)) else pick(self.draw, lists)
        return v, pick(self.draw, l)

    # -- attribute payload
    def payload(self, xt, nmax=20, n=None):
        d = self.draw
        if n is None:
            n = d(st.integers(0, nmax)) if not chance(d, 15) else min(nmax, d(st.sampled_from([0, 1, 2, 3, 4, 5, 20])))
        if xt == M.NC_CHAR:
            if chance(d, 6):
                mt = d(st.sampled_from(["schar", "int", "double", "uchar"]))      # NC_ECHAR
                return {"xt": xt, "mt": mt, "vals": [1] * n}
            mt = "text" if chance(d, 75) else "flex"
            return {"xt": xt, "mt": mt, "text": d(st.binary(min_size=n, max_size=n)).hex()}
        mt = d(st.sampled_from(M.MT_NUMERIC + ["flex", "flex"])) if not chance(d, 25) else M.XT_NATIVE_MT.get(xt, "int")
        signed = xt in S.SIGNED_XT and (mt == "flex" or np.dtype(M.MT_DTYPE[mt]).kind != "u")
        vals = d(st.lists(st.integers(-100 if signed else 0, 100), min_size=n, max_size=n))
        if xt in (M.NC_FLOAT, M.NC_DOUBLE) and mt in ("float", "double", "flex") and chance(d, 30):
            vals = [v / 4 for v in vals]
        return {"xt": xt, "mt": mt, "vals": vals}

    # -- one operation on file index fi; returns op dict or None
    def op(self, kind, fi):
        d, m = self.draw, self.m
        f = m.files[fi]
        data = (not f.indef) and not f.ro
        if kind == "def_dim":
            used = {n for n, _ in f.dims}
            ln = d(st.integers(1, 4)) if (f.recdim() >= 0 and not chance(d, 5)) or chance(d, 70) else 0
            return {"op": "def_dim", "f": fi, "name": self.new_name(used, p_own=0).hex(), "len": ln}
        if kind == "def_var":
            used = {v.name for v in f.vars}
            r = roll(d)
            xt = pick(d, self.legal_xt) if r >= 3 else d(st.sampled_from([0, 12, 7 if self.fmt != 5 else 99]))
            nd = d(st.integers(0, min(3, len(f.dims)))) if f.dims else 0
            fixed = [i for i, (_, l) in enumerate(f.dims) if l != 0]
            dims = [pick(d, fixed) for _ in range(nd)] if fixed else []
            rd = f.recdim()
            if rd >= 0 and chance(d, 35):
                dims = [rd] + dims[:2]
                if len(dims) > 1 and chance(d, 6):
                    dims = dims[1:] + [rd]                # NC_EUNLIMPOS
            if chance(d, 3):
                dims = dims + [len(f.dims) + d(st.integers(0, 1))]   # NC_EBADDIM
            return {"op": "def_var", "f": fi, "name": self.new_name(used, p_own=0).hex(), "xt": xt, "dims": dims}
        if kind in ("rename_dim", "rename_var"):
            isdim = kind == "rename_dim"
            names = [n for n, _ in f.dims] if isdim else [v.name for v in f.vars]
            if not names:
                return None
            if chance(d, 3):
                i = len(names) + d(st.integers(0, 1))
                return {"op": kind, "f": fi, "id": i, "name": self.any_name().hex()}
            i = d(st.integers(0, len(names) - 1))
            maxlen = len(names[i]) if data and chance(d, 85) else None
            return {"op": kind, "f": fi, "id": i, "name": self.new_name(set(names), maxlen=maxlen, own=names[i]).hex()}
        if kind == "rename_att":
            t = self.att_target(f)
            if t is None and chance(d, 70):
                return None
            if t is None or chance(d, 3):
                return {"op": kind, "f": fi, "v": self.var_target(f), "name": self.any_name().hex(), "new": self.any_name().hex()}
            v, a = t
            lst = f.attlist(v)
            maxlen = len(a.name) if data and chance(d, 85) else None
            new = self.new_name({x.name for x in lst}, maxlen=maxlen, own=a.name)
            return {"op": kind, "f": fi, "v": v, "name": self.spelling(a.name).hex(), "new": new.hex()}
        if kind == "put_att":
            t = self.att_target(f)
            if t is None and data and chance(d, 85):
                return {"op": "redef", "f": fi}
            overwrite = t is not None and chance(d, 93 if data else 40)
            if overwrite:
                v, a = t
                nm = self.spelling(a.name)
                xt = a.xt if chance(d, 65) else pick(d, self.legal_xt)
                if data and chance(d, 90):           # same or smaller space
                    nmax = a.raw_size() // M.XT_SIZE[xt]
                    n = d(st.integers(0, min(20, nmax)))
                    if chance(d, 50):
                        n = min(20, nmax)
                    pl = self.payload(xt, n=n)
                else:
                    pl = self.payload(xt)
            else:
                v = self.var_target(f)
                lst = f.attlist(v)
                nm = self.new_name({x.name for x in lst} if lst is not None else set(), p_inuse=0, p_own=0)
                r = roll(d)
                xt = pick(d, self.legal_xt) if r >= 3 else d(st.sampled_from([0, 12, 7 if self.fmt != 5 else 99]))
                if xt not in M.XT_SIZE:
                    pl = {"xt": xt, "mt": d(st.sampled_from(["int", "flex", "double"])), "vals": [1, 2]}
                else:
                    pl = self.payload(xt)
            o = {"op": "put_att", "f": fi, "v": v, "name": nm.hex()}
            o.update(pl)
            return o
        if kind == "get_att":
            t = self.att_target(f)
            if t is None and chance(d, 70):
                return None
            if t is None or chance(d, 5):
                return {"op": kind, "f": fi, "v": self.var_target(f), "name": self.any_name().hex(), "mt": "int"}
            v, a = t
            if chance(d, 5):
                mt = "text" if a.xt != M.NC_CHAR else "int"          # NC_ECHAR
            elif a.xt == M.NC_CHAR:
                mt = d(st.sampled_from(["text", "flex"]))
            else:
                mt = d(st.sampled_from(M.MT_NUMERIC + ["flex"]))
            return {"op": kind, "f": fi, "v": v, "name": self.spelling(a.name).hex(), "mt": mt}
        if kind == "copy_att":
            t = self.att_target(f)
            f2 = fi
            if len(m.files) > 1 and chance(d, 50):
                f2 = 1 - fi
            g = m.files[f2]
            if t is None and chance(d, 70):
                return None
            if t is None or chance(d, 4):
                return {"op": kind, "f": fi, "v": self.var_target(f), "name": self.any_name().hex(), "f2": f2, "v2": self.var_target(g)}
            v, a = t
            v2 = v if (f2 == fi and chance(d, 15)) else self.var_target(g)
            if chance(d, 45):
                # prefer an overwrite of an existing attribute of the destination (same name; larger, equal or smaller):
                # growth is only legal when the DESTINATION file is in define mode
                cands = []
                for sv, sl in [(-1, f.gatts)] + [(i, x.atts) for i, x in enumerate(f.vars)]:
                    for sa in sl:
                        for dv, dl in [(-1, g.gatts)] + [(i, x.atts) for i, x in enumerate(g.vars)]:
                            if (g is f and dv == sv) or g.find_att(dl, sa.name) < 0:
                                continue
                            cands.append((sv, sa, dv))
                if cands:
                    v, a, v2 = pick(d, cands[:40])
            return {"op": kind, "f": fi, "v": v, "name": self.spelling(a.name).hex(), "f2": f2, "v2": v2}
        if kind == "del_att":
            t = self.att_target(f)
            if t is None and chance(d, 70):
                return None
            if t is None or chance(d, 5):
                return {"op": kind, "f": fi, "v": self.var_target(f), "name": self.any_name().hex()}
            v, a = t
            return {"op": kind, "f": fi, "v": v, "name": self.spelling(a.name).hex()}
        if kind == "lookup":
            what = d(st.sampled_from(["dimid", "varid", "attid", "att"]))
            o = {"op": "lookup", "f": fi, "what": what, "v": -1}
            if what in ("attid", "att"):
                t = self.att_target(f)
                if t is not None and chance(d, 75):
                    o["v"], o["name"] = t[0], self.spelling(t[1].name).hex()
                else:
                    o["v"], o["name"] = self.var_target(f), self.any_name().hex()
                return o
            names = [n for n, _ in f.dims] if what == "dimid" else [v.name for v in f.vars]
            o["name"] = (self.spelling(pick(d, names)) if names and chance(d, 75) else self.any_name()).hex()
            return o
        if kind == "mode":
            want = "enddef" if f.indef else "redef"
            if chance(d, 6):
                want = "redef" if f.indef else "enddef"           # wrong-mode call
            return {"op": want, "f": fi}
        if kind == "reopen":
            return {"op": "reopen", "f": fi, "rw": chance(d, 75), "hs": draw_hs(d)}
        raise ValueError(kind)


def draw_hs(draw):
    if chance(draw, 20):
        return {}
    t = draw(st.tuples(*[st.sampled_from(HS_CHOICES)] * 4))
    return {k: v for k, v in zip(("dim", "var", "gattr", "vattr"), t) if v}


@st.composite
def case_strategy(draw, tier="quick"):
    big = tier == "thorough"
    fmt = draw(st.sampled_from([1, 2, 5, 5]))
    k = 2 if (big and chance(draw, 15)) else 1
    two = chance(draw, 30)
    fam_ids = draw(st.lists(st.integers(0, len(FAMILIES) - 1), min_size=2, max_size=4, unique=True))
    pool, seen = [], set()
    for i in fam_ids:
        for raw in FAMILIES[i]:
            if raw not in seen:
                seen.add(raw)
                pool.append((raw, nfc(raw)))
    hs = [draw_hs(draw) for _ in range(2 if two else 1)]
    # the second file of a two-file history may have another CDF version (copy_att across versions)
    fmts = [fmt, draw(st.sampled_from([1, 2, 5])) if (two and chance(draw, 45)) else fmt][:2 if two else 1]
    m = S.Model(fmt, hs, fmts)
    g = Gen(draw, m, pool, fmt)
    g.focus_v = draw(st.sampled_from([None, -1, -1, 0]))
    nops = draw(st.integers(6, 36 if not big else 60))
    prelude = ["def_dim", "def_dim", "def_var", "def_var", "put_att", "put_att", "put_att"]
    ops = []
    pend = [0, 0]
    after_rename = None
    for i in range(nops):
        fi = 1 if (two and chance(draw, 22)) else 0
        f = m.files[fi]
        g.fmt = f.fmt
        g.legal_xt = list(range(1, 7)) if f.fmt != 5 else list(range(1, 12))
        if i < len(prelude) and chance(draw, 80):
            kind = prelude[i]
        else:
            kind = pick(draw, KIND_LIST)
        if pend[0] == 1 and chance(draw, 30):
            kind, fi = pick(draw, ["lookup", "lookup", "get_att"]), pend[1]
        elif pend[0] == 2 and chance(draw, 25):
            kind, fi = "reopen", pend[1]
        f = m.files[fi]
        if f.ro:
            # a read-only file: mostly inquiries / reopen, sometimes a write that must fail with NC_EPERM
            if kind not in ("get_att", "lookup", "reopen") and chance(draw, 70):
                kind = pick(draw, ["get_att", "lookup", "reopen", "reopen"])
        elif not f.indef and kind in ("def_dim", "def_var", "del_att") and chance(draw, 80):
            kind = pick(draw, DATA_OK)
        op = None
        if after_rename is not None and chance(draw, 50):
            # follow a successful rename_att by deleting ANOTHER attribute of the same list (ids above the deleted one shift
            # down while the renamed entry sits at the end of its bucket), preferably one between the renamed and the last
            rf, rv, rname = after_rename
            lst = m.files[rf].attlist(rv)
            if lst is not None and m.files[rf].indef and not m.files[rf].ro and len(lst) >= 3:
                ri = m.files[rf].find_att(lst, rname)
                mid = [a for j, a in enumerate(lst) if ri >= 0 and ri < j < len(lst) - 1]
                oth = [a for a in lst if a.name != rname]
                a = pick(draw, mid) if mid and chance(draw, 70) else pick(draw, oth)
                op, fi = {"op": "del_att", "f": rf, "v": rv, "name": g.spelling(a.name).hex()}, rf
        after_rename = None
        if op is None:
            op = g.op(kind, fi)
        if op is None:
            continue
        tf = m.files[op.get("f2", op["f"])]
        if op["op"] in ("rename_dim", "rename_var", "rename_att", "put_att", "copy_att") and not tf.indef and not tf.ro:
            op["snap"] = True
        exp = m.expect(op)
        if not exp.must:
            if op["op"] in MUTATORS and (m.bucket_mates(op) or hexb(op.get("new", op["name"])) != nfc(hexb(op.get("new", op["name"])))):
                pend = [1, op["f"]]       # steer towards a lookup and a close+reopen of that file (non-trivial class)
            elif pend[0] == 1 and op["op"] in ("lookup", "get_att"):
                pend[0] = 2
            elif pend[0] == 2 and op["op"] == "reopen":
                pend[0] = 0
            m.apply(op)
            if op["op"] == "rename_att":
                after_rename = (op["f"], op["v"], nfc(hexb(op["new"])))
        ops.append(op)
    return {"fmt": fmt, "fmts": fmts, "k": k, "two": two, "hs": hs, "ops": ops}


# ------------------------------------------------------------------ script
PATHS = ["t.nc", "u.nc"]


def put_att_bytes(op):
    if "text" in op:
        b = hexb(op["text"])
        return len(b), b
    vals = op["vals"]
    if op["mt"] == "flex":
        dt = M.XT_DTYPE.get(op["xt"], "i4")
    else:
        dt = M.MT_DTYPE[op["mt"]]
    return len(vals), np.array(vals, dtype=dt).tobytes()


class Built:
    pass


def build(case):
    k = case["k"]
    p = Prog(k=k)
    nfiles = 2 if case["two"] else 1
    fmts = case.get("fmts") or [case["fmt"]] * nfiles
    ninfo = [0]

    def info_for(hs):
        if not hs:
            return {}
        ninfo[0] += 1
        slot = "i%d" % ninfo[0]
        p.op("info", expect=None, i=slot, **{"h__" + S.HINT[kk]: hx(str(v)) for kk, v in hs.items()})
        return {"info": slot}
    for fi in range(nfiles):
        p.op("create", step=True, f="f%d" % fi, path=hx(PATHS[fi]), mode={1: 0, 2: 0x200, 5: 0x20}[fmts[fi]], **info_for(case["hs"][fi]))
    recs = []
    for i, op in enumerate(case["ops"]):
        kd = op["op"]
        fs = "f%d" % op["f"]
        tgt = op.get("f2", op["f"])
        r = {"n": None, "dump": None, "snap": None}
        if kd == "def_dim":
            r["n"] = p.op("def_dim", step=True, expect=None, f=fs, name=op["name"], len=op["len"])
        elif kd == "def_var":
            r["n"] = p.op("def_var", step=True, expect=None, f=fs, name=op["name"], xt=op["xt"], dims=op["dims"], ndims=len(op["dims"]))
        elif kd in ("rename_dim", "rename_var"):
            r["n"] = p.op(kd, step=True, expect=None, f=fs, v=op["id"], name=op["name"])
        elif kd == "rename_att":
            r["n"] = p.op(kd, step=True, expect=None, f=fs, v=op["v"], name=op["name"], newname=op["new"])
        elif kd == "put_att":
            n, b = put_att_bytes(op)
            r["n"] = p.op(kd, step=True, expect=None, f=fs, v=op["v"], name=op["name"], xt=op["xt"], mt=op["mt"], n_=n, hex=b.hex())
        elif kd == "get_att":
            r["n"] = p.op(kd, expect=None, f=fs, v=op["v"], name=op["name"], mt=op["mt"], cap=CAP)
        elif kd == "copy_att":
            r["n"] = p.op(kd, step=True, expect=None, f=fs, v=op["v"], name=op["name"], f2="f%d" % op["f2"], v2=op["v2"])
        elif kd == "del_att":
            r["n"] = p.op(kd, step=True, expect=None, f=fs, v=op["v"], name=op["name"])
        elif kd == "lookup":
            r["n"] = p.op("inq", expect=None, what_=op["what"], f=fs, v=op["v"], name=op["name"])
        elif kd in ("enddef", "redef"):
            r["n"] = p.op(kd, step=True, expect=None, f=fs)
        elif kd == "reopen":
            p.op("close", step=True, f=fs, what="close before reopen")
            r["n"] = p.op("open", step=True, expect=None, f=fs, path=hx(PATHS[op["f"]]), mode=1 if op["rw"] else 0, **info_for(op.get("hs")))
        else:
            raise ValueError(kd)
        r["dump"] = p.op("dumpall", expect=None, f="f%d" % tgt, data=0)
        if op.get("snap"):
            r["snap"] = "s%d" % i
            p.op("snapshot", expect=None, path=hx(PATHS[tgt]), to=r["snap"])
        recs.append(r)
    fin = []
    for fi in range(nfiles):
        fs = "f%d" % fi
        d1 = p.op("dumpall", expect=None, f=fs, data=0)
        p.op("close", step=True, f=fs, what="final close")
        p.op("snapshot", expect=None, path=hx(PATHS[fi]), to="final%d" % fi)
        p.op("open", step=True, f=fs, path=hx(PATHS[fi]), mode=0, what="final open")
        d2 = p.op("dumpall", expect=None, f=fs, data=0)
        p.op("close", step=True, f=fs, what="close after final open")
        fin.append((d1, d2))
    b = Built()
    b.p, b.recs, b.fin, b.nfiles = p, recs, fin, nfiles
    return b


# ------------------------------------------------------------------ oracle
def prob(kind, msg, **sig):
    s = {"kind": kind}
    s.update(sig)
    return {"kind": kind, "msg": msg, "sig": s}


def cmp_atts(got, want, where, out, ctxs):
    if len(got) != len(want):
        out.append(prob("att_count", "%s: %s: %d attributes reported, model has %d (%s)" % (
            ctxs, where, len(got), len(want), [a.name for a in want])))
        return
    for j, (ga, a) in enumerate(zip(got, want)):
        w = "%s: %s attribute %d" % (ctxs, where, j)
        if any(ga["e"]):
            out.append(prob("att_inq", "%s (model %r): inq_attname/inq_att/inq_attid returned %s" % (w, a.name, ga["e"])))
            continue
        nm = hexb(ga["name"])
        if nm != a.name:
            out.append(prob("att_name", "%s: name %r, model %r" % (w, nm, a.name)))
            continue
        if ga["id"] != j:
            out.append(prob("att_lookup", "%s %r: inq_attid by name returns %d" % (w, nm, ga["id"])))
        if ga["xt"] != a.xt or ga["len"] != a.nelems():
            out.append(prob("att_type_len", "%s %r: type/len %d/%d, model %d/%d" % (w, nm, ga["xt"], ga["len"], a.xt, a.nelems())))
            continue
        if ga.get("ge") != 0:
            out.append(prob("att_get", "%s %r: get_att returned %s" % (w, nm, ga.get("ge"))))
        elif hexb(ga["val"]) != a.ext_bytes():
            out.append(prob("att_value", "%s %r: value %s, model %s" % (w, nm, ga["val"][:80], a.ext_bytes().hex()[:80])))


def cmp_dump(d, f, ctxs):
    """compare one dumpall record with the model file f"""
    out = []
    if d is None:
        return [prob("nodump", "%s: no dump" % ctxs)]
    if d.get("rc") != 0:
        return [prob("dump_rc", "%s: ncmpi_inq failed rc=%s" % (ctxs, d.get("rc")))]
    if (d["ndims"], d["nvars"], d["ngatts"]) != (len(f.dims), len(f.vars), len(f.gatts)):
        return [prob("counts", "%s: ndims/nvars/ngatts %d/%d/%d, model %d/%d/%d" % (ctxs, d["ndims"], d["nvars"], d["ngatts"],
                                                                                  len(f.dims), len(f.vars), len(f.gatts)))]
    if d["unlim"] != f.recdim():
        out.append(prob("unlimdim", "%s: unlimited dimension id %d, model %d" % (ctxs, d["unlim"], f.recdim())))
    for i, (name, ln) in enumerate(f.dims):
        dd = d["dims"][i]
        nm = hexb(dd["name"])
        if any(dd["e"]):
            out.append(prob("dim_inq", "%s: dim %d (model %r): inq_dim/inq_dimid returned %s" % (ctxs, i, name, dd["e"])))
        elif nm != name or dd["len"] != ln:
            out.append(prob("dim", "%s: dim %d is %r len %d, model %r len %d" % (ctxs, i, nm, dd["len"], name, ln)))
        elif dd["id"] != i:
            out.append(prob("dim_lookup", "%s: inq_dimid(%r) returns %d, the name belongs to dim %d" % (ctxs, nm, dd["id"], i)))
    cmp_atts(d["gatts"], f.gatts, "global", out, ctxs)
    for i, v in enumerate(f.vars):
        dv = d["vars"][i]
        e = dv["e"]
        if len(e) < 2 or e[0] != 0 or e[1] != 0:
            out.append(prob("var_inq", "%s: var %d (model %r): inq_var/inq_varid returned %s" % (ctxs, i, v.name, e)))
            continue
        nm = hexb(dv["name"])
        if nm != v.name or dv["xt"] != v.xt or dv["dimids"] != v.dimids:
            out.append(prob("var", "%s: var %d is %r xt %d dimids %s, model %r xt %d dimids %s" % (ctxs, i, nm, dv["xt"], dv["dimids"],
                                                                                               v.name, v.xt, v.dimids)))
            continue
        if dv["id"] != i:
            out.append(prob("var_lookup", "%s: inq_varid(%r) returns %d, the name belongs to var %d" % (ctxs, nm, dv["id"], i)))
        cmp_atts(dv["atts"], v.atts, "var %d" % i, out, ctxs)
    return out


def cmp_file(path, f, ctxs):
    """independent decode of the file bytes; header content must equal the model"""
    from pv import cdfspec
    try:
        data = open(path, "rb").read()
    except OSError as e:
        return [prob("nofile", "%s: %s" % (ctxs, e))]
    try:
        cf = cdfspec.decode(data, strict=True)
    except cdfspec.CDFError as e:
        return [prob("file_grammar", "%s: file header violates the format grammar: %s" % (ctxs, e))]
    got, want = cf.logical(), f.logical()
    out = []
    for key in ("version", "numrecs", "dims", "gatts"):
        if got[key] != want[key]:
            out.append(prob("file_" + key, "%s: file has %s = %r, model %r" % (ctxs, key, _short(got[key]), _short(want[key]))))
    if len(got["vars"]) != len(want["vars"]):
        out.append(prob("file_vars", "%s: file has %d variables, model %d" % (ctxs, len(got["vars"]), len(want["vars"]))))
    else:
        for i, (a, b) in enumerate(zip(got["vars"], want["vars"])):
            if a != b:
                out.append(prob("file_var", "%s: file var %d = %r, model %r" % (ctxs, i, _short(a), _short(b))))
    return out


def _short(x):
    s = repr(x)
    return s if len(s) < 400 else s[:400] + "..."


MUTATORS = ("rename_dim", "rename_var", "rename_att", "del_att")


def evaluate(case, b, res, d, labels, opstat):
    """walk the history with the reference model; returns (problems, nontrivial)"""
    k = case["k"]
    probs = b.p.evaluate(res)          # create / close / open return codes
    if probs:
        return probs, False
    m = S.Model(case["fmt"], case["hs"], case.get("fmts"))
    inv = {v: kk for kk, v in E.items()}
    trig = look = reop = False
    for i, (op, r) in enumerate(zip(case["ops"], b.recs)):
        kd = op["op"]
        ctxs = "step %d %s" % (i, describe(op))
        rcs = [res.rc(r["n"], rk) for rk in range(k)]
        if any(x is None for x in rcs):
            return [prob("noresult", "%s: no result record" % ctxs)], False
        if len(set(rcs)) > 1:
            return [prob("rank_rc", "%s: ranks returned different codes %s" % (ctxs, rcs), op=kd)], False
        rc = rcs[0]
        exp = m.expect(op)
        if kd == "reopen":
            if rc != 0:
                return [prob("rc", "%s: open returned %d" % (ctxs, rc), op=kd, rc=rc)], False
        elif not exp.allows(rc):
            return [prob("rc", "%s returned %s (%d); model expects %s" % (ctxs, inv.get(rc, rc), rc, exp if (exp.must or rc == 0) else "success"),
                         op=kd, rc=rc, must=sorted(exp.must))], False
        labels.add("%s_%s" % (kd, "ok" if rc == 0 else "err"))
        opstat["op_%s_%s" % (kd, "ok" if rc == 0 else "err")] += 1
        tf = m.files[op.get("f2", op["f"])]
        if rc == 0:
            for rk in range(k):
                e = res.get(r["n"], rk)
                if kd in ("def_dim", "def_var"):
                    f = m.files[op["f"]]
                    want = len(f.dims) if kd == "def_dim" else len(f.vars)
                    if e.get("id") != want:
                        return [prob("new_id", "%s: returned id %s, model %d" % (ctxs, e.get("id"), want), op=kd)], False
                elif kd == "lookup":
                    want = m.lookup_result(op)
                    if e.get("r") != want:
                        return [prob("lookup", "%s: returned %s, model %s" % (ctxs, e.get("r"), want), op=kd, what=op["what"])], False
                elif kd == "get_att":
                    want, esz = m.get_result(op)
                    got = hexb(e["hex"])
                    if e.get("guards") != 1:
                        return [prob("guard", "%s: guard zone of the user buffer damaged" % ctxs, op=kd)], False
                    if want is not None:
                        if got[:len(want)] != want:
                            return [prob("get_value", "%s: buffer %s, model %s" % (ctxs, got[:len(want)].hex()[:80], want.hex()[:80]), op=kd, mt=op["mt"])], False
                        if got[len(want):] != b"\xcd" * (len(got) - len(want)):
                            return [prob("get_extra", "%s: wrote beyond the %d attribute bytes" % (ctxs, len(want)), op=kd)], False
            if kd in MUTATORS:
                raw = hexb(op["new"] if kd == "rename_att" else op["name"])
                mates = m.bucket_mates(op)
                nonnfc = raw != nfc(raw) or (kd in ("rename_att", "del_att") and hexb(op["name"]) != nfc(hexb(op["name"])))
                if mates:
                    labels.add("mut_in_colliding_bucket")
                if nonnfc:
                    labels.add("mut_non_nfc_spelling")
                if mates or nonnfc:
                    trig, look, reop = True, False, False
            if kd in ("put_att", "copy_att") and hexb(op["name"]) != nfc(hexb(op["name"])):
                labels.add("att_non_nfc_spelling")
            m.apply(op)
            if kd == "reopen":
                labels.add("reopen_rw" if op["rw"] else "reopen_ro")
                reop = reop or trig
        else:
            if rc in exp.must:
                labels.add("err_" + inv.get(rc, str(rc)))
            opstat["operr_%s_%s" % (kd, inv.get(rc, str(rc)))] += 1
        if kd in ("lookup", "get_att"):
            look = look or trig
        # inquiry dump of the touched file on every rank
        for rk in range(k):
            pr = cmp_dump(res.get(r["dump"], rk), tf, "%s; dump on rank %d" % (ctxs, rk))
            if pr:
                return pr, False
        # data-mode update: the header on disk must already show it
        if r["snap"] and rc == 0 and not tf.indef and not tf.ro and kd != "reopen":
            pr = cmp_file(os.path.join(d, r["snap"]), tf, "%s; file bytes right after the data-mode call" % ctxs)
            labels.add("datamode_update_verified")
            if pr:
                for x in pr:
                    x["sig"]["when"] = "datamode"
                return pr, False
    for fi in range(b.nfiles):
        f = m.files[fi]
        d1, d2 = b.fin[fi]
        for rk in range(k):
            pr = cmp_dump(res.get(d1, rk), f, "final dump of file %d before close on rank %d" % (fi, rk))
            pr += cmp_dump(res.get(d2, rk), f, "dump of file %d after close and read-only reopen on rank %d" % (fi, rk))
            if pr:
                return pr, False
        pr = cmp_file(os.path.join(d, "final%d" % fi), f, "file %d decoded after close" % fi)
        if pr:
            return pr, False
    return [], (trig and look and reop)


def describe(op):
    o = {kk: v for kk, v in op.items() if kk not in ("snap", "hs")}
    for kk in ("name", "new"):
        if kk in o:
            b_ = hexb(o[kk])
            o[kk] = repr(b_ if len(b_) <= 24 else b_[:10] + b"..." + b_[-6:] + b"(%d bytes)" % len(b_))
    if "text" in o and len(o["text"]) > 24:
        o["text"] = o["text"][:24] + "..."
    return " ".join("%s=%s" % (kk, v) for kk, v in o.items())


def run_case(ctx, case):
    b = build(case)
    pool = ctx.pool("asan", nprocs=1 if case["k"] == 1 else 2)
    res, d = pool.run(b.p.s, keepdir=True)
    labels = set()
    opstat = collections.Counter()
    try:
        probs, nt = evaluate(case, b, res, d, labels, opstat)
    finally:
        shutil.rmtree(d, ignore_errors=True)
    labels.add("k%d" % case["k"])
    labels.add("fmt%d" % case["fmt"])
    if case["two"]:
        labels.add("two_files")
        if len(set(case.get("fmts") or [0])) > 1:
            labels.add("two_files_different_versions")
    for hs in case["hs"]:
        for kk in ("dim", "var", "gattr", "vattr"):
            labels.add("hs_%s_%s" % (kk, hs.get(kk, "default")))
    ctx.count(*labels)
    ctx.stats.update(opstat)
    ctx.stats["steps_total"] += len(case["ops"])
    if nt and not probs:
        ctx.nontrivial(runner.case_hash(case))
    ctx.sample({"fmt": case["fmt"], "k": case["k"], "hs": case["hs"], "steps": [describe(o) for o in case["ops"][:25]]}, limit=2)
    return probs


def case_script(case):
    return build(case).p.s.text("<dir>")[0]


def campaign(ctx):
    n = {"quick": 1400, "thorough": 7000}[ctx.tier]
    runner.run_hypothesis(ctx, case_strategy(ctx.tier), runner.guarded(run_case), n)


if __name__ == "__main__":
    runner.main("checks.c07", PROP, default_workers=8, nt_floor=40)
