#!/usr/bin/env python3-vt
"""C06 - redefinition preserves existing data; abort is all-or-nothing."""
import os, sys, copy, shutil
sys.path.insert(0, os.path.dirname(os.path.dirname(os.path.abspath(__file__))))
import numpy as np
from hypothesis import strategies as st
from pv import model as M, gen as G
from pv.prog import Prog
from pv.pool import hx
from pv import runner
from pv.common import compare_dump, decode_compare

PROP = "C06"
RULE = ("Hypothesis-generated histories: an existing file (CDF-1/2/5, 1-4 fixed and 0-3 record variables in any definition order, "
        "1 byte .. ~70 KB each with byte counts mostly not divisible by the process count, numrecs 0..6, initial alignment through "
        "nc_header/var/record_align_size hints and/or ncmpi__enddef arguments, optional PNETCDF_SAFE_MODE) completely written with "
        "position-dependent bit patterns (collective writes split among k=1..4 ranks, by one rank with zero-size peers, or independent), "
        "then 1-4 redefinitions, each a list of 0-3 deltas (attribute of 20 B .. 70 KB on the file or a variable, attribute "
        "overwrite/delete, new dimension, new fixed variable, new record variable incl. the 0->1 and 1->2 record-variable transitions "
        "with unpadded record sizes, set_fill, def_var_fill default/own value/nofill) finished by enddef, ncmpi__enddef(h_minfree, "
        "v_align, v_minfree, r_align), close-in-define-mode or abort, with close/reopen (other hints, all ranks or MPI_COMM_SELF) and "
        "writes to old and new variables (sub-boxes, appended records) in between; plus create+definitions+abort histories. Oracle: "
        "after every enddef/close/abort+reopen a full dump (all metadata, attributes, all data through get_var_all on every rank) is "
        "compared with the numpy reference model (every element ever written keeps its last written value, new fixed variables in fill "
        "mode hold their fill value), the file bytes copied at that moment are decoded by the independent codec pv/cdfspec.py and "
        "compared with the same model, again after the final close and read-only reopen; after abort of a redefinition the file bytes "
        "equal the copy taken (after ncmpi_sync) just before ncmpi_redef; after abort of a create the path does not exist on any rank. "
        "Non-trivial = a committed redefinition that moves existing data (inq_varoffset of an existing variable holding data changed, "
        "or inq_recsize changed with >= 2 records present) while numrecs >= 2 or the file is open on >= 2 processes; distinct = "
        "distinct case hash.  A separate small campaign ('big') moves one fixed variable larger than k*MOVE_UNIT (64 MiB) so that "
        "move_file_block runs several rounds.")
ASSUMPTIONS = ["single node, local POSIX file system, OpenMPI 4.1.4 with ROMIO as MPI-IO layer",
               "values are written through the native memory type of each variable (no conversion; conversions belong to C09)",
               "data written by one rank is read/moved by others only after ncmpi_sync/barrier/ncmpi_sync (doc/README.consistency.md)",
               "pre-filling is asserted only for new fixed-size variables (man page 'VARIABLE PREFILLING': record variables are not "
               "prefilled); elements never written and not pre-filled are unknown and never compared",
               "byte identity after abort is relative to a copy taken after ncmpi_sync and a barrier immediately before ncmpi_redef; "
               "ncmpi_redef itself is assumed not to be required to leave the bytes alone only in so far as it does (it writes nothing "
               "in collective data mode)",
               "alignment hints / ncmpi__enddef arguments are non-negative integers; all metadata calls carry identical arguments on all ranks"]

NC_FILL_MODE, NC_NOFILL_MODE = 0, 0x100
MOVE_UNIT = 67108864          # src/drivers/ncmpio/ncmpio_enddef.c
SMALL_XT = [M.NC_BYTE, M.NC_CHAR, M.NC_SHORT]
ALIGN_CHOICES = [0, 0, 1, 4, 6, 10, 512, 1000, 4096]
MINFREE_CHOICES = [0, 0, 0, 1, 3, 37, 100, 2048, 5000, 70000]


# ------------------------------------------------------------------ generator
def nel(shape):
    n = 1
    for s in shape:
        n *= s
    return n


@st.composite
def hints(draw):
    if G.chance(draw, 55):
        return None
    h = {}
    for key in ("nc_header_align_size", "nc_var_align_size", "nc_record_align_size"):
        if G.chance(draw, 45):
            h[key] = draw(st.sampled_from([1, 4, 6, 512, 1000, 4096, 8192]))
    if G.chance(draw, 30):
        h["nc_num_aggrs_per_node"] = draw(st.sampled_from([1, 2]))      # collective writes go through intra-node aggregators
    return h or None


@st.composite
def vardef(draw, fmt, rec, allow_large, k):
    legal = M.XT_CDF12 if fmt != 5 else M.XT_ALL
    xt = draw(st.sampled_from(SMALL_XT + legal)) if G.chance(draw, 60) else draw(st.sampled_from(legal))
    xs = M.XT_SIZE[xt]
    cat = draw(st.sampled_from(["tiny", "tiny", "tiny", "small", "small", "medium"] + (["large", "large"] if allow_large else [])))
    if cat == "tiny":
        n = draw(st.integers(1, 9))
    elif cat == "small":
        n = draw(st.integers(10, 300))
    elif cat == "medium":
        n = draw(st.integers(301, 4000))
    else:
        nbytes = draw(st.integers(3000, 12000)) if rec else draw(st.integers(20000, 70000))
        n = max(1, nbytes // xs)
    if n > 1 and k > 1 and (n * xs) % k == 0 and G.chance(draw, 70):
        n += 1        # force byte counts that the block mover cannot divide evenly among the processes
    ndv = draw(st.sampled_from([0, 1, 1, 1, 1, 2])) if n == 1 else draw(st.sampled_from([1, 1, 1, 2]))
    if ndv == 0:
        shape = []
    elif ndv == 1:
        shape = [n]
    else:
        a = draw(st.integers(1, min(5, n)))
        shape = [a, max(1, n // a)]
    fill = draw(st.sampled_from([None, None, None, "nofill", "default", "default", "value"]))
    if fill == "value":
        fill = ["value", draw(st.integers(1, 100))]
    return {"xt": xt, "rec": bool(rec), "shape": shape, "fill": fill, "large": cat == "large"}


class GS:
    """generator-side shadow of the file: shapes, record count, attribute names, current process count"""

    def __init__(self, k):
        self.k = k
        self.curk = k
        self.vars = []
        self.numrecs = 0
        self.atts = {}       # target (-1 or var index) -> list of names
        self.serial = 0
        self.nlarge = 0

    def clone(self):
        g = GS(self.k)
        g.curk, g.vars, g.numrecs = self.curk, [dict(v) for v in self.vars], self.numrecs
        g.atts = {t: list(n) for t, n in self.atts.items()}
        g.serial, g.nlarge = self.serial, self.nlarge
        return g

    def full_shape(self, vi, ext=0):
        v = self.vars[vi]
        return ([self.numrecs + ext] if v["rec"] else []) + list(v["shape"])


def draw_write(draw, gs, vi, whole, ext=0):
    """a write of one variable: whole variable or a sub-box, decomposed over the ranks that have the file open"""
    shape = gs.full_shape(vi, ext)
    nd = len(shape)
    if any(s == 0 for s in shape):
        return None
    if whole:
        start, count = [0] * nd, list(shape)
    else:
        start, count, _ = draw(G.box(shape, allow_zero=False, stride=False))
    curk = gs.curk
    if curk == 1:
        wmode = "one"
    elif nd == 0:
        wmode = "indep"
    else:
        wmode = draw(st.sampled_from(["split", "split", "split", "one", "indep"]))
    w = {"var": vi, "start": start, "count": count, "seed": draw(st.integers(0, 9999)), "wmode": wmode,
         "rank": draw(st.integers(0, curk - 1))}
    if wmode == "split":
        parts = G.split_box(draw, start, count, [1] * nd, curk, p_empty=15)
        w["parts"] = [[list(pt[0]), list(pt[1])] for pt in parts]
    if gs.vars[vi]["rec"]:
        gs.numrecs = max(gs.numrecs, start[0] + count[0])
    return w


@st.composite
def enddef_args(draw):
    return [draw(st.sampled_from(MINFREE_CHOICES)), draw(st.sampled_from(ALIGN_CHOICES)),
            draw(st.sampled_from(MINFREE_CHOICES[:-1])), draw(st.sampled_from(ALIGN_CHOICES))]


def draw_delta(draw, gs, fmt, kind):
    if kind in ("att_small", "att_big", "att_over"):
        targets = [-1] + list(range(len(gs.vars)))
        tg = draw(st.sampled_from(targets)) if G.chance(draw, 50) else -1
        names = [n for n in gs.atts.get(tg, [])]
        if kind == "att_over" and names:
            name = draw(st.sampled_from(names))
        else:
            gs.serial += 1
            name = "a%d" % gs.serial
            gs.atts.setdefault(tg, []).append(name)
        if kind == "att_big":
            n = draw(st.integers(65537, 70000))
        else:
            n = draw(st.sampled_from([1, 20, 64, 200, 500, 513, 1100, 3000]))
        num = G.chance(draw, 30)
        return {"d": "att", "var": tg, "name": name, "n": n // 4 + 1 if num else n, "num": num, "seed": draw(st.integers(0, 255))}
    if kind == "del_att":
        cands = [(t, n) for t, ns in gs.atts.items() for n in ns]
        if not cands:
            return None
        t, n = draw(st.sampled_from(cands))
        gs.atts[t].remove(n)
        return {"d": "del_att", "var": t, "name": n}
    if kind == "dim":
        gs.serial += 1
        return {"d": "dim", "name": "x%d" % gs.serial, "len": draw(st.integers(1, 1000))}
    if kind == "set_fill":
        return {"d": "set_fill", "mode": draw(st.sampled_from([NC_FILL_MODE, NC_FILL_MODE, NC_NOFILL_MODE]))}
    if kind in ("fixvar", "recvar"):
        v = draw(vardef(fmt, kind == "recvar", gs.nlarge < 3, gs.k))
        if v["large"]:
            gs.nlarge += 1
        gs.vars.append({"rec": v["rec"], "shape": v["shape"]})
        return dict(v, d="var")
    raise ValueError(kind)


DELTA_KINDS = ["att_small", "att_small", "att_big", "att_over", "del_att", "dim", "set_fill",
               "fixvar", "fixvar", "fixvar", "recvar", "recvar", "recvar"]


@st.composite
def case_strategy(draw, tier="quick"):
    big = tier == "thorough"
    k = draw(st.sampled_from([1, 2, 2, 3, 3, 4, 4]))
    fmt = draw(st.sampled_from([1, 2, 5]))
    gs = GS(k)
    case = {"k": k, "fmt": fmt, "safe": G.chance(draw, 25), "info": draw(hints())}
    # optional prelude: create + definitions + abort on another path
    if G.chance(draw, 30):
        g2 = GS(k)
        defs = []
        for _ in range(draw(st.integers(0, 4))):
            dl = draw_delta(draw, g2, fmt, draw(st.sampled_from(["att_small", "dim", "fixvar", "recvar", "set_fill"])))
            if dl and dl.get("large"):
                dl["shape"] = [7]
            defs.append(dl)
        case["abort_create"] = {"preexisting": G.chance(draw, 40), "defs": defs, "info": draw(hints())}
    else:
        case["abort_create"] = None
    # ---- existing layout
    nfix = draw(st.integers(1, 4))
    nrec = draw(st.sampled_from([0, 1, 1, 1, 2, 2, 3]))
    order = list(draw(st.permutations(["f"] * nfix + ["r"] * nrec)))
    vars_ = []
    for o in order:
        v = draw(vardef(fmt, o == "r", gs.nlarge < 2, k))
        if v["large"]:
            gs.nlarge += 1
        v["fill"] = None if v["fill"] in (None, "nofill") else v["fill"]
        vars_.append(v)
        gs.vars.append({"rec": v["rec"], "shape": v["shape"]})
    case["vars"] = vars_
    case["recdim"] = nrec > 0 or G.chance(draw, 35)
    case["enddef0"] = draw(enddef_args()) if G.chance(draw, 45) else None
    gs.numrecs = draw(st.integers(0, 6)) if nrec else 0
    case["numrecs"] = gs.numrecs
    init = []
    for vi in draw(st.permutations(range(len(vars_)))):
        w = draw_write(draw, gs, vi, whole=True)
        if w:
            init.append(w)
    case["init"] = init
    # ---- redefinitions
    steps = []
    for _ in range(draw(st.integers(1, 4 if not big else 6))):
        if G.chance(draw, 18):
            k1 = k > 1 and G.chance(draw, 35)
            steps.append({"op": "reopen", "k1": k1, "info": draw(hints())})
            gs.curk = 1 if k1 else k
        saved = gs.clone()
        nvold = len(gs.vars)
        deltas = []
        for _ in range(draw(st.sampled_from([0, 1, 1, 1, 2, 2, 3]))):
            dl = draw_delta(draw, gs, fmt, draw(st.sampled_from(DELTA_KINDS)))
            if dl:
                deltas.append(dl)
        finish = draw(st.sampled_from(["enddef", "enddef", "enddef", "enddef", "_enddef", "_enddef", "_enddef", "abort", "abort", "close"]))
        stp = {"op": "redef", "deltas": deltas, "finish": finish}
        if finish == "_enddef":
            stp["args"] = draw(enddef_args())
        if finish == "abort":
            gs = saved
        if finish in ("abort", "close"):
            k1 = k > 1 and G.chance(draw, 25)
            stp["reopen"] = {"k1": k1, "info": draw(hints())}
            gs.curk = 1 if k1 else k
        post = []
        if gs.vars:
            for _ in range(draw(st.integers(0, 3))):
                newv = list(range(nvold, len(gs.vars)))
                vi = draw(st.sampled_from(newv)) if newv and G.chance(draw, 60) else draw(st.integers(0, len(gs.vars) - 1))
                ext = draw(st.sampled_from([0, 0, 1, 2])) if gs.vars[vi]["rec"] and gs.numrecs < 10 else 0
                w = draw_write(draw, gs, vi, whole=G.chance(draw, 45), ext=ext)
                if w:
                    post.append(w)
        stp["post"] = post
        # a last write in independent data mode by one rank that extends the record dimension; when the next step is a
        # redefinition it is entered straight from independent mode (per-rank record counts differ at that moment)
        recs = [i for i, v in enumerate(gs.vars) if v["rec"]]
        if recs and gs.curk > 1 and gs.numrecs < 10 and G.chance(draw, 30):
            w = draw_write(draw, gs, draw(st.sampled_from(recs)), whole=False, ext=draw(st.sampled_from([1, 2])))
            if w:
                w["wmode"] = "indep"
                stp["tail_indep"] = w
        steps.append(stp)
    case["steps"] = steps
    return case


# ------------------------------------------------------------------ model helpers
def att_bytes(dl):
    """(xt, nelems, native-endian value bytes, memory type) of an attribute delta"""
    n, seed = dl["n"], dl["seed"]
    if dl["num"]:
        a = ((np.arange(n, dtype=np.int64) * 2654435761 + seed * 977) % 2000000011 - 1000000000).astype(np.int32)
        return M.NC_INT, n, a.tobytes(), "int"
    a = ((np.arange(n, dtype=np.int64) * 31 + seed) % 95 + 32).astype(np.uint8)
    return M.NC_CHAR, n, a.tobytes(), "text"


def fill_value(xt, fill):
    if fill == "default":
        return np.array(M.NC_FILL[xt]).astype(M.XT_DTYPE[xt])
    return np.array(fill[1]).astype(M.XT_DTYPE[xt])


def set_att(lst, name, xt, n, val):
    for i, a in enumerate(lst):
        if a[0] == name:
            lst[i] = (name, xt, n, val)
            return
    lst.append((name, xt, n, val))


def check_atts(d, fmc, what):
    out = []
    if d is None or d.get("rc") != 0 or d.get("nvars") != len(fmc.vars):
        return out

    def cmp(lst, want, where):
        if len(lst) != len(want):
            out.append({"kind": "meta", "msg": "%s: %s has %d attributes, model %d" % (what, where, len(lst), len(want)), "sig": {"kind": "att_count"}})
            return
        for a, (name, xt, n, val) in zip(lst, want):
            if any(a["e"]) or bytes.fromhex(a["name"]) != name.encode() or a["xt"] != xt or a["len"] != n or a.get("ge") != 0 or bytes.fromhex(a.get("val", "")) != val:
                out.append({"kind": "meta", "msg": "%s: %s attribute %r differs from the model (xt %s len %s)" % (what, where, name, a["xt"], a["len"]), "sig": {"kind": "att_value"}})
                return
    cmp(d["gatts"], fmc.gatts, "file")
    for vi, v in enumerate(fmc.vars):
        cmp(d["vars"][vi]["atts"], v.atts, "var %d" % vi)
    return out


def layout_of(d):
    return {"off": [v["off"] for v in d["vars"]], "recsize": d["recsize"], "hext": d["hext"], "hsize": d["hsize"], "numrecs": max(d["numrecs"], 0)}


# ------------------------------------------------------------------ program builder
class Builder:
    def __init__(self, case):
        self.case = case
        self.k = case["k"]
        self.p = Prog(k=self.k)
        self.fm = M.FileM(case["fmt"])
        self.curk = self.k
        self.path = "t.nc"
        self.file_fill = False
        self.explicit_fill = {}     # var index -> fill spec decided by def_var_fill / dataset mode at definition time
        self.session_first = 0      # index of the first variable defined in the current define-mode session
        self.labels = set(["k%d" % self.k, "fmt%d" % case["fmt"]])
        self.observations = []      # (stmt of dumpall, kind, info) for the post-run classification
        self.snap_checks = []       # (snapshot name, model copy, what)
        self.abort_pairs = []       # (pre name, post name, what)
        self.nsnap = 0
        self.ninfo = 0

    # -- small helpers
    def ranks(self):
        return list(range(self.curk))

    def op(self, _op, **kw):
        return self.p.op(_op, ranks=self.ranks(), step=(self.curk == self.k), **kw)

    def info_slot(self, h):
        if not h:
            return {}
        self.ninfo += 1
        slot = "i%d" % self.ninfo
        self.p.s.op("info", i=slot, **{"h__" + key: hx(str(val)) for key, val in h.items()})
        self.labels.add("hints")
        return {"info": slot}

    def open(self, rw=True, k1=False, info=None):
        self.curk = 1 if (k1 and self.k > 1) else self.k
        kw = self.info_slot(info)
        if self.curk == 1 and self.k > 1:
            kw["comm"] = "self"
            self.labels.add("reopen_comm_self")
        self.op("open", f="f0", path=hx(self.path), mode=1 if rw else 0, **kw)
        self.file_fill = False

    def fence(self):
        if self.curk == self.k:
            self.p.op("fence", step=True, f="f0")
        else:
            self.op("sync", f="f0")

    def snapshot(self, name):
        self.p.s.op("snapshot", path=hx(self.path), to=name)

    # -- definitions
    def recdim(self):
        rd = self.fm.recdim()
        if rd < 0:
            self.op("def_dim", f="f0", name=hx("rec"), len=0)
            self.fm.dims.append(("rec", 0))
            rd = len(self.fm.dims) - 1
        return rd

    def def_var(self, v):
        fm = self.fm
        vi = len(fm.vars)
        dimids = [self.recdim()] if v["rec"] else []
        for j, l in enumerate(v["shape"]):
            name = "d%d_%d" % (vi, j)
            self.op("def_dim", f="f0", name=hx(name), len=l)
            fm.dims.append((name, l))
            dimids.append(len(fm.dims) - 1)
        n = self.op("def_var", f="f0", name=hx("v%d" % vi), xt=v["xt"], dims=dimids, ndims=len(dimids))
        self.expect_id(n, vi)
        fm.add_var("v%d" % vi, v["xt"], dimids)
        spec = v.get("fill")
        eff = "default" if self.file_fill else None
        if spec == "nofill":
            self.op("def_var_fill", f="f0", v=vi, nofill=1)
            eff = None
        elif spec == "default":
            self.op("def_var_fill", f="f0", v=vi, nofill=0)
            eff = "default"
        elif isinstance(spec, list):
            fv = fill_value(v["xt"], spec)
            self.op("def_var_fill", f="f0", v=vi, nofill=0, fv=fv.tobytes())
            fm.vars[vi].atts.append(("_FillValue", v["xt"], 1, fv.tobytes()))
            eff = spec
        self.explicit_fill[vi] = eff
        self.labels.add("def_recvar" if v["rec"] else "def_fixvar")
        if eff:
            self.labels.add("fillmode_var")
        return vi

    def expect_id(self, n, want):
        ranks = self.ranks()

        def chk(res):
            for r in ranks:
                e = res.get(n, r)
                if e is not None and e.get("rc") == 0 and e.get("id") != want:
                    return [{"kind": "id", "msg": "stmt %d rank %d: id %s expected %d" % (n, r, e.get("id"), want), "sig": {"kind": "id"}}]
            return []
        self.p.check(chk)

    def delta(self, dl):
        fm = self.fm
        kind = dl["d"]
        if kind == "att":
            tg = dl["var"] if dl["var"] < len(fm.vars) else -1
            xt, n, val, mt = att_bytes(dl)
            self.op("put_att", f="f0", v=tg, name=hx(dl["name"]), xt=xt, mt=mt, n=n, hex=val)
            set_att(fm.gatts if tg < 0 else fm.vars[tg].atts, dl["name"], xt, n, val)
            self.labels.add("att_big" if len(val) > 65536 else "att_small")
        elif kind == "del_att":
            tg = dl["var"] if dl["var"] < len(fm.vars) else -1
            lst = fm.gatts if tg < 0 else fm.vars[tg].atts
            if any(a[0] == dl["name"] for a in lst):
                self.op("del_att", f="f0", v=tg, name=hx(dl["name"]))
                lst[:] = [a for a in lst if a[0] != dl["name"]]
                self.labels.add("del_att")
        elif kind == "dim":
            self.op("def_dim", f="f0", name=hx(dl["name"]), len=dl["len"])
            fm.dims.append((dl["name"], dl["len"]))
            self.labels.add("def_dim")
        elif kind == "set_fill":
            self.op("set_fill", f="f0", mode=dl["mode"])
            self.file_fill = dl["mode"] == NC_FILL_MODE
            # ncmpi_set_fill also overrides the mode of the variables defined so far; what that means for a variable whose
            # mode was chosen with ncmpi_def_var_fill earlier in this session is not documented: such variables are not asserted
            for vi in range(self.session_first, len(fm.vars)):
                self.explicit_fill[vi] = None
            self.labels.add("set_fill")
        elif kind == "var":
            self.def_var(dl)

    def apply_fill(self, first_new):
        """new fixed-size variables in fill mode are pre-filled when define mode is left (man page, VARIABLE PREFILLING)"""
        fm = self.fm
        for vi in range(first_new, len(fm.vars)):
            v = fm.vars[vi]
            eff = self.explicit_fill.get(vi)
            if eff and not fm.is_rec(v):
                v.vals[...] = fill_value(v.xt, eff)
                v.mask[...] = 2
                self.labels.add("prefilled_fixvar")

    # -- data
    def write(self, w, stay=False):
        p, fm, curk = self.p, self.fm, self.curk
        vi = w["var"]
        v = fm.vars[vi]
        mt = M.XT_NATIVE_MT[v.xt]
        nd = len(v.dimids)
        mode = w["wmode"]
        if curk == 1:
            mode = "one"
        elif nd == 0 and mode != "indep":
            mode = "indep"

        def rq(start, count, seed):
            return {"var": vi, "form": "vara", "start": list(start), "count": list(count), "mt": mt, "seed": seed, "vclass": "wild"}
        writer = w["rank"] % curk
        if mode == "indep":
            self.op("begin_indep", f="f0")
            p.put(fm, writer, rq(w["start"], w["count"], w["seed"]), fm.numrecs, coll=False)
            if stay:
                # stay in independent mode: no end_indep, no sync - the next call is ncmpi_redef
                p.op("barrier", expect=None)
                self.labels.add("redef_from_indep_mode")
                return
            self.op("end_indep", f="f0")
            self.labels.add("write_indep")
        else:
            sn = p.s.same_n()
            nz = 0
            for r in range(curk):
                if mode == "split":
                    s, c = w["parts"][r] if r < len(w["parts"]) else (w["start"], [0] * nd)
                else:
                    s, c = (w["start"], w["count"]) if r == writer else ([0] * nd, [0] * nd)
                p.put(fm, r, rq(s, c, w["seed"] * 8 + r), fm.numrecs, coll=True, sn=sn, step=(curk == self.k))
                nz += 1 if nel(c) > 0 and nd > 0 else 0
            self.labels.add("write_split" if nz >= 2 else "write_one_rank")
        self.fence()

    # -- observation points
    def observe(self, what, kind, info=None):
        """full dump on every rank that has the file open + file copy for the independent decoder"""
        p = self.p
        fmc = copy.deepcopy(self.fm)
        ranks = self.ranks()
        nd = self.op("dumpall", f="f0", data=1, coll=1)

        def chk(res):
            out = []
            for r in ranks:
                out += compare_dump(res.get(nd, r), fmc, "%s, rank %d" % (what, r))
                out += check_atts(res.get(nd, r), fmc, "%s, rank %d" % (what, r))
                if out:
                    break
            for o in out:
                o["sig"]["at"] = kind
            return out
        p.check(chk)
        if self.curk > 1 and self.curk == self.k:
            p.op("barrier", expect=None)
        self.nsnap += 1
        nm = "s%d" % self.nsnap
        self.snapshot(nm)
        self.snap_checks.append((nm, fmc, what))
        self.observations.append((nd, kind, dict(info or {}, curk=self.curk)))


def build(case):
    b = Builder(case)
    p, fm, k = b.p, b.fm, b.k
    if case.get("safe"):
        p.s.op("env", **{"e__PNETCDF_SAFE_MODE": hx("1")})
        b.labels.add("safe_mode")
    # ---- prelude: abort of a freshly created file
    ac = case.get("abort_create")
    if ac:
        path2 = "ac.nc"
        if ac["preexisting"]:
            p.s.op("writefile", ranks=[0], path=hx(path2), sentinel=300)
            p.op("barrier", expect=None)
            b.labels.add("abort_create_clobber")
        kw = b.info_slot(ac.get("info"))
        mode = {1: 0, 2: 0x200, 5: 0x20}[case["fmt"]]
        p.op("create", step=True, f="f1", path=hx(path2), mode=mode, **kw)
        tmp = Builder(case)
        tmp.p = p
        tmp.fm = M.FileM(case["fmt"])
        for dl in ac["defs"]:
            if dl is None:
                continue
            # same statements as a redefinition delta, on slot f1
            emit_on_slot(tmp, dl, "f1")
        p.op("abort", step=True, f="f1")
        p.op("barrier", expect=None)
        ne = p.s.op("exists", path=hx(path2))

        def chk_gone(res, ne=ne):
            for r in range(k):
                e = res.get(ne, r)
                if e is None or e.get("exists") != 0:
                    return [{"kind": "abort_create", "msg": "rank %d still sees the file after create + definitions + abort (size %s)" % (r, e and e.get("size")),
                             "sig": {"kind": "abort_create_exists"}}]
            return []
        p.check(chk_gone)
        b.labels.add("abort_create")
    # ---- existing layout
    mode = {1: 0, 2: 0x200, 5: 0x20}[case["fmt"]]
    kw = b.info_slot(case.get("info"))
    p.op("create", step=True, f="f0", path=hx(b.path), mode=mode, **kw)
    if case["recdim"]:
        b.recdim()
    for v in case["vars"]:
        b.def_var(v)
    if case["enddef0"]:
        a = case["enddef0"]
        p.op("_enddef", step=True, f="f0", h_minfree=a[0], v_align=a[1], v_minfree=a[2], r_align=a[3])
        b.labels.add("initial__enddef")
    else:
        p.op("enddef", step=True, f="f0")
    b.apply_fill(0)
    for w in case["init"]:
        b.write(w)
    if any(fm.is_rec(v) for v in fm.vars):
        b.labels.add("nrecvars%d" % sum(1 for v in fm.vars if fm.is_rec(v)))
    b.labels.add("numrecs%s" % (fm.numrecs if fm.numrecs < 2 else "2plus"))
    b.fence()
    b.observe("initial layout", "initial")
    # ---- redefinitions
    for si, stp in enumerate(case["steps"]):
        fm = b.fm
        if stp["op"] == "reopen":
            b.op("close", f="f0")
            b.open(rw=True, k1=stp["k1"], info=stp.get("info"))
            b.labels.add("reopen")
            b.observe("step %d: reopen" % si, "reopen")
            continue
        finish = stp["finish"]
        saved = None
        nvold = len(fm.vars)
        if finish == "abort":
            saved = (copy.deepcopy(fm), dict(b.explicit_fill))
            b.fence()
            b.snapshot("pre%d" % si)
        b.op("redef", f="f0")
        b.session_first = nvold
        for dl in stp["deltas"]:
            b.delta(dl)
        nrec_old = sum(1 for v in fm.vars[:nvold] if fm.is_rec(v))
        nrec_new = sum(1 for v in fm.vars if fm.is_rec(v))
        nfix_new = len(fm.vars) - nvold - (nrec_new - nrec_old)
        info = {"nrec_old": nrec_old, "nrec_new": nrec_new, "nfix_added": nfix_new, "finish": finish, "ndeltas": len(stp["deltas"])}
        if nrec_new > nrec_old:
            b.labels.add("recvars_%s_to_%s" % (min(nrec_old, 2), "1" if nrec_new == 1 else "2plus"))
        if finish == "abort":
            b.op("abort", f="f0")
            b.snapshot("post%d" % si)
            b.abort_pairs.append(("pre%d" % si, "post%d" % si, "step %d: abort of a redefinition with %d deltas" % (si, len(stp["deltas"]))))
            b.fm, b.explicit_fill = saved
            ro = stp.get("reopen") or {}
            b.open(rw=True, k1=ro.get("k1", False), info=ro.get("info"))
            b.labels.add("abort_redef" if stp["deltas"] else "abort_redef_nodelta")
            b.observe("step %d: reopen after abort" % si, "abort")
        else:
            if finish == "enddef":
                b.op("enddef", f="f0")
            elif finish == "_enddef":
                a = stp["args"]
                b.op("_enddef", f="f0", h_minfree=a[0], v_align=a[1], v_minfree=a[2], r_align=a[3])
                b.labels.add("finish__enddef")
            else:
                b.op("close", f="f0")
                ro = stp.get("reopen") or {}
                b.apply_fill(nvold)
                b.open(rw=True, k1=ro.get("k1", False), info=ro.get("info"))
                b.labels.add("finish_close")
            if finish != "close":
                b.apply_fill(nvold)
                b.fence()
            if not stp["deltas"]:
                b.labels.add("redef_nothing")
            b.observe("step %d: after %s" % (si, finish), "enddef", info)
        for w in stp["post"]:
            if w["var"] < len(b.fm.vars):
                b.write(w)
                b.labels.add("post_write_new" if w["var"] >= nvold and finish != "abort" else "post_write_old")
        if stp["post"]:
            b.observe("step %d: after writes" % si, "writes")
        tail = stp.get("tail_indep")
        if tail and tail["var"] < len(b.fm.vars) and b.fm.is_rec(b.fm.vars[tail["var"]]):
            nxt = case["steps"][si + 1] if si + 1 < len(case["steps"]) else None
            stay = bool(nxt and nxt["op"] == "redef" and nxt["finish"] != "abort" and b.curk == k and k > 1)
            b.write(tail, stay=stay)
    # ---- wrap up
    b.op("close", f="f0")
    b.curk = k
    b.open(rw=False)
    b.observe("read-only reopen after the final close", "final")
    b.op("close", f="f0")
    return b


def emit_on_slot(tmp, dl, slot):
    """definitions for the create+abort prelude (own little model so that ids are right)"""
    p, fm = tmp.p, tmp.fm
    kind = dl["d"]
    if kind == "att":
        tg = dl["var"] if dl["var"] < len(fm.vars) else -1
        xt, n, val, mt = att_bytes(dl)
        p.op("put_att", step=True, f=slot, v=tg, name=hx(dl["name"]), xt=xt, mt=mt, n=n, hex=val)
    elif kind == "dim":
        p.op("def_dim", step=True, f=slot, name=hx(dl["name"]), len=dl["len"])
        fm.dims.append((dl["name"], dl["len"]))
    elif kind == "set_fill":
        p.op("set_fill", step=True, f=slot, mode=dl["mode"])
    elif kind == "var":
        vi = len(fm.vars)
        dimids = []
        if dl["rec"]:
            if fm.recdim() < 0:
                p.op("def_dim", step=True, f=slot, name=hx("rec"), len=0)
                fm.dims.append(("rec", 0))
            dimids.append(fm.recdim())
        for j, l in enumerate(dl["shape"]):
            p.op("def_dim", step=True, f=slot, name=hx("d%d_%d" % (vi, j)), len=l)
            fm.dims.append(("d%d_%d" % (vi, j), l))
            dimids.append(len(fm.dims) - 1)
        p.op("def_var", step=True, f=slot, name=hx("v%d" % vi), xt=dl["xt"], dims=dimids, ndims=len(dimids))
        fm.add_var("v%d" % vi, dl["xt"], dimids)
        if dl.get("fill") == "default":
            p.op("def_var_fill", step=True, f=slot, v=vi, nofill=0)


# ------------------------------------------------------------------ evaluation
def classify(b, res, ctx):
    """decide from the observed layouts which committed redefinitions moved existing data"""
    nontrivial = False
    prev = None
    for nd, kind, info in b.observations:
        d = res.get(nd, 0)
        if d is None or d.get("rc") != 0:
            prev = None
            continue
        cur = layout_of(d)
        if kind == "enddef" and prev is not None:
            nold = len(prev["off"])
            nr = prev["numrecs"]
            isrec = [bool(v["dimids"]) and d["unlim"] >= 0 and v["dimids"][0] == d["unlim"] for v in d["vars"][:nold]]
            moved_fix = any(cur["off"][i] != prev["off"][i] for i in range(nold) if not isrec[i])
            moved_rec = nr >= 1 and any(cur["off"][i] != prev["off"][i] for i in range(nold) if isrec[i])
            restride = any(isrec) and nr >= 2 and cur["recsize"] != prev["recsize"]
            grew = cur["hext"] > prev["hext"]
            if grew:
                ctx.count("header_extent_grew")
            if moved_fix:
                ctx.count("moved_fixed_vars")
            if moved_rec:
                ctx.count("moved_record_section")
            if restride:
                ctx.count("record_stride_changed")
            if moved_rec and not moved_fix:
                ctx.count("moved_record_section_only")
            if moved_fix or moved_rec or restride:
                ctx.count("enddef_moved_data")
                if nr >= 2 or info["curk"] >= 2:
                    nontrivial = True
                if info["curk"] >= 2:
                    ctx.count("moved_with_k_ge2")
                if restride and info["nrec_old"] == 1 and prev["recsize"] % 4:
                    ctx.count("padding_introduced_1_to_2_recvars")
            else:
                ctx.count("enddef_nothing_moved")
        prev = cur
    return nontrivial


def run_case(ctx, case):
    if case.get("big"):
        return run_big(ctx, case)
    b = build(case)
    pool = ctx.pool("asan", nprocs=4)
    res, d = pool.run(b.p.s, keepdir=True)
    try:
        probs = b.p.evaluate(res)
        for pre, post, what in b.abort_pairs:
            try:
                x = open(os.path.join(d, pre), "rb").read()
                y = open(os.path.join(d, post), "rb").read()
            except OSError as e:
                probs.append({"kind": "nofile", "msg": "%s: %s" % (what, e), "sig": {"kind": "abort_nofile"}})
                continue
            if x != y:
                n = min(len(x), len(y))
                diff = np.nonzero(np.frombuffer(x[:n], np.uint8) != np.frombuffer(y[:n], np.uint8))[0]
                probs.append({"kind": "abort", "msg": "%s: file differs from the copy taken before redef (size %d -> %d, first differing byte %s, %d bytes differ)" % (
                    what, len(x), len(y), int(diff[0]) if len(diff) else n, len(diff)), "sig": {"kind": "abort_bytes"}})
        if not probs:
            for nm, fmc, what in b.snap_checks:
                pr = decode_compare(os.path.join(d, nm), fmc, "independent decode of the file copied at '%s'" % what)
                if pr:
                    probs += pr
                    break
    finally:
        shutil.rmtree(d, ignore_errors=True)
    ctx.count(*b.labels)
    if classify(b, res, ctx):
        ctx.nontrivial(runner.case_hash(case))
    ctx.sample({"case": {kk: vv for kk, vv in case.items() if kk not in ("init",)}, "script_head": [l[:200] for l in b.p.s.lines[:30]]})
    return probs


# ------------------------------------------------------------------ several rounds of move_file_block
@st.composite
def big_strategy(draw, tier="quick"):
    k = draw(st.sampled_from([1, 1, 2] if tier == "quick" else [1, 2, 2, 3]))
    extra = draw(st.integers(1, 300000))
    if extra % k == 0:
        extra += 1
    return {"big": True, "k": k, "fmt": draw(st.sampled_from([2, 5])), "extra": extra, "seed": draw(st.integers(0, 250)),
            "grow": draw(st.sampled_from([600, 5000, 70000])), "tail": draw(st.integers(1, 9))}


def build_big(case):
    """one NC_BYTE variable of k*MOVE_UNIT + extra bytes followed by a small one; a header growth moves both.  Marker blocks with
    position-dependent content sit at the start, at every round/rank boundary of the mover and at the end; the rest is a constant."""
    k, extra = case["k"], case["extra"]
    n = k * MOVE_UNIT + extra
    p = Prog(k=k)
    mode = {2: 0x200, 5: 0x20}[case["fmt"]]
    p.op("create", step=True, f="f0", path=hx("b.nc"), mode=mode)
    p.op("def_dim", step=True, f="f0", name=hx("n"), len=n)
    p.op("def_dim", step=True, f="f0", name=hx("t"), len=case["tail"])
    p.op("def_var", step=True, f="f0", name=hx("big"), xt=M.NC_UBYTE if case["fmt"] == 5 else M.NC_BYTE, dims=[0], ndims=1)
    p.op("def_var", step=True, f="f0", name=hx("tail"), xt=M.NC_SHORT, dims=[1], ndims=1)
    p.op("enddef", step=True, f="f0")
    mt = "uchar" if case["fmt"] == 5 else "schar"
    # background: each rank writes one slab of a constant byte
    per = (n + k - 1) // k
    sn = p.s.same_n()
    for r in range(k):
        lo, hi = min(n, r * per), min(n, (r + 1) * per)
        bslot = p.newbuf()
        p.s.op("buf", ranks=[r], b=bslot, size=max(1, hi - lo), fill=0x11 + r)
        p.s.op("data", ranks=[r], sn=sn, step=True, api="put", form="vara", coll=1, mt=mt, f="f0", v=0, start=[lo], count=[hi - lo], buf=bslot)
    p.expect_rc(sn, range(k), 0, "put_vara_all background")
    # the background buffers are no longer needed
    for r in range(k):
        p.s.op("buf", ranks=[r], b="b%d" % (r + 1), size=1)
    # marker blocks
    W = 96
    chunk = min(MOVE_UNIT, (n + k - 1) // k)
    marks = set([0, n - W])
    pos = n
    while pos > 0:       # boundaries of the rounds (tail first) and of the per-rank pieces inside a round
        rnd = min(pos, k * chunk) if pos >= k * chunk else pos
        base = pos - rnd
        for r in range(k + 1):
            e = base + min(rnd, r * chunk)
            marks.add(max(0, min(n - W, e - W // 2)))
        pos = base
    marks = sorted(marks)
    blocks = []
    for j, m in enumerate(marks):
        if blocks and m < blocks[-1][0] + W:
            continue
        vals = ((np.arange(W, dtype=np.int64) * 37 + case["seed"] + j * 11) % 251 + 1).astype(np.uint8)
        blocks.append((m, vals))
    for j, (m, vals) in enumerate(blocks):
        r = j % k
        sn = p.s.same_n()
        for q in range(k):
            bslot = p.newbuf()
            p.s.op("buf", ranks=[q], b=bslot, size=W, hex=vals.tobytes())
            p.s.op("data", ranks=[q], sn=sn, step=True, api="put", form="vara", coll=1, mt=mt, f="f0", v=0,
                   start=[m if q == r else 0], count=[W if q == r else 0], buf=bslot)
        p.expect_rc(sn, range(k), 0, "put_vara_all marker")
    tailv = ((np.arange(case["tail"]) * 7 + case["seed"]) % 30000).astype(np.int16)
    sn = p.s.same_n()
    for q in range(k):
        bslot = p.newbuf()
        p.s.op("buf", ranks=[q], b=bslot, size=2 * case["tail"], hex=tailv.tobytes())
        p.s.op("data", ranks=[q], sn=sn, step=True, api="put", form="vara", coll=1, mt="short", f="f0", v=1,
               start=[0], count=[case["tail"] if q == 0 else 0], buf=bslot)
    p.expect_rc(sn, range(k), 0, "put_vara_all tail")
    p.op("fence", step=True, f="f0")
    n0 = p.s.op("inq", f="f0", what="varoffset", v=0)
    p.op("redef", step=True, f="f0")
    g = case["grow"]
    p.op("put_att", step=True, f="f0", v=-1, name=hx("grow"), xt=M.NC_CHAR, mt="text", n=g, hex=b"g" * g)
    p.op("enddef", step=True, f="f0")
    p.op("fence", step=True, f="f0")
    n1 = p.s.op("inq", f="f0", what="varoffset", v=0)
    reads = []
    for j, (m, vals) in enumerate(blocks):
        lo = max(0, m - 16)
        hi = min(n, m + W + 16)
        bg = np.zeros(hi - lo, dtype=np.uint8)
        for x in range(lo, hi):
            bg[x - lo] = 0x11 + min(k - 1, x // per)
        for (m2, v2) in blocks:
            a, bb = max(lo, m2), min(hi, m2 + W)
            if a < bb:
                bg[a - lo:bb - lo] = v2[a - m2:bb - m2]
        sn = p.s.same_n()
        for q in range(k):
            bslot = p.newbuf()
            p.s.op("buf", ranks=[q], b=bslot, size=hi - lo, fill=0xEE)
            p.s.op("data", ranks=[q], sn=sn, step=True, api="get", form="vara", coll=1, mt=mt, f="f0", v=0, start=[lo], count=[hi - lo], buf=bslot, rb=1)
        reads.append((sn, lo, bg))
    sn_t = p.s.same_n()
    for q in range(k):
        bslot = p.newbuf()
        p.s.op("buf", ranks=[q], b=bslot, size=2 * case["tail"], fill=0xEE)
        p.s.op("data", ranks=[q], sn=sn_t, step=True, api="get", form="vara", coll=1, mt="short", f="f0", v=1, start=[0], count=[case["tail"]], buf=bslot, rb=1)
    p.op("close", step=True, f="f0")

    def chk(res):
        out = []
        o0, o1 = res.get(n0, 0), res.get(n1, 0)
        if not o0 or not o1 or o0.get("rc") or o1.get("rc"):
            return [{"kind": "rc", "msg": "inq_varoffset failed", "sig": {"kind": "inq_rc"}}]
        for q in range(k):
            for sn, lo, want in reads:
                e = res.get(sn, q)
                if e is None or e.get("rc") != 0:
                    return [{"kind": "rc", "msg": "big move: get_vara_all at %d returned %s" % (lo, e and e.get("rc")), "sig": {"kind": "rc", "op": "get_big"}}]
                got = np.frombuffer(bytes.fromhex(e["hex"]), dtype=np.uint8)
                if not np.array_equal(got, want):
                    j = int(np.nonzero(got != want)[0][0])
                    out.append({"kind": "value", "msg": "big move (var of %d bytes, k=%d, offset %d -> %d): element %d reads %d expected %d on rank %d" % (
                        n, k, o0["r"][0], o1["r"][0], lo + j, int(got[j]), int(want[j]), q), "sig": {"kind": "value", "at": "bigmove"}})
                    return out
            e = res.get(sn_t, q)
            if e is None or e.get("rc") != 0 or bytes.fromhex(e["hex"]) != tailv.tobytes():
                return [{"kind": "value", "msg": "big move: the small variable behind the big one changed", "sig": {"kind": "value", "at": "bigmove_tail"}}]
        return out
    p.check(chk)
    return p, (n0, n1)


def run_big(ctx, case):
    p, (n0, n1) = build_big(case)
    pool = ctx.pool("asan", nprocs=4)
    res, _ = pool.run(p.s, timeout=600)
    probs = p.evaluate(res)
    ctx.count("big_move", "big_move_k%d" % case["k"])
    o0, o1 = res.get(n0, 0), res.get(n1, 0)
    if o0 and o1 and o0.get("r") and o1.get("r") and o0["r"][0] != o1["r"][0]:
        ctx.count("big_move_moved")
        ctx.nontrivial(runner.case_hash(case))
    return probs


def case_script(case):
    if case.get("big"):
        return "\n".join(l[:300] for l in build_big(case)[0].s.lines)
    return "\n".join(l[:400] for l in build(case).p.s.lines)


def campaign(ctx):
    n = {"quick": 180, "thorough": 1000}[ctx.tier]
    runner.run_hypothesis(ctx, case_strategy(ctx.tier), runner.guarded(run_case), n)
    if ctx.widx == 0:
        runner.run_hypothesis(ctx, big_strategy(ctx.tier), runner.guarded(run_case), {"quick": 2, "thorough": 6}[ctx.tier], label="big")


if __name__ == "__main__":
    runner.main("checks.c06", PROP, default_workers=8, nt_floor=25)
