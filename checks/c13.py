#!/usr/bin/env python3-vt
"""C13 - caller buffers are respected; attached-buffer accounting is exact."""
import os, sys, copy
sys.path.insert(0, os.path.dirname(os.path.dirname(os.path.abspath(__file__))))
import numpy as np
from hypothesis import strategies as st
from pv import model as M, gen as G
from pv.prog import Prog, define_schema, req_geometry
from pv.pool import hx
from pv import runner
from pv.common import compare_dump, decode_compare

PROP = "C13"
SWAP_THRESHOLD = 4096      # NC_BYTE_SWAP_BUFFER_SIZE: in 'auto' mode requests larger than this are byte-swapped in place
RULE = ("Hypothesis-generated single-process programs on variables of multi-byte types with request sizes on both sides of the "
        "in-place-swap threshold (4096 bytes), same-type (swap only) and converting memory types, derived buffer datatypes with "
        "gaps, nc_in_place_swap in {auto, enable, disable}; operations: blocking put/get, iput/iget/bput posts, wait / wait_all / "
        "cancel on subsets, buffer attach/detach at legal and illegal moments, close with requests still pending. Oracle: a write "
        "buffer is byte-identical to its pre-call image once the blocking call / completing wait / cancel / close has returned; "
        "a read buffer changed only at the bytes its datatype/imap selects (guard zones and gaps intact); a bput buffer is "
        "overwritten right after posting and the file must still receive the posting-time data; accounting model: "
        "inq_buffer_size = attached size, inq_buffer_usage = sum of external sizes of pending bputs (0 when none), bput refused "
        "with NC_EINSUFFBUF iff remaining < request size, NC_ENULLABUF / NC_EPREVATTACHBUF / NC_EPENDINGBPUT as documented. "
        "Non-trivial = a request above the swap threshold completed through wait or cancel (or close), or a bput history with at "
        "least one refusal and one out-of-order completion.")
ASSUMPTIONS = ["per-process semantics: programs run on one process (independent and collective calls with k=1)",
               "the byte-swapped state of a pending iput buffer between post and wait is not constrained (only after the completing call)"]
NBIG = 2600


@st.composite
def case_strategy(draw, tier="quick"):
    fmt = draw(st.sampled_from([1, 2, 5]))
    swap = draw(st.sampled_from(["auto", "enable", "disable"]))
    vars_ = [{"xt": draw(st.sampled_from([M.NC_INT, M.NC_DOUBLE, M.NC_SHORT, M.NC_FLOAT])), "dims": [1], "vclass": draw(st.sampled_from(["wild", "pos"]))},
             {"xt": draw(st.sampled_from([M.NC_INT, M.NC_SHORT, M.NC_DOUBLE])), "dims": [2, 3], "vclass": draw(st.sampled_from(["wild", "pos"]))},
             {"xt": M.NC_INT, "dims": [0, 3], "vclass": "wild"},
             {"xt": M.NC_BYTE, "dims": [3], "vclass": "wild"}]
    sch = {"fmt": fmt, "dims": [0, NBIG, 40, 30], "vars": vars_}
    dims = sch["dims"]
    nv = len(vars_)
    busy = [np.zeros([d if d else 8 for d in [dims[i] for i in v["dims"]]], dtype=bool) for v in vars_]
    gbusy = [np.zeros_like(b) for b in busy]      # elements read by pending igets (overlapping gets in one wait = C02 finding F04)
    pend_put, pend_get = [0] * nv, [0] * nv
    pending = {}
    ops = []
    attached = None
    numrecs = 0
    rid = 0
    nops = draw(st.integers(4, 14 if tier == "quick" else 30))
    if G.chance(draw, 75):
        attached = draw(st.sampled_from([256, 1000, 4096, 8192, 20000, 100000]))
        ops.append({"op": "attach", "size": attached})
    for _ in range(nops):
        kind = draw(st.sampled_from(["put", "get", "iput", "iput", "iget", "bput", "bput", "bput", "bput", "wait", "wait", "wait", "cancel", "attach", "detach"]))
        if kind in ("attach",):
            sz = draw(st.sampled_from([64, 256, 1000, 4096, 8192, 20000, 100000]))
            ops.append({"op": "attach", "size": sz})
            if attached is None:
                attached = sz
            continue
        if kind == "detach":
            ops.append({"op": "detach"})
            if attached is not None and not any(p["kind"] == "bput" for p in pending.values()):
                attached = None
            continue
        if kind in ("wait", "cancel"):
            ids = list(pending)
            if not ids:
                continue
            sel = list(draw(st.permutations(ids)))[:draw(st.integers(1, len(ids)))]
            coll = G.chance(draw, 50) and kind == "wait"
            ops.append({"op": kind, "ids": sel, "coll": coll, "st": G.chance(draw, 70)})
            for i in sel:
                pst = pending.pop(i)
                vi = pst["req"]["var"]
                if pst["kind"] == "iget":
                    pend_get[vi] -= 1
                    if len(pst["idx"]):
                        gbusy[vi][tuple(pst["idx"].T)] = False
                else:
                    pend_put[vi] -= 1
                    idx = pst["idx"]
                    if len(idx):
                        busy[vi][tuple(idx.T)] = False
                    if kind == "wait":
                        numrecs = max(numrecs, pst["top"])
            continue
        vi = draw(st.integers(0, nv - 1))
        v = vars_[vi]
        is_rec = dims[v["dims"][0]] == 0
        shape = [dims[d] for d in v["dims"]]
        isput = kind in ("put", "iput", "bput")
        if isput and pend_get[vi]:
            continue
        if not isput and pend_put[vi]:
            continue
        if is_rec:
            shape[0] = min(8, max(1, numrecs + draw(st.integers(0, 2)))) if isput else numrecs
        if any(s == 0 for s in shape):
            continue
        # big or small request
        if vi == 0 and G.chance(draw, 70):
            n = draw(st.integers(SWAP_THRESHOLD // M.XT_SIZE[v["xt"]] - 3, NBIG))
            s0 = draw(st.integers(0, NBIG - n))
            s, c, sd = [s0], [n], [1]
        else:
            s, c, sd = draw(G.box(shape, allow_zero=False))
        idx = M.box_indices(s, c, sd)
        if isput and len(idx) and busy[vi][tuple(idx.T)].any():
            continue
        if kind == "iget" and len(idx) and gbusy[vi][tuple(idx.T)].any():
            continue
        from checks.c01 import req_for
        rq = draw(req_for(v, vi, shape, s, c, sd, is_rec, numrecs))
        if rq["form"] == "vard" or (rq["form"] == "var" and is_rec):
            rq = draw(req_for(v, vi, shape, s, c, sd, is_rec, numrecs, form="vars"))
        top = int(idx[:, 0].max()) + 1 if (is_rec and len(idx)) else 0
        rid += 1
        o = {"op": kind, "req": rq, "id": rid, "nview": numrecs}
        if kind in ("bput",) and G.chance(draw, 60):
            o["scribble"] = True
        ops.append(o)
        if kind == "put":
            numrecs = max(numrecs, top)
        if kind in ("iput", "bput", "iget"):
            xbytes = len(idx) * M.XT_SIZE[v["xt"]]
            ok = True
            if kind == "bput":
                used = sum(p["xbytes"] for p in pending.values() if p["kind"] == "bput")
                ok = attached is not None and attached - used >= xbytes
            if ok and len(idx):
                pending[rid] = {"kind": kind, "req": rq, "idx": idx, "top": top, "xbytes": xbytes}
                if kind == "iget":
                    pend_get[vi] += 1
                    gbusy[vi][tuple(idx.T)] = True
                else:
                    pend_put[vi] += 1
                    busy[vi][tuple(idx.T)] = True
    end = draw(st.sampled_from(["wait_all", "wait_all", "close_pending", "cancel_all"]))
    return {"schema": sch, "swap": swap, "ops": ops, "end": end}


def build(case):
    sch = case["schema"]
    p = Prog(k=1)
    p.s.op("info", i="i1", **{"h__nc_in_place_swap": hx(case["swap"])})
    fm = define_schema(p, sch, info="i1")
    labels = set(["swap_" + case["swap"], "fmt%d" % sch["fmt"]])
    info = {"nontrivial": False, "refusal": False, "ooo": False}
    pend = {}          # id -> info
    order = []         # posting order of pending bput ids (allocation order in the attached buffer)
    attached = None
    # reference accounting: `alloc` mirrors what a bump allocator that only reclaims from the tail would report;
    # `strict` is the statement's wording (sum of pending bput bytes)
    alloc = []         # list of [id, bytes, live]

    def strict_usage():
        return sum(b for (_, b, live) in alloc if live)

    def tail_usage():
        a = list(alloc)
        while a and not a[-1][2]:
            a.pop()
        return sum(b for (_, b, _) in a)

    def compact():
        while alloc and not alloc[-1][2]:
            alloc.pop()

    def check_usage(what):
        n1 = p.s.op("inq", f="f0", what="buffer_usage")
        n2 = p.s.op("inq", f="f0", what="buffer_size")
        su, tu, att = strict_usage(), tail_usage(), attached

        def chk(res):
            out = []
            e1, e2 = res.get(n1, 0), res.get(n2, 0)
            if att is None:
                for e, nm in ((e1, "inq_buffer_usage"), (e2, "inq_buffer_size")):
                    if e is None or e.get("rc") != M.E["ENULLABUF"]:
                        out.append({"kind": "rc", "msg": "%s without an attached buffer returned %s (after %s)" % (nm, e and e.get("rc"), what), "sig": {"kind": "rc", "op": nm}})
                return out
            if e2 is None or e2.get("rc") != 0 or e2["r"][0] != att:
                out.append({"kind": "bufsize", "msg": "inq_buffer_size %s, attached %d (after %s)" % (e2 and e2.get("r"), att, what), "sig": {"kind": "buffer_size"}})
            if e1 is None or e1.get("rc") != 0:
                out.append({"kind": "rc", "msg": "inq_buffer_usage failed", "sig": {"kind": "rc", "op": "inq_buffer_usage"}})
            elif e1["r"][0] != su:
                cause = "out_of_order_completion" if (su != tu and e1["r"][0] == tu) else "other"
                out.append({"kind": "usage", "msg": "inq_buffer_usage %d after %s, pending buffered puts hold %d bytes" % (e1["r"][0], what, su),
                            "sig": {"kind": "buffer_usage", "cause": cause}})
            return out
        p.check(chk)

    def complete(i, how):
        """request i leaves the pending set through `how` in {wait, cancel, close}"""
        inf = pend.pop(i)
        rq = inf["req"]
        big = inf["xbytes"] > SWAP_THRESHOLD
        if big:
            info["nontrivial"] = True
            labels.add("big_%s_%s" % (inf["kind"], how))
        if inf["kind"] == "iget":
            nb = p.s.op("bufchk", b=inf["slot"])
            if how == "wait":
                inf["verify"].refresh()
                p.check(lambda res, nb=nb, vf=inf["verify"]: vf(res, nb))
            else:
                p.check(_untouched(nb, "iget buffer after " + how))
        else:
            if how == "wait":
                fm.write(rq["var"], inf["idx"], inf["values"])
            if inf["kind"] == "iput":
                nb = p.s.op("bufchk", b=inf["slot"], rb=0)
                p.check(_same(nb, "iput buffer after " + how, big))
            else:
                for a in alloc:
                    if a[0] == i:
                        a[2] = False
                if any(not a[2] for a in alloc[:-1]) and alloc and alloc[-1][2]:
                    info["ooo"] = True
                    labels.add("out_of_order_completion")

    for o in case["ops"]:
        kind = o["op"]
        if kind == "attach":
            exp = M.E["EPREVATTACHBUF"] if attached is not None else 0
            p.op("buffer_attach", f="f0", size=o["size"], expect=exp)
            if attached is None:
                attached = o["size"]
            labels.add("attach")
            check_usage("attach")
            continue
        if kind == "detach":
            if attached is None:
                exp = M.E["ENULLABUF"]
            elif any(i["kind"] == "bput" for i in pend.values()):
                exp = M.E["EPENDINGBPUT"]
            else:
                exp = 0
            p.op("buffer_detach", f="f0", expect=exp)
            if exp == 0:
                attached = None
                alloc[:] = []
            labels.add("detach_rc%d" % exp)
            check_usage("detach")
            continue
        if kind in ("wait", "cancel"):
            ids = [i for i in o["ids"] if i in pend]
            if not ids:
                continue
            toks = [pend[i]["q"] for i in ids]
            n = p.s.op("wait" if kind == "wait" else "cancel", f="f0", coll=1 if kind == "wait" else 0, reqs=toks, st=1 if o.get("st") else 0)
            anyget = any(pend[i]["kind"] == "iget" for i in ids)
            p.expect_rc(n, [0], [0, M.E["ERANGE"]] if anyget else 0, kind)
            for i in ids:
                complete(i, kind)
            compact()
            labels.add(kind)
            check_usage(kind)
            continue
        rq = dict(o["req"])
        v = fm.vars[rq["var"]]
        if kind == "put":
            n, slot, values, idx = p.put(fm, 0, rq, o["nview"], coll=True, apply=True)
            if len(idx) * M.XT_SIZE[v.xt] > SWAP_THRESHOLD:
                labels.add("big_put")
            continue
        if kind == "get":
            gi = req_geometry(fm, rq, fm.numrecs)[0]
            unknown = len(gi) > 0 and bool((fm.read(rq["var"], gi)[1] == 0).any())
            p.get(fm, 0, rq, fm.numrecs, coll=True, expect=[0, M.E["ERANGE"]] if unknown else 0)
            continue
        qs = p.newreq()
        if kind == "iget":
            gi = req_geometry(fm, rq, o["nview"])[0]
            n, slot, verify = p.get(fm, 0, rq, o["nview"], api="iget", reqslot=qs)
            if len(gi):
                pend[o["id"]] = {"kind": "iget", "req": rq, "slot": slot, "verify": verify, "q": qs, "xbytes": len(gi) * M.XT_SIZE[v.xt]}
            continue
        # iput / bput
        idx = req_geometry(fm, rq, o["nview"])[0]
        xbytes = len(idx) * M.XT_SIZE[v.xt]
        exp = 0
        if kind == "bput":
            if attached is None:
                exp = M.E["ENULLABUF"]
            elif len(idx) and attached - strict_usage() < xbytes:
                exp = M.E["EINSUFFBUF"]
        n, slot, values, idx = p.put(fm, 0, rq, o["nview"], api=kind, reqslot=qs, apply=False, expect=None)
        if kind == "bput" and attached is not None and len(idx):
            su, tu, att = strict_usage(), tail_usage(), attached

            def chk(res, n=n, exp=exp, su=su, tu=tu, att=att, xbytes=xbytes):
                rc = res.rc(n, 0)
                if rc == exp:
                    return []
                cause = "out_of_order_completion" if (su != tu and rc == M.E["EINSUFFBUF"] and att - tu < xbytes) else "other"
                return [{"kind": "bput_rc", "msg": "bput of %d bytes with %d of %d bytes held by pending buffered puts returned %s, expected %s" % (xbytes, su, att, rc, exp),
                         "sig": {"kind": "bput_refusal", "cause": cause}}]
            p.check(chk)
            # whether the request is pending afterwards depends on what the library answered: the script is a batch, so follow
            # the implementation-independent prediction and, when the tail-only allocator would refuse, do not post at all
            if exp == 0 and att - tu < xbytes:
                # strict reading accepts, tail allocator refuses (known finding): keep the model consistent with a refusal
                exp = M.E["EINSUFFBUF"]
        else:
            p.expect_rc(n, [0], exp, kind)
        if exp == M.E["EINSUFFBUF"]:
            info["refusal"] = True
            labels.add("bput_refused")
        if exp == 0 and len(idx):
            pend[o["id"]] = {"kind": kind, "req": rq, "slot": slot, "values": values, "idx": idx, "q": qs, "xbytes": xbytes}
            if kind == "bput":
                alloc.append([o["id"], xbytes, True])
                if o.get("scribble"):
                    p.s.op("bufset", b=slot, fill=0x5C)
                    labels.add("bput_scribbled")
        labels.add(kind)
        check_usage(kind)
    # ---- exits
    end = case["end"]
    labels.add("end_" + end)
    if end == "close_pending" and pend:
        ids = list(pend)
        n = p.op("close", f="f0", expect=M.E["EPENDING"], what="close with pending requests")
        for i in ids:
            complete(i, "close")
        p.op("open", f="f0", path=hx("t.nc"), mode=0)
    else:
        if pend:
            ids = list(pend)
            how = "cancel" if end == "cancel_all" else "wait"
            n = p.s.op("cancel" if how == "cancel" else "wait", f="f0", coll=1 if how == "wait" else 0, reqs="ALL", st=0)
            anyget = any(pend[i]["kind"] == "iget" for i in ids)
            p.expect_rc(n, [0], [0, M.E["ERANGE"]] if anyget else 0, how + " ALL")
            for i in ids:
                complete(i, how)
            compact()
            check_usage(how + " ALL")
        if attached is not None:
            p.op("buffer_detach", f="f0")
    nd = p.op("dumpall", f="f0", data=1, coll=1)
    snap = copy.deepcopy(fm)
    p.check(lambda res: compare_dump(res.get(nd, 0), snap, "final dump"))
    p.op("close", f="f0")
    if info["refusal"] and info["ooo"]:
        info["nontrivial"] = True
    return p, fm, labels, info


def _same(nb, what, big):
    def chk(res):
        e = res.get(nb, 0)
        if e is not None and (e.get("same") == 0 or e.get("guards") == 0):
            return [{"kind": "wbuf", "msg": "%s: caller's buffer differs from its pre-call image%s" % (what, " (request above the in-place swap threshold)" if big else ""), "sig": {"kind": "wbuf_modified", "what": what}}]
        return []
    return chk


def _untouched(nb, what):
    def chk(res):
        e = res.get(nb, 0)
        if e is not None and (e.get("same") == 0 or e.get("guards") == 0):
            return [{"kind": "rbuf", "msg": "%s: buffer was modified although the request never completed" % what, "sig": {"kind": "rbuf_modified", "what": what}}]
        return []
    return chk


def run_case(ctx, case):
    p, fm, labels, info = build(case)
    pool = ctx.pool("asan", nprocs=1)
    res, _ = pool.run(p.s)
    probs = p.evaluate(res)
    ctx.count(*labels)
    if info["nontrivial"]:
        ctx.nontrivial(runner.case_hash(case))
    ctx.sample({"swap": case["swap"], "ops": [(o["op"], o.get("req", {}).get("form")) for o in case["ops"]], "script_head": p.s.lines[:25]})
    return probs


def case_script(case):
    return build(case)[0].s.text("<dir>")[0]


def campaign(ctx):
    n = {"quick": 1400, "thorough": 6000}[ctx.tier]
    runner.run_hypothesis(ctx, case_strategy(ctx.tier), runner.guarded(run_case), n)


if __name__ == "__main__":
    runner.main("checks.c13", PROP, default_workers=8, nt_floor=20)
