#!/usr/bin/env python3-vt
"""C10 - hints, process count and execution modes never change results."""
import os, sys, copy, shutil, json, struct
sys.path.insert(0, os.path.dirname(os.path.dirname(os.path.abspath(__file__))))
import numpy as np
from hypothesis import strategies as st
from pv import model as M, gen as G
from pv.prog import Prog, define_schema, req_geometry
from pv.pool import hx
from pv import runner
from pv.common import compare_dump, decode_compare, neq_bytes

PROP = "C10"
RULE = ("Metamorphic / differential: a decomposition-independent logical program (schema, attributes, blocking writes and reads of "
        "boxes through vara/vars/varm/varn typed and flexible with non-contiguous buffers, nonblocking writes completed by wait_all, "
        "record growth, a redefinition adding a variable and an attribute, close/reopen) is executed under two configurations A and B "
        "drawn from: k=1..8 (quick: mostly 1..4) with different decompositions of every box, nc_header_align_size / nc_var_align_size / "
        "nc_record_align_size, nc_ibuf_size in {1, 64, default}, nc_in_place_swap in {auto, enable, disable} with request sizes on both "
        "sides of the 4096-byte threshold, nc_hash_size_*, nc_header_read_chunk_size, romio_no_indep_rw, nc_num_aggrs_per_node 0..k, "
        "safe mode, hints through MPI_Info or PNETCDF_HINTS (optionally with a conflicting MPI_Info that must lose).  Oracle: per logical request the return codes agree, reassembled read "
        "results are equal, the two closed files decode (independent decoder) to the same logical content, both runs also agree with "
        "the reference model, variable offsets satisfy the alignment each configuration reports, and ncmpi_inq_file_info reports for "
        "every PnetCDF hint we set the value we set.  Non-trivial = A and B differ in k or in aggregation / ibuf / swap / collective "
        "header I/O, and the program has >= 3 write requests with non-contiguous buffer or file access.")
ASSUMPTIONS = ["burst buffering is excluded here (C12)", "hint values are drawn from their documented domains",
               "the hint nc_header_read_chunk_size is parsed but never stored on this tree, so its reported value is not asserted"]
BIGN = 1300      # a 1-D double variable of this length: whole-variable requests exceed the 4096-byte in-place swap threshold


@st.composite
def config(draw, kmax=4):
    # quick: mostly 1..4 ranks (4-rank pools), now and then 5..8 (group sizes that do not divide the node: F52)
    k = draw(st.integers(1, kmax)) if kmax > 4 else draw(st.sampled_from([1, 2, 3, 4, 1, 2, 3, 4, 2, 3, 4, 5, 7, 8]))
    h = {}
    if G.chance(draw, 50):
        h["nc_var_align_size"] = str(draw(st.sampled_from([1, 4, 6, 8, 64, 197, 512, 4096])))
    if G.chance(draw, 30):
        h["nc_header_align_size"] = str(draw(st.sampled_from([4, 7, 64, 1024])))
    if G.chance(draw, 40):
        h["nc_record_align_size"] = str(draw(st.sampled_from([4, 8, 10, 50, 512])))
    if G.chance(draw, 50):
        h["nc_ibuf_size"] = str(draw(st.sampled_from([1, 64, 100000])))
    if G.chance(draw, 60):
        h["nc_in_place_swap"] = draw(st.sampled_from(["auto", "enable", "disable"]))
    if G.chance(draw, 15):
        # a header extent without slack and a wide gap in front of the record section: a redefinition moves the fixed
        # variables while the record section may stay where it is
        h.update({"nc_header_align_size": "4", "nc_var_align_size": "4", "nc_record_align_size": draw(st.sampled_from(["512", "4096"]))})
    for key in ("nc_hash_size_dim", "nc_hash_size_var", "nc_hash_size_gattr", "nc_hash_size_vattr"):
        if G.chance(draw, 25):
            h[key] = str(draw(st.sampled_from([1, 2, 7, 64])))
    if G.chance(draw, 25):
        h["nc_header_read_chunk_size"] = str(draw(st.sampled_from([64, 1024, 65536])))
    if G.chance(draw, 30):
        h["romio_no_indep_rw"] = "true"
    if G.chance(draw, 45):
        h["nc_num_aggrs_per_node"] = str(draw(st.integers(0, k)))
    # who posts the nonblocking writes: every rank its part (None) or one rank all of them (the others reach the wait empty-handed)
    owner = draw(st.sampled_from([None, None, 0, 0, k - 1, draw(st.integers(0, k - 1))]))
    via_env = G.chance(draw, 30)
    # with PNETCDF_HINTS: sometimes an MPI_Info carrying *other* values for the same hints is passed too (the environment wins)
    return {"k": k, "hints": h, "via_env": via_env, "decoy": via_env and G.chance(draw, 40), "safe": G.chance(draw, 25),
            "dseed": draw(st.integers(0, 10 ** 6)), "iput_owner": owner}


@st.composite
def case_strategy(draw, tier="quick"):
    kmax = 4 if tier == "quick" else 8
    fmt = draw(st.sampled_from([1, 2, 5]))
    types = M.XT_CDF12 if fmt != 5 else M.XT_ALL
    dims = [0, BIGN, draw(st.integers(2, 5)), draw(st.integers(2, 6))]
    nv = draw(st.integers(2, 4))
    vars_ = [{"xt": M.NC_DOUBLE, "dims": [1], "vclass": "wild"}]
    for _ in range(nv):
        xt = draw(st.sampled_from([t for t in types if t != M.NC_CHAR]))
        rec = G.chance(draw, 50)
        vd = ([0] if rec else []) + draw(st.lists(st.sampled_from([2, 3]), min_size=0 if rec else 1, max_size=2))
        signed = xt in (M.NC_BYTE, M.NC_SHORT, M.NC_INT, M.NC_FLOAT, M.NC_DOUBLE, M.NC_INT64)
        vars_.append({"xt": xt, "dims": vd, "vclass": draw(st.sampled_from(["wild", "pos", "neg"] if signed else ["wild", "pos"]))})
    twin = G.chance(draw, 30)
    if twin:
        # a second variable like variable 0: both can be written from ONE user buffer by two pending nonblocking puts
        vars_.append({"xt": M.NC_DOUBLE, "dims": [1], "vclass": "wild"})
    sch = {"fmt": fmt, "dims": dims, "vars": vars_}
    numrecs = 0
    steps = []
    nsteps = draw(st.integers(4, 10))
    burst = 0
    for _ in range(nsteps):
        kind = "iwrite" if burst > 0 else draw(st.sampled_from(["write", "write", "write", "iwrite", "iwrite", "read", "read", "att", "redef", "reopen"]))
        if kind == "iwrite":
            burst = burst - 1 if burst > 0 else draw(st.integers(0, 3))      # several requests pending for the same wait
        if twin and kind == "iwrite" and G.chance(draw, 50):
            n = draw(st.integers(600, BIGN))
            steps.append({"op": "iwrite_shared", "var": 0, "twin": len(vars_) - 1, "box": [[draw(st.integers(0, BIGN - n))], [n], [1]],
                          "form": draw(st.sampled_from(["vara", "varn"])), "mt": "double", "seed": draw(st.integers(0, 10 ** 5)), "derived": False})
            continue
        if kind == "att":
            steps.append({"op": "att", "name": "a%d" % len(steps), "n": draw(st.integers(1, 6)), "seed": draw(st.integers(0, 99))})
            continue
        if kind == "redef":
            steps.append({"op": "redef", "grow": draw(st.sampled_from([0, 300, 5000])), "addrec": G.chance(draw, 45)})
            continue
        if kind == "reopen":
            steps.append({"op": "reopen"})
            continue
        vi = draw(st.integers(0, len(vars_) - 1))
        v = vars_[vi]
        is_rec = bool(v["dims"]) and dims[v["dims"][0]] == 0
        shape = [dims[d] for d in v["dims"]]
        if kind in ("write", "iwrite"):
            if is_rec:
                shape[0] = min(6, max(1, numrecs + draw(st.integers(0, 2))))
            if vi == 0 and G.chance(draw, 60):
                n = draw(st.integers(600, BIGN))
                s0 = draw(st.integers(0, BIGN - n))
                box = ([s0], [n], [1])
            else:
                box = draw(G.box(shape, allow_zero=False))
            form = draw(st.sampled_from(["vara", "vars", "varm", "varn"]))
            if form in ("vara", "varn") and any(x != 1 for x in box[2]):
                form = "vars"
            mt = draw(memsel(v))
            steps.append({"op": kind, "var": vi, "box": [list(box[0]), list(box[1]), list(box[2])], "form": form, "mt": mt, "seed": draw(st.integers(0, 10 ** 5)),
                          "derived": G.chance(draw, 40), "indep": kind == "write" and G.chance(draw, 25)})
            if is_rec:
                numrecs = max(numrecs, box[0][0] + (box[1][0] - 1) * box[2][0] + 1)
        else:
            if is_rec:
                shape[0] = numrecs
            if any(x == 0 for x in shape):
                continue
            box = draw(G.box(shape, allow_zero=False))
            form = draw(st.sampled_from(["vara", "vars", "varm"]))
            if form == "vara" and any(x != 1 for x in box[2]):
                form = "vars"
            steps.append({"op": "read", "var": vi, "box": [list(box[0]), list(box[1]), list(box[2])], "form": form, "mt": draw(memsel(v)), "derived": G.chance(draw, 40)})
    A = draw(config(kmax))
    B = draw(config(kmax))
    if any(x["op"] == "iwrite_shared" for x in steps):
        # known finding F58 (two pending iputs sharing one user buffer + in-place byte swap) is excluded by construction:
        # buffer sharing is generated only with in-place swap disabled; the finding itself is kept as a replay
        A["hints"]["nc_in_place_swap"] = B["hints"]["nc_in_place_swap"] = "disable"
    return {"schema": sch, "steps": steps, "A": A, "B": B}


@st.composite
def memsel(draw, v):
    native = M.XT_NATIVE_MT[v["xt"]]
    if v["vclass"] == "wild" or G.chance(draw, 40):
        return native
    mts = [m for m in M.MT_NUMERIC if v["vclass"] == "pos" or np.dtype(M.MT_DTYPE[m]).kind != "u"]
    return draw(st.sampled_from(mts))


def split(box, k, seed):
    """deterministic decomposition of a box over k ranks along one dimension (a pure function of its arguments);
    some ranks may get a zero-length part"""
    s, c, sd = box
    nd = len(c)
    d = seed % nd
    n = c[d]
    cuts = sorted(((seed * 2654435761 + 97 * i * i + 13 * i) % (n + 1)) for i in range(1, k))
    edges = [0] + cuts + [n]
    parts = []
    for r in range(k):
        a, b = edges[r], edges[r + 1]
        s2, c2 = list(s), list(c)
        s2[d] = s[d] + a * sd[d] if b > a else s[d]
        c2[d] = b - a
        parts.append((s2, c2, list(sd)))
    rot = seed % k
    return parts[rot:] + parts[:rot]


def mkreq(step, part, vi, v):
    s, c, sd = part
    form = step["form"]
    rq = {"var": vi, "form": form, "seed": 0, "vclass": v["vclass"], "mt": step["mt"]}
    n = int(np.prod(c)) if c else 1
    if form in ("vara", "vars", "varm"):
        rq.update(start=list(s), count=list(c))
    if form in ("vars", "varm"):
        rq["stride"] = list(sd)
    if form == "varm":
        # transposed memory layout (a permutation of the canonical strides): non-contiguous buffer access
        nd = len(c)
        imap = [0] * nd
        stride = 1
        for d in range(nd):
            imap[d] = stride
            stride *= max(c[d], 1)
        rq["imap"] = imap
    if form == "varn":
        # one sub-request per row along the first dimension
        if len(c) and c[0] > 1 and all(x > 0 for x in c):
            rq["starts"] = [[s[0] + i] + list(s[1:]) for i in range(c[0])]
            rq["counts"] = [[1] + list(c[1:]) for i in range(c[0])]
        else:
            rq["starts"], rq["counts"] = [list(s)], [list(c)]
    if step.get("derived") and n >= 2 and form != "varm":
        prim = M.MT_PRIM[step["mt"]]
        rq.update(mt="flex", prim=prim, bt=("vec", n, 1, 2, ("prim", prim)), bufcount=1)
    return rq


def part_values(step, part_idx, fm, vi, rq, vclass):
    """values of the elements of a part: a function of the element's position in the full box only"""
    full_idx = M.box_indices(*step["box"])
    allvals = M.value_pattern(step["seed"], len(full_idx), fm.vars[vi].xt, M.mt_key(rq), vclass)
    if len(part_idx) == 0:
        return allvals[:0]
    lut = {tuple(ix): j for j, ix in enumerate(full_idx.tolist())}
    return allvals[[lut[tuple(ix)] for ix in part_idx.tolist()]]


def _other(values):
    return lambda v, k: str([x for x in values if str(x) != v][0])


# a different legal value for the same hint (what the MPI_Info says when PNETCDF_HINTS says something else)
DECOY = {"nc_var_align_size": _other([64, 8]), "nc_header_align_size": _other([64, 1024]), "nc_record_align_size": _other([512, 8]),
         "nc_ibuf_size": _other([64, 100000]), "nc_in_place_swap": _other(["enable", "disable"]),
         "nc_hash_size_dim": _other([7, 64]), "nc_hash_size_var": _other([7, 64]), "nc_hash_size_gattr": _other([7, 64]), "nc_hash_size_vattr": _other([7, 64]),
         "nc_num_aggrs_per_node": lambda v, k: str((int(v) + 1) % (k + 1))}


def build(case, cfg):
    sch = case["schema"]
    k = cfg["k"]
    p = Prog(k=k)
    hints = dict(cfg["hints"])
    p.s.op("env", **{"e__PNETCDF_SAFE_MODE": hx("1" if cfg["safe"] else "0")})
    info = None
    if hints:
        if cfg["via_env"]:
            p.s.op("env", **{"e__PNETCDF_HINTS": hx(";".join("%s=%s" % kv for kv in sorted(hints.items())))})
            if cfg.get("decoy"):
                p.s.op("info", i="i1", **{"h__" + a: hx(DECOY[a](b, k)) for a, b in sorted(hints.items()) if a in DECOY})
                info = "i1"
        else:
            p.s.op("info", i="i1", **{"h__" + a: hx(b) for a, b in sorted(hints.items())})
            info = "i1"
    fm = define_schema(p, sch, info=info)
    out = {"rcs": [], "noncontig": 0, "gatts": []}
    out["file_info"] = p.s.op("inq", ranks=[0], f="f0", what="file_info")
    out["hext"] = p.s.op("inq", ranks=[0], f="f0", what="header_extent")
    out["voff"] = [p.s.op("inq", ranks=[0], f="f0", what="varoffset", v=i) for i in range(len(sch["vars"]))]
    seed = cfg["dseed"]
    pend, pbox = [], []
    for si, stp in enumerate(case["steps"]):
        op = stp["op"]
        if op in ("att", "redef", "reopen") and pend:
            _complete(p, fm, pend, k)
            pbox[:] = []
        if op == "att":
            vals = [(stp["seed"] + j) % 100 for j in range(stp["n"])]
            p.op("redef", step=True, f="f0")
            p.op("put_att", step=True, f="f0", v=-1, name=hx(stp["name"]), xt=M.NC_INT, mt="int", n=stp["n"], hex=struct.pack("=%di" % stp["n"], *vals))
            p.op("enddef", step=True, f="f0")
            out["gatts"].append((stp["name"].encode(), M.NC_INT, stp["n"], struct.pack(">%di" % stp["n"], *vals)))
            continue
        if op == "redef":
            p.op("redef", step=True, f="f0")
            if stp["grow"]:
                p.op("put_att", step=True, f="f0", v=-1, name=hx("g%d" % si), xt=M.NC_CHAR, mt="text", n=stp["grow"], hex=b"q" * stp["grow"])
                out["gatts"].append((("g%d" % si).encode(), M.NC_CHAR, stp["grow"], b"q" * stp["grow"]))
            name = "n%d" % si
            p.op("def_var", step=True, f="f0", name=hx(name), xt=M.NC_INT, dims=[2], ndims=1)
            fm.add_var(name, M.NC_INT, [2])
            if stp.get("addrec"):
                # a new record variable changes the record size: every existing record moves
                p.op("def_var", step=True, f="f0", name=hx("r%d" % si), xt=M.NC_SHORT, dims=[0, 2], ndims=2)
                fm.add_var("r%d" % si, M.NC_SHORT, [0, 2])
            p.op("enddef", step=True, f="f0")
            continue
        if op == "reopen":
            p.op("close", step=True, f="f0")
            p.op("open", step=True, f="f0", path=hx("t.nc"), mode=1, **({"info": info} if info else {}))
            out["file_info2"] = p.s.op("inq", ranks=[0], f="f0", what="file_info")
            continue
        vi = stp["var"]
        v = sch["vars"][vi]
        parts = split(stp["box"], k, seed + si)
        if op == "iwrite_shared":
            full = set(map(tuple, M.box_indices(*stp["box"]).tolist()))
            if pend and any(a in (vi, stp["twin"]) and (full & b) for a, b in pbox):
                _complete(p, fm, pend, k)
                pbox[:] = []
            pbox.append((vi, full))
            pbox.append((stp["twin"], full))
            for r in range(k):
                rq = mkreq(stp, parts[r], vi, v)
                idx = req_geometry(fm, rq, fm.numrecs)[0]
                if len(idx) == 0:
                    continue
                vals = part_values(stp, idx, fm, vi, rq, v["vclass"])
                q1, q2 = p.newreq(), p.newreq()
                n1, slot, _, _ = p.put(fm, r, rq, fm.numrecs, api="iput", reqslot=q1, apply=False, values=vals)
                # the same user buffer posted a second time, for the twin variable
                if rq["form"] == "varn":
                    n2 = p.s.op("data", ranks=[r], api="iput", form="varn", coll=0, mt="double", f="f0", v=stp["twin"], buf=slot,
                                num=len(rq["starts"]), starts=rq["starts"], counts=rq["counts"], req=q2)
                else:
                    n2 = p.s.op("data", ranks=[r], api="iput", form="vara", coll=0, mt="double", f="f0", v=stp["twin"], buf=slot,
                                start=rq["start"], count=rq["count"], req=q2)
                p.expect_rc(n2, [r], 0, "iput_vara (second request on the same buffer)")
                pend.append((vi, idx, vals))
                pend.append((stp["twin"], idx, vals))
            out["shared_buffer_iputs"] = out.get("shared_buffer_iputs", 0) + 1
            continue
        if op in ("write", "iwrite"):
            indep = bool(stp.get("indep")) and op == "write"
            # overlapping writes pending in one wait have no defined order: complete the earlier ones first
            full = set(map(tuple, M.box_indices(*stp["box"]).tolist()))
            if pend and (op == "write" or any(a == vi and (full & b) for a, b in pbox)):
                _complete(p, fm, pend, k)
                pbox[:] = []
            if op == "iwrite":
                pbox.append((vi, full))
            if indep:
                p.op("begin_indep", step=True, f="f0")
            sn = p.s.same_n() if (op == "write" and not indep) else None
            nview = fm.numrecs
            stmts, todo = [], []
            owner = cfg.get("iput_owner") if op == "iwrite" else None
            if owner is not None:
                out["solo_iput"] = out.get("solo_iput", 0) + 1
            for r in range(k):
                if owner is not None and r != owner:
                    continue
                rq = mkreq(stp, parts[r] if owner is None else stp["box"], vi, v)
                idx = req_geometry(fm, rq, nview)[0]
                vals = part_values(stp, idx, fm, vi, rq, v["vclass"])
                if op == "iwrite":
                    q = p.newreq()
                    n = p.put(fm, r, rq, nview, api="iput", reqslot=q, apply=False, values=vals)[0]
                    pend.append((vi, idx, vals))
                else:
                    n = p.put(fm, r, rq, nview, coll=not indep, sn=sn, step=not indep, apply=False, values=vals)[0]
                    if indep and k > 1:
                        p.op("barrier", expect=None)
                    todo.append((vi, idx, vals))
                stmts.append((r, n))
                if len(idx) >= 2 and (rq.get("bt") is not None or rq.get("imap") or rq["form"] in ("vars", "varn")):
                    out["noncontig"] += 1
            for (a, b, c) in todo:
                fm.write(a, b, c)
            out["rcs"].append(("%s%d" % (op[0], si), stmts))
            if indep:
                p.op("end_indep", step=True, f="f0")
            if op == "write":
                p.op("fence", step=True, f="f0")
        else:
            if pend:
                _complete(p, fm, pend, k)
                pbox[:] = []
            sn = p.s.same_n()
            got = []
            for r in range(k):
                rq = mkreq(stp, parts[r], vi, v)
                gi = req_geometry(fm, rq, fm.numrecs)[0]
                unknown = len(gi) > 0 and bool((fm.read(vi, gi)[1] == 0).any())
                n = p.get(fm, r, rq, fm.numrecs, coll=True, sn=sn, step=True, expect=[0, M.E["ERANGE"]] if unknown else 0)[0]
                got.append((r, n))
            if k > 1:
                p.op("barrier", expect=None)
    if pend:
        _complete(p, fm, pend, k)
    p.op("fence", step=True, f="f0")
    nd = p.op("dumpall", step=True, f="f0", data=1, coll=1)
    p.check(lambda res: sum([compare_dump(res.get(nd, r), fm, "final dump rank %d" % r) for r in range(k)], []))
    p.op("close", step=True, f="f0")
    p.op("snapshot", path=hx("t.nc"), to="final", expect=None)
    return p, fm, out


def _complete(p, fm, pend, k):
    sn = p.s.same_n()
    for r in range(k):
        p.s.op("wait", ranks=[r], sn=sn, step=True, f="f0", coll=1, reqs="ALL", st=0)
    p.expect_rc(sn, range(k), 0, "wait_all")
    for (vi, idx, vals) in pend:
        fm.write(vi, idx, vals)
    pend[:] = []
    p.op("fence", step=True, f="f0")


# hints whose reported value must equal the value set (ncmpio_set_pnetcdf_hints copies them into the info object);
# the three alignment hints are reported rounded up to a multiple of 4 (ncmpio__enddef)
ECHO_HINTS = ["nc_ibuf_size", "nc_in_place_swap", "nc_hash_size_dim", "nc_hash_size_var", "nc_hash_size_gattr", "nc_hash_size_vattr",
              "nc_num_aggrs_per_node"]
ALIGN_HINTS = ["nc_var_align_size", "nc_header_align_size", "nc_record_align_size"]


def _info(res, n):
    e = res.get(n, 0)
    if e is None or e.get("rc") != 0:
        return None
    return {k_: bytes.fromhex(v).decode(errors="replace") for k_, v in e["info"].items()}


def check_hints(res, out, cfg, sch, what):
    """reported hint values are the ones we set, and the layout right after the first enddef honours the reported alignment"""
    probs = []

    def bad(kind, msg, **sig):
        probs.append({"kind": kind, "msg": "%s: %s" % (what, msg), "sig": dict(kind=kind, **sig)})
    for which in ("file_info", "file_info2"):
        if which not in out:
            continue
        rep = _info(res, out[which])
        if rep is None:
            bad("file_info_rc", "ncmpi_inq_file_info failed")
            continue
        for key in ECHO_HINTS:
            if key in cfg["hints"]:
                want, got = cfg["hints"][key], rep.get(key)
                if got is None or got.lower() != want.lower():
                    bad("hint_report", "hint %s set to %r, ncmpi_inq_file_info reports %r" % (key, want, got), hint=key)
        if which == "file_info":
            for key in ALIGN_HINTS:
                if key in cfg["hints"]:
                    want = str(M.roundup(int(cfg["hints"][key]), 4))
                    if rep.get(key) != want:
                        bad("hint_report", "hint %s set to %s, ncmpi_inq_file_info reports %r after the first enddef (expected %s)" % (key, cfg["hints"][key], rep.get(key), want), hint=key)
            try:
                ha, ra = int(rep["nc_header_align_size"]), int(rep["nc_record_align_size"])
                hext = res.get(out["hext"], 0)["r"][0]
                offs = [res.get(n, 0)["r"][0] for n in out["voff"]]
            except Exception as ex:
                bad("file_info_rc", "alignment values not reported: %s" % ex)
                continue
            if hext % ha:
                bad("align", "data section of the new file starts at %d, not a multiple of the reported nc_header_align_size %d" % (hext, ha), which="header")
            recoffs = [o for o, v in zip(offs, sch["vars"]) if v["dims"] and sch["dims"][v["dims"][0]] == 0]
            if recoffs and min(recoffs) % ra:
                bad("align", "record section of the new file starts at %d, not a multiple of the reported nc_record_align_size %d" % (min(recoffs), ra), which="record")
            if any(o % 4 for o in offs):
                bad("align", "variable offsets %s are not all multiples of 4" % offs, which="four")
    return probs


def logical_of(data):
    from pv import cdfspec
    f = cdfspec.decode(data)
    arrays = []
    for i in range(len(f.vars)):
        arrays.append(np.asarray(cdfspec.read_var(data, f, i)))
    return f.logical(), arrays


def run_case(ctx, case):
    runs = {}
    probs = []
    for name in ("A", "B"):
        cfg = case[name]
        p, fm, out = build(case, cfg)
        pool = ctx.pool("asan", nprocs=4 if cfg["k"] <= 4 else 8)
        res, d = pool.run(p.s, keepdir=True)
        try:
            pr = p.evaluate(res)
            if not pr:
                pr += decode_compare(os.path.join(d, "final"), fm, "independent decode")
                pr += check_hints(res, out, cfg, case["schema"], "hints")
            for x in pr:
                x["msg"] = "[configuration %s: k=%d %s%s%s] %s" % (name, cfg["k"], cfg["hints"], " via PNETCDF_HINTS" if cfg["via_env"] else "", " safe mode" if cfg["safe"] else "", x["msg"])
            probs += pr
            data = open(os.path.join(d, "final"), "rb").read()
            runs[name] = (res, out, fm, data)
        except OSError as ex:
            probs.append({"kind": "nofile", "msg": "configuration %s: %s" % (name, ex), "sig": {"kind": "nofile"}})
        finally:
            shutil.rmtree(d, ignore_errors=True)
    if not probs and len(runs) == 2:
        (ra, oa, fa, da), (rb, ob, fb, db) = runs["A"], runs["B"]
        # return codes per logical request: the set of codes over the ranks must agree between the configurations
        for (la, sa), (lb, sb) in zip(oa["rcs"], ob["rcs"]):
            ca = sorted(set(ra.rc(n, r) for r, n in sa))
            cb = sorted(set(rb.rc(n, r) for r, n in sb))
            if ca != cb:
                probs.append({"kind": "rc_diff", "msg": "logical request %s: return codes %s under A, %s under B" % (la, ca, cb), "sig": {"kind": "rc_differs"}})
        try:
            la, aa = logical_of(da)
            lb, ab = logical_of(db)
            if la != lb:
                diff = [k_ for k_ in la if la[k_] != lb[k_]]
                probs.append({"kind": "diff", "msg": "logical header content of the two output files differs in %s" % diff, "sig": {"kind": "differential_meta"}})
            elif la["gatts"] != oa["gatts"]:
                probs.append({"kind": "diff", "msg": "global attributes of the output files are not the ones written", "sig": {"kind": "gatts"}})
            else:
                for i, (x, y) in enumerate(zip(aa, ab)):
                    known = fa.vars[i].mask != 0
                    if x.shape != y.shape or x.shape != known.shape:
                        probs.append({"kind": "diff", "msg": "variable %d has different shapes in the two files" % i, "sig": {"kind": "differential_shape"}})
                        continue
                    bad = known & neq_bytes(x, y)
                    if bad.any():
                        probs.append({"kind": "diff", "msg": "variable %d: %d written elements differ between configuration A and B" % (i, int(bad.sum())), "sig": {"kind": "differential_data"}})
        except Exception as ex:
            probs.append({"kind": "decode", "msg": "decoding the output files failed: %r" % ex, "sig": {"kind": "decode"}})
    A, B = case["A"], case["B"]
    if any(x["op"] == "iwrite_shared" for x in case["steps"]) and any(c_["hints"].get("nc_in_place_swap") != "disable" for c_ in (A, B)):
        # only reachable through replays: the generator disables in-place swap whenever a buffer is shared (F58)
        for pr in probs:
            pr["sig"] = dict(pr.get("sig") or {}, cause="shared_buffer_in_place_swap")
    labels = set(["kA%d" % A["k"], "kB%d" % B["k"], "fmt%d" % case["schema"]["fmt"]])
    differ = A["k"] != B["k"] or any(A["hints"].get(h) != B["hints"].get(h) for h in ("nc_num_aggrs_per_node", "nc_ibuf_size", "nc_in_place_swap", "romio_no_indep_rw"))
    for c_ in (A, B):
        for h, val in c_["hints"].items():
            labels.add("hint_" + h)
            if h in ("nc_num_aggrs_per_node", "nc_ibuf_size", "nc_in_place_swap"):
                labels.add("%s=%s" % (h, val if h != "nc_num_aggrs_per_node" else ("0" if val == "0" else "all" if int(val) == c_["k"] else "some")))
        if c_["via_env"] and c_["hints"]:
            labels.add("via_PNETCDF_HINTS")
            if c_.get("decoy"):
                labels.add("PNETCDF_HINTS_overrides_conflicting_MPI_Info")
    for nm in ("A", "B"):
        if nm in runs and runs[nm][1].get("solo_iput", 0) >= 2 and case[nm]["k"] > 1:
            labels.add("several_iputs_pending_on_one_rank_only")
    if A["k"] != B["k"]:
        labels.add("k_differs")
    if A["safe"] != B["safe"]:
        labels.add("safe_mode_differs")
    if any(x["op"] == "iwrite_shared" for x in case["steps"]):
        labels.add("two_pending_iputs_share_one_buffer(in_place_swap_disabled)")
        ctx.excluded_known += 1
    for stp in case["steps"]:
        labels.add("step_" + stp["op"] + ("_indep" if stp.get("indep") else ""))
        if stp["op"] in ("write", "iwrite", "read"):
            nb = int(np.prod(stp["box"][1])) * M.XT_SIZE[case["schema"]["vars"][stp["var"]]["xt"]]
            labels.add("request_over_4096B" if nb > 4096 else "request_under_4096B")
            labels.add("form_" + stp["form"])
    ctx.count(*labels)
    nn = runs["A"][1]["noncontig"] if "A" in runs else 0
    if differ and nn >= 3:
        ctx.nontrivial(runner.case_hash(case))
    ctx.sample({"A": A, "B": B, "steps": case["steps"][:6]})
    return probs


def case_script(case):
    return build(case, case["A"])[0].s.text("<dir>")[0]


def campaign(ctx):
    n = {"quick": 400, "thorough": 1500}[ctx.tier]
    runner.run_hypothesis(ctx, case_strategy(ctx.tier), runner.guarded(run_case), n)


if __name__ == "__main__":
    runner.main("checks.c10", PROP, default_workers=6, nt_floor=10)
