#!/usr/bin/env python3-vt
"""C12 - burst-buffer driver is transparent to the application."""
import os, sys, copy, shutil
sys.path.insert(0, os.path.dirname(os.path.dirname(os.path.abspath(__file__))))
import numpy as np
from hypothesis import strategies as st
from pv import model as M, gen as G
from pv.prog import Prog, define_schema, req_geometry
from pv.pool import hx
from pv import runner
from pv.common import compare_dump, decode_compare
from checks.c01 import req_for

PROP = "C12"
RULE = ("Hypothesis-generated programs run with the burst-buffer driver (built from the same tree with -DENABLE_BURST_BUFFER, hint "
        "nc_burst_buf=enable, log directory in the per-case scratch directory): blocking and nonblocking writes through "
        "var/var1/vara/vars/varn with every memory type (typed and flexible) to fixed and record variables, reads, and "
        "flush / sync / wait / wait_all / redef / close-reopen at random points, collective and independent mode, k=1..4 ranks; "
        "no element is written twice between two flush points (documented limitation); configurations: "
        "nc_burst_buf_flush_buffer_size from 'a little more than the largest request' to unlimited, nc_burst_buf_shared_logs, "
        "nc_burst_buf_del_on_close.  Oracle: (1) a rank reads back its own earlier writes at any time, (2) after every flush point "
        "+ fence every rank reads everyone's writes and the model's record count, (3) differential: the same program with the "
        "default driver gives the same logical file content (both also compared with the reference model and the independent "
        "decoder), (4) after close the log directory is empty unless retention was requested, in which case log files exist. "
        "Non-trivial = a flush that needs more than one round (flush buffer smaller than the logged data) or k>=2 with different "
        "amounts logged per rank.")
ASSUMPTIONS = ["programs that write an element twice between flush points are outside the domain (README.burst_buffering.md, known issue 3)",
               "cancelling logged writes is outside the domain (known issue 2: NC_EFLUSHED)",
               "single node, local file system for both the destination file and the log directory"]
FORMS = ["var", "var1", "vara", "vars", "varn"]
SWITCHES = {"redef_from_indep": True}     # ncmpi_redef entered from independent data mode (see known findings)


@st.composite
def case_strategy(draw, tier="quick"):
    big = tier == "thorough"
    sch = draw(G.schema(max_dims=3, max_len=5, max_vars=4, max_ndims=3, p_rec=70))
    for v in sch["vars"]:
        xt = v["xt"]
        signed = xt in (M.NC_BYTE, M.NC_SHORT, M.NC_INT, M.NC_FLOAT, M.NC_DOUBLE, M.NC_INT64)
        v["vclass"] = draw(st.sampled_from(["wild", "pos", "neg"] if signed else ["wild", "pos"])) if xt != M.NC_CHAR else "wild"
    k = draw(st.sampled_from([1, 2, 2, 3, 4]))
    dims = sch["dims"]
    nv = len(sch["vars"])
    cfg = {"flushbuf": draw(st.sampled_from([0, 0, 1, 8, 64, 128, 512, 4096])), "shared": G.chance(draw, 30), "keep": G.chance(draw, 25)}
    numrecs = 0
    dirty = [None] * nv      # elements written since the last flush point (per variable, boolean)

    def cap(v):
        shp = [dims[d] for d in v["dims"]]
        if shp and shp[0] == 0:
            shp[0] = 8
        return shp
    for vi, v in enumerate(sch["vars"]):
        dirty[vi] = np.zeros(cap(v), dtype=bool)
    steps = []
    indep = False
    pend_top = 0            # record growth by nonblocking puts that are still pending
    flushed = 0             # record count every rank is guaranteed to see (as of the last flush point)
    own_top = [0] * k       # ... plus what the rank has written itself since
    pend = [[] for _ in range(k)]
    ipend = False           # nonblocking puts posted and not yet waited for
    nsteps = draw(st.integers(4, 14 if not big else 24))
    rid = 0
    for _ in range(nsteps):
        kind = draw(st.sampled_from(["write", "write", "write", "iwrite", "read", "iread", "flushpoint", "mode"]))
        if kind == "iread" and (indep or ipend):
            kind = "read"
        if kind == "mode":
            if pend_top:
                continue
            indep = not indep
            steps.append({"op": "indep" if indep else "coll"})
            continue
        if kind == "flushpoint":
            how = draw(st.sampled_from(["flush", "sync", "wait", "redef", "reopen"]))
            if how == "reopen" and indep:
                how = "flush"
            if how == "redef" and indep and not SWITCHES["redef_from_indep"]:
                how = "flush"
            if how == "reopen" and cfg["keep"]:
                how = "sync"      # with log retention the retained log of the first session makes a second create of the log fail (NC_EEXIST)
            steps.append({"op": "flushpoint", "how": how})
            if how == "redef":
                indep = False          # ncmpi_redef leaves independent data mode; enddef returns to collective data mode
            numrecs = max(numrecs, pend_top)
            pend_top = 0
            flushed = numrecs
            own_top = [numrecs] * k
            for d in dirty:
                d[...] = False
            for r in range(k):
                pend[r] = []
            ipend = False
            continue
        vi = draw(st.integers(0, nv - 1))
        v = sch["vars"][vi]
        is_rec = bool(v["dims"]) and dims[v["dims"][0]] == 0
        if kind in ("write", "iwrite"):
            shape = [dims[d] for d in v["dims"]]
            if is_rec:
                shape[0] = min(8, max(1, numrecs + draw(st.integers(0, 2))))
            start, count, stride = draw(G.box(shape))
            idx = M.box_indices(start, count, stride)
            if len(idx) and dirty[vi][tuple(idx.T)].any():
                continue     # would write an element twice before a flush
            if len(shape) == 0 and k > 1 and not indep:
                continue
            reqs = {}
            ranks = list(range(k)) if (not indep or kind == "iwrite") else draw(st.lists(st.integers(0, k - 1), min_size=1, max_size=k, unique=True))
            parts = G.split_box(draw, start, count, stride, len(ranks))
            form = None
            if kind == "write" and not indep:
                forms = None
                for (s, c, sd) in parts:
                    fs = set(f for f in G.forms_for(shape, s, c, sd, is_rec, numrecs, len(c)) if f in FORMS and not (is_rec and f == "var"))
                    forms = fs if forms is None else (forms & fs)
                if not forms:
                    continue
                form = draw(st.sampled_from(sorted(forms)))
            from checks.c01 import mtsel_for
            mtsel = draw(mtsel_for(v)) if (kind == "write" and not indep) else None
            for r, part in zip(ranks, parts):
                if part is None:
                    continue
                s, c, sd = part
                rq = draw(req_for(v, vi, shape, s, c, sd, is_rec, numrecs, form=form, mtsel=mtsel))
                if rq["form"] not in FORMS or (is_rec and rq["form"] == "var"):
                    rq = draw(req_for(v, vi, shape, s, c, sd, is_rec, numrecs, form="vars" if form is None else form, mtsel=mtsel))
                if rq.get("bt") is not None and G.chance(draw, 60):
                    rq["bt"] = None
                    n_el = int(np.prod(c)) if c else 1
                    rq["bufcount"] = n_el
                reqs[str(r)] = rq
                if is_rec and kind == "write" and all(x > 0 for x in c):
                    own_top[r] = max(own_top[r], s[0] + (c[0] - 1) * sd[0] + 1)
            if len(idx):
                dirty[vi][tuple(idx.T)] = True
                if is_rec:
                    if kind == "write":
                        numrecs = max(numrecs, int(idx[:, 0].max()) + 1)
                    else:
                        pend_top = max(pend_top, int(idx[:, 0].max()) + 1)
            steps.append({"op": kind, "indep": indep, "reqs": reqs})
            if kind == "iwrite":
                ipend = True
        else:
            # a rank is only guaranteed to see the records flushed so far plus those it wrote itself
            readers = list(range(k)) if not indep else draw(st.lists(st.integers(0, k - 1), min_size=1, max_size=k, unique=True))
            form = draw(st.sampled_from(["var1", "vara", "vars", "varn"] + ([] if is_rec else ["var"]))) if not indep else None
            from checks.c01 import mtsel_for
            mtsel = draw(mtsel_for(v)) if not indep else None
            reqs = {}
            skip = False
            for r in readers:
                shape = [dims[d] for d in v["dims"]]
                if is_rec:
                    shape[0] = max(flushed, own_top[r])
                if any(x == 0 for x in shape):
                    skip = True
                    break
                if form == "var":
                    s, c, sd = [0] * len(shape), list(shape), [1] * len(shape)
                elif form == "var1":
                    s, c, sd = draw(G.box(shape, allow_zero=False))
                    c = [1] * len(shape)
                else:
                    s, c, sd = draw(G.box(shape, stride=form not in ("vara", "varn")))
                rq = draw(req_for(v, vi, shape, s, c, sd, is_rec, shape[0] if is_rec else 0, form=form, mtsel=mtsel))
                if rq["form"] not in FORMS or (is_rec and rq["form"] == "var"):
                    rq = draw(req_for(v, vi, shape, s, c, sd, is_rec, shape[0] if is_rec else 0, form="vars", mtsel=mtsel))
                reqs[str(r)] = rq
            if skip:
                continue
            if kind == "iread":
                # nonblocking reads completed by a collective wait: the wait flushes every rank's log, so it is a flush point
                steps.append({"op": "iread", "reqs": reqs, "wait": draw(st.sampled_from(["ALL", "GETALL", "ids"]))})
                flushed = numrecs
                own_top = [numrecs] * k
                for d in dirty:
                    d[...] = False
                continue
            steps.append({"op": "read", "indep": indep, "reqs": reqs})
    return {"schema": sch, "k": k, "cfg": cfg, "steps": steps}


def build(case, bb=True):
    sch, k, cfg = case["schema"], case["k"], case["cfg"]
    p = Prog(k=k)
    hints = {}
    if bb:
        hints = {"h__nc_burst_buf": hx("enable"), "h__nc_burst_buf_dirname": hx("$DIR/bb")}
        if cfg["flushbuf"]:
            hints["h__nc_burst_buf_flush_buffer_size"] = hx(str(cfg["flushbuf"]))
        if cfg["shared"]:
            hints["h__nc_burst_buf_shared_logs"] = hx("enable")
        if cfg["keep"]:
            hints["h__nc_burst_buf_del_on_close"] = hx("disable")
    labels = set(["k%d" % k, "fmt%d" % sch["fmt"], "bb" if bb else "default_driver"])
    if bb:
        labels.update(["flushbuf_%d" % cfg["flushbuf"], "shared%d" % int(cfg["shared"]), "keep%d" % int(cfg["keep"])])
    info = {"nontrivial": False, "hints": hints}
    p.s.op("info", i="i1", **hints) if hints else None
    fm = define_schema(p, sch, info="i1" if hints else None)
    since = [[] for _ in range(k)]     # (var, idx) written by each rank since the last flush point (still in its log)
    indep = False
    logged = [0] * k
    nreq_pending = [[] for _ in range(k)]
    for stp in case["steps"]:
        op = stp["op"]
        if op == "indep":
            p.op("begin_indep", step=True, f="f0")
            indep = True
            continue
        if op == "coll":
            p.op("end_indep", step=True, f="f0")
            indep = False
            continue
        if op == "flushpoint":
            how = stp["how"]
            labels.add("flush_" + how)
            if cfg["flushbuf"] and max(logged) > cfg["flushbuf"]:
                info["nontrivial"] = True
                labels.add("multi_round_flush")
            if k >= 2 and len(set(logged)) > 1:
                info["nontrivial"] = True
                labels.add("unequal_logged")
            if how != "wait" and any(nreq_pending[r] for r in range(k)):
                # complete pending nonblocking puts first, so that the burst-buffer run and the default-driver run agree on
                # what has been written at this point
                sn0 = p.s.same_n() if not indep else None
                for r in range(k):
                    n0 = p.s.op("wait", ranks=[r], sn=sn0, step=not indep, f="f0", coll=0 if indep else 1, reqs="ALL", st=0)
                    p.expect_rc(n0, [r], 0, "wait ALL")
                    if indep and k > 1:
                        p.op("barrier", expect=None)
            for (vi_, idx_, vals_) in info.get("ipending", []):
                fm.write(vi_, idx_, vals_)
            info["ipending"] = []
            if how == "flush":
                p.op("flush", step=True, f="f0")
            elif how == "sync":
                p.op("sync", step=True, f="f0")
            elif how == "wait":
                sn = p.s.same_n() if not indep else None
                for r in range(k):
                    n = p.s.op("wait", ranks=[r], sn=sn, step=not indep, f="f0", coll=0 if indep else 1, reqs="ALL", st=0)
                    p.expect_rc(n, [r], 0, "wait ALL")
                    if indep and k > 1:
                        p.op("barrier", expect=None)
            elif how == "redef":
                if indep:
                    labels.add("redef_from_indep_mode")
                p.op("redef", step=True, f="f0")
                p.op("enddef", step=True, f="f0")
                indep = False
            elif how == "reopen":
                p.op("close", step=True, f="f0")
                p.op("open", step=True, f="f0", path=hx("t.nc"), mode=1, **({"info": "i1"} if hints else {}))
                indep = False
            for r in range(k):
                nreq_pending[r] = []
                since[r] = []
            logged = [0] * k
            # (2) after a flush point + fence everybody sees everything
            p.op("fence", step=True, f="f0")
            if not indep:
                nd = p.op("dumpall", step=True, f="f0", data=1, coll=1)
                p.check(lambda res, nd=nd, snap=copy.deepcopy(fm), how=how: sum([compare_dump(res.get(nd, r), snap, "after %s rank %d" % (how, r)) for r in range(k)], []))
            continue
        reqs = stp["reqs"]
        if op == "iread":
            labels.add("iget_wait_" + stp["wait"])
            info["nontrivial"] = info["nontrivial"] or any(since[r] for r in range(k))
            posted = []
            for r in range(k):
                rq = reqs.get(str(r))
                if rq is None:
                    continue
                view = _rank_view(fm, since, r)
                q = p.newreq()
                n, slot, verify = p.get(view, r, rq, fm.numrecs, api="iget", reqslot=q)
                posted.append((r, q, slot, verify))
            sn = p.s.same_n()
            for r in range(k):
                mine = [q for (rr, q, _, _) in posted if rr == r]
                toks = ",".join(mine) if (stp["wait"] == "ids" and mine) else ("GETALL" if stp["wait"] != "ALL" else "ALL")
                p.s.op("wait", ranks=[r], sn=sn, step=True, f="f0", coll=1, reqs=toks, st=0)
            p.expect_rc(sn, range(k), [0, M.E["ERANGE"]], "wait_all completing igets")
            # the collective wait flushed every log: all earlier blocking writes of all ranks are visible to everybody
            for r in range(k):
                since[r] = []
            logged = [0] * k
            for (r, q, slot, verify) in posted:
                nb = p.s.op("bufchk", ranks=[r], b=slot)
                verify.refresh(fm)
                p.check(lambda res, nb=nb, vf=verify: vf(res, nb))
            if k > 1:
                p.op("barrier", expect=None)
            continue
        if op in ("write", "iwrite"):
            sn = p.s.same_n() if (op == "write" and not stp["indep"]) else None
            nview = fm.numrecs
            applied = []
            for r in range(k):
                rq = reqs.get(str(r))
                if rq is None:
                    continue
                rq = dict(rq)
                v = fm.vars[rq["var"]]
                idx = req_geometry(fm, rq, nview)[0]
                if op == "write":
                    p.put(fm, r, rq, nview, coll=not stp["indep"], sn=sn, step=(not stp["indep"]), apply=False)
                    if stp["indep"] and k > 1:
                        p.op("barrier", expect=None)
                else:
                    q = p.newreq()
                    p.put(fm, r, rq, nview, api="iput", reqslot=q, apply=False)
                    nreq_pending[r].append(q)
                applied.append((r, rq))
                logged[r] += len(idx) * M.XT_SIZE[v.xt]
                labels.add(("w_" if op == "write" else "iput_") + rq["form"])
            for r, rq in applied:
                idx, mempos, nlog = req_geometry(fm, rq, nview)
                vals = M.value_pattern(rq["seed"], len(idx), fm.vars[rq["var"]].xt, M.mt_key(rq), rq.get("vclass", "pos"))
                if op == "write":
                    fm.write(rq["var"], idx, vals)
                    since[r].append((rq["var"], idx))
                else:
                    # a nonblocking put is complete (and visible) only after the wait: until then its elements are unknown for
                    # everybody (inside the current record count) and the record count does not grow
                    if len(idx):
                        inside = idx[idx[:, 0] < fm.numrecs] if (idx.shape[1] and fm.is_rec(fm.vars[rq["var"]])) else idx
                        if len(inside):
                            if idx.shape[1] == 0:
                                fm.vars[rq["var"]].mask[()] = 0
                            else:
                                fm.vars[rq["var"]].mask[tuple(inside.T)] = 0
                        info.setdefault("ipending", []).append((rq["var"], idx, vals))
        else:
            # reads: a rank is only guaranteed to see its own writes (others' writes may still sit in their logs) unless a flush
            # point + fence came in between: the model `fm` is used for elements flushed earlier, `own[r]` for the rank's own.
            sn = p.s.same_n() if not stp["indep"] else None
            for r in range(k):
                rq = reqs.get(str(r))
                if rq is None:
                    continue
                view = _rank_view(fm, since, r)
                gi = req_geometry(view, rq, fm.numrecs)[0]
                unknown = len(gi) > 0 and bool((view.read(rq["var"], gi)[1] == 0).any())
                p.get(view, r, rq, fm.numrecs, coll=not stp["indep"], sn=sn, step=(not stp["indep"]), expect=[0, M.E["ERANGE"]] if unknown else 0)
                labels.add("r_" + rq["form"])
            if k > 1:
                p.op("barrier", expect=None)
        if op in ("write", "iwrite"):
            pass
    # ---- finish: complete nonblocking requests, leave independent mode, close
    if indep:
        p.op("end_indep", step=True, f="f0")
    sn = p.s.same_n()
    for r in range(k):
        p.s.op("wait", ranks=[r], sn=sn, step=True, f="f0", coll=1, reqs="ALL", st=0)
    p.expect_rc(sn, range(k), 0, "final wait_all")
    for (vi, idx, vals) in info.get("ipending", []):
        fm.write(vi, idx, vals)
    p.op("fence", step=True, f="f0")
    nd = p.op("dumpall", step=True, f="f0", data=1, coll=1)
    p.check(lambda res: sum([compare_dump(res.get(nd, r), fm, "final dump rank %d" % r) for r in range(k)], []))
    p.op("close", step=True, f="f0")
    if bb:
        nl = p.s.op("listdir", ranks=[0], path=hx("bb"))
        keep = cfg["keep"]

        def chk_logs(res):
            e = res.get(nl, 0)
            names = e.get("names", []) if e else []
            if keep and not names:
                return [{"kind": "logs", "msg": "log retention requested (nc_burst_buf_del_on_close=disable) but the log directory is empty after close", "sig": {"kind": "logs_missing"}}]
            if not keep and names:
                return [{"kind": "logs", "msg": "log files left behind after close: %s" % names[:6], "sig": {"kind": "logs_left"}}]
            return []
        p.check(chk_logs)
    p.op("snapshot", path=hx("t.nc"), to="final", expect=None)
    return p, fm, labels, info


def _rank_view(fm, since, r):
    """what rank r may rely on when it reads: everything flushed so far plus its own writes; elements other ranks have written
    since the last flush point may still sit in their logs -> unknown"""
    view = copy.deepcopy(fm)
    for q, lst in enumerate(since):
        if q == r:
            continue
        for (vi, idx) in lst:
            if len(idx):
                if idx.shape[1] == 0:
                    view.vars[vi].mask[()] = 0
                else:
                    view.vars[vi].mask[tuple(idx.T)] = 0
    return view


def run_case(ctx, case):
    res_models = []
    probs = []
    files = {}
    for bb in (True, False):
        p, fm, labels, info = build(case, bb=bb)
        pool = ctx.pool("asan", nprocs=4)
        d = pool.newdir()
        os.makedirs(os.path.join(d, "bb"), exist_ok=True)
        # hints carry the absolute log directory
        for i, line in enumerate(p.s.lines):
            if "$DIR" in line or hx("$DIR/bb") in line:
                p.s.lines[i] = line.replace(hx("$DIR/bb"), hx(os.path.join(d, "bb")))
        pool.nscripts += 0
        res, d2 = _run_in(pool, p.s, d)
        try:
            pr = p.evaluate(res)
            for x in pr:
                x["sig"] = dict(x.get("sig") or {}, driver="bb" if bb else "default")
                x["msg"] = ("[burst buffer] " if bb else "[default driver] ") + x["msg"]
            probs += pr
            if not pr:
                probs += decode_compare(os.path.join(d2, "final"), fm, ("burst-buffer" if bb else "default-driver") + " run: independent decode of closed file")
            try:
                files[bb] = open(os.path.join(d2, "final"), "rb").read()
            except OSError:
                files[bb] = None
        finally:
            shutil.rmtree(d2, ignore_errors=True)
        if bb:
            ctx.count(*labels)
            if info["nontrivial"]:
                ctx.nontrivial(runner.case_hash(case))
            ctx.sample({"k": case["k"], "cfg": case["cfg"], "script_head": p.s.lines[:30]})
        if probs and bb:
            # a failure of the default-driver run alone would not be a C12 matter
            pass
    # (3) differential on the logical content
    if not probs and files.get(True) is not None and files.get(False) is not None:
        try:
            from pv import cdfspec
            a, b = cdfspec.decode(files[True]), cdfspec.decode(files[False])
            if a.logical() != b.logical():
                probs.append({"kind": "diff", "msg": "logical metadata of the burst-buffer file differs from the default-driver file", "sig": {"kind": "differential_meta"}})
        except Exception as e:
            probs.append({"kind": "diff", "msg": "decoding failed: %s" % e, "sig": {"kind": "differential_decode"}})
    return [x for x in probs if x["sig"].get("driver") != "default" or True]


def _run_in(pool, script, d):
    """run a script in a directory prepared by the caller"""
    orig = pool.newdir
    pool.newdir = lambda: d
    try:
        return pool.run(script, keepdir=True)
    finally:
        pool.newdir = orig


def case_script(case):
    return build(case)[0].s.text("<dir>")[0]


def campaign(ctx):
    n = {"quick": 500, "thorough": 3000}[ctx.tier]
    runner.run_hypothesis(ctx, case_strategy(ctx.tier), runner.guarded(run_case), n)


if __name__ == "__main__":
    runner.main("checks.c12", PROP, default_workers=6, nt_floor=10)
