#!/usr/bin/env python3-vt
"""C08 - collective calls match on all ranks: no deadlock, errors stay local."""
import os, sys, struct, itertools
sys.path.insert(0, os.path.dirname(os.path.dirname(os.path.abspath(__file__))))
import numpy as np
from hypothesis import strategies as st
from pv import model as M, gen as G
from pv.prog import Prog
from pv.pool import hx, PoolError
from pv import runner

PROP = "C08"
RULE = ("For each collective API family (blocking put/get *_all of forms var1/vara/vars/varm/varn/vard typed and flexible on a "
        "fixed and on a record variable, wait_all, fill_var_rec, safe-mode metadata calls) and k=2..4 ranks, every rank is assigned "
        "one class of {valid, zero-length, one kind of non-fatal invalid argument}; aggregation hint 0..k and safe mode on/off. "
        "Oracle: (1) PMPI shadow matcher: identical sequence of MPI collectives on all ranks inside every API step, (2) every rank "
        "returns, (3) the invalid rank gets the documented code, valid ranks get NC_NOERR and their data is in the file / their "
        "read buffer is right, (4) safe mode: all ranks return the same non-zero code. Quick: Hypothesis sample; thorough: "
        "exhaustive product family x class^2 for k=2 plus random k=3,4. Non-trivial = at least one invalid or zero-length rank "
        "together with at least one valid rank; distinct = distinct case hash.")
ASSUMPTIONS = ["timing-independent: decided from per-rank collective sequences (shadow Allgather before each library collective), "
               "not by exploring MPI progress non-determinism", "OpenMPI 4.1.4 + ROMIO, one node",
               "fatal mode errors (EPERM/EINDEFINE/EINDEP/ENOTINDEP/EBADID) are outside the generated domain: the API comments require them to be uniform"]

X, Y = 4, 3
E = M.E
# variable ids in the fixed schema
V_FIX, V_REC, V_CHAR, V_REC2, V_SCALAR = 0, 1, 2, 3, 4

INVALID = {
    # class: (forms it applies to, expected error)
    "neg_start": (("var1", "vara", "vars", "varm", "varn"), E["EINVALCOORDS"]),
    "start_eq_len": (("var1", "vara", "vars", "varm", "varn"), E["EINVALCOORDS"]),
    "count_big": (("vara", "vars", "varm", "varn"), E["EEDGE"]),
    "neg_count": (("vara", "vars", "varm", "varn"), E["ENEGATIVECNT"]),
    "stride0": (("vars", "varm"), E["ESTRIDE"]),
    "neg_stride": (("vars", "varm"), E["ESTRIDE"]),
    "bad_varid": (("var1", "vara", "vars", "varm", "varn", "vard"), E["ENOTVAR"]),
    "global_varid": (("var1", "vara", "vars", "varm", "varn", "vard"), E["EGLOBAL"]),
    "echar": (("var1", "vara", "vars", "varm", "varn"), E["ECHAR"]),          # typed numeric API on the char variable
    "null_start": (("varn",), E["ENULLSTART"]),
    "bufcount_mismatch": (("vara", "vars", "varm", "varn", "var1"), E["EIOMISMATCH"]),   # flexible only
    "bad_buftype": (("vara", "vars", "var1"), None),                            # flexible only, MPI_LONG_DOUBLE: any error
}
FORMS = ["var1", "vara", "vars", "varm", "varn", "vard"]


def classes_for(form, flex):
    out = ["valid", "zero"]
    for c, (forms, _) in INVALID.items():
        if form not in forms:
            continue
        if c in ("bufcount_mismatch", "bad_buftype") and not flex:
            continue
        if c == "echar" and flex:
            continue
        out.append(c)
    if form == "var1":
        out.remove("zero")
    if form == "varn":
        out += ["valid2", "valid2", "zero0"]      # varn with a different number of sub-requests on different ranks (2, 1, 0)
    return out


@st.composite
def case_strategy(draw, tier="quick"):
    fam = draw(st.sampled_from(["data"] * 6 + ["wait_all", "fill_var_rec", "safe_meta", "safe_meta", "safe_meta", "varn_scalar", "sync_indep"]))
    k = draw(st.sampled_from([2, 2, 3, 4]))
    safe = G.chance(draw, 20)
    aggr = draw(st.sampled_from([0, 0, 0, 1, 2]))
    case = {"fam": fam, "k": k, "safe": safe, "aggr": aggr}
    if fam == "data":
        form = draw(st.sampled_from(FORMS))
        flex = form == "vard" or G.chance(draw, 40)
        kind = draw(st.sampled_from(["put", "get"]))
        target = draw(st.sampled_from(["fixed", "record"]))
        cl = classes_for(form, flex)
        classes = [draw(st.sampled_from(cl)) if G.chance(draw, 60) else "valid" for _ in range(k)]
        case.update(form=form, flex=flex, kind=kind, target=target, classes=classes)
    elif fam == "wait_all":
        case["nreq"] = [draw(st.integers(0, 2)) for _ in range(k)]
        case["classes"] = [draw(st.sampled_from(["valid", "valid", "bad_reqid", "null_only"])) for _ in range(k)]
        case["target"] = draw(st.sampled_from(["fixed", "record"]))
    elif fam == "fill_var_rec":
        case["classes"] = [draw(st.sampled_from(["valid", "valid", "bad_varid", "not_recvar"])) for _ in range(k)]
    elif fam == "safe_meta":
        case["safe"] = True
        case["what"] = draw(st.sampled_from(["def_dim_len", "def_dim_name", "def_var_type", "def_var_dims", "put_att_val", "put_att_len",
                                             "rename_var", "rename_dim", "enddef_args", "set_fill", "def_var_fill", "consistent",
                                             "rename_dim_same", "rename_var_same", "rename_att_same", "def_dim_same_name_diff_len"]))
        case["odd"] = draw(st.integers(1, k - 1))
    elif fam == "varn_scalar":
        case["kind"] = draw(st.sampled_from(["put", "get"]))
        case["writer"] = draw(st.integers(0, k - 1))
    elif fam == "sync_indep":
        # records appended in independent mode by a subset of the ranks, then a collective synchronisation call by everybody
        case["writers"] = sorted(draw(st.sets(st.integers(0, k - 1), min_size=0, max_size=k - 1)))
        case["how"] = draw(st.sampled_from(["sync_numrecs", "sync_numrecs", "sync", "end_indep"]))
    return case


def setup(p, case):
    """create the fixed schema; returns list of statement numbers"""
    k = case["k"]
    env = {}
    if case.get("safe"):
        env["e__PNETCDF_SAFE_MODE"] = hx("1")
    else:
        env["e__PNETCDF_SAFE_MODE"] = hx("0")
    p.s.op("env", **env)
    kw = {}
    if case.get("aggr"):
        p.s.op("info", i="i1", **{"h__nc_num_aggrs_per_node": hx(str(min(case["aggr"], k)))})
        kw["info"] = "i1"
    p.op("create", step=True, f="f0", path=hx("t.nc"), mode=0, **kw)
    p.op("def_dim", step=True, f="f0", name=hx("t"), len=0)
    p.op("def_dim", step=True, f="f0", name=hx("x"), len=X)
    p.op("def_dim", step=True, f="f0", name=hx("y"), len=Y)
    p.op("def_var", step=True, f="f0", name=hx("fix"), xt=M.NC_INT, dims=[1, 2], ndims=2)
    p.op("def_var", step=True, f="f0", name=hx("rec"), xt=M.NC_INT, dims=[0, 2], ndims=2)
    p.op("def_var", step=True, f="f0", name=hx("chr"), xt=M.NC_CHAR, dims=[1, 2], ndims=2)
    p.op("def_var", step=True, f="f0", name=hx("rec2"), xt=M.NC_DOUBLE, dims=[0, 1], ndims=2)
    p.op("def_var", step=True, f="f0", name=hx("sca"), xt=M.NC_INT, dims=[], ndims=0)
    p.op("def_var_fill", step=True, f="f0", v=V_REC2, nofill=0)     # fill_var_rec needs a variable in fill mode
    p.op("put_att", step=True, f="f0", v=-1, name=hx("ga"), xt=M.NC_INT, mt="int", n=1, hex=struct.pack("i", 7))


def row_vals(r, tag):
    return [tag * 1000 + r * 10 + j for j in range(Y)]


def prefill(p, k, tag=1):
    """every rank writes its row / record of both int variables (valid collective calls)"""
    for vid in (V_FIX, V_REC):
        sn = p.s.same_n()
        for r in range(k):
            b = p.newbuf()
            p.s.op("buf", ranks=[r], b=b, size=4 * Y, hex=struct.pack("%di" % Y, *row_vals(r, tag)))
            n = p.s.op("data", ranks=[r], sn=sn, step=True, api="put", form="vara", coll=1, mt="int", f="f0", v=vid, start=[r, 0], count=[1, Y], buf=b)
        p.expect_rc(sn, range(k), 0, "prefill")
    p.op("fence", step=True, f="f0")


def data_args(case, r, cls):
    """index arguments of rank r for its class; returns (kwargs, nelems, varid, expected_error)"""
    form, flex, target = case["form"], case["flex"], case["target"]
    vid = V_FIX if target == "fixed" else V_REC
    start, count, stride = [r, 0], [1, Y], [1, 1]
    if form == "var1":
        count = [1, 1]
    nel = count[0] * count[1]
    exp = 0
    if cls == "zero":
        count = [1, 0]
        nel = 0
    elif cls == "neg_start":
        start = [r, -1]
    elif cls == "start_eq_len":
        start = [r, Y]
    elif cls == "count_big":
        count = [1, Y + 1]
    elif cls == "neg_count":
        count = [1, -1]
    elif cls == "stride0":
        stride = [1, 0]
    elif cls == "neg_stride":
        stride = [1, -1]
    elif cls == "bad_varid":
        vid = 99
    elif cls == "global_varid":
        vid = -1
    elif cls == "echar":
        vid = V_CHAR
    if cls in INVALID:
        exp = INVALID[cls][1]
    kw = {}
    if form == "var1":
        kw["start"] = start
    elif form == "vara":
        kw.update(start=start, count=count)
    elif form == "vars":
        kw.update(start=start, count=count, stride=stride)
    elif form == "varm":
        kw.update(start=start, count=count, stride=stride, imap=[Y, 1])
    elif form == "varn":
        if cls == "null_start":
            kw.update(num=1, starts=None, counts=[count])
        elif cls == "valid2":
            kw.update(num=2, starts=[[r, 0], [r, 1]], counts=[[1, 1], [1, Y - 1]])
        elif cls == "zero0":
            kw.update(num=0, starts=None, counts=None)
            nel = 0
        else:
            kw.update(num=1, starts=[start], counts=[count])
    bufn = max(nel, 1) if cls in ("valid", "valid2", "zero", "zero0") else Y
    if flex:
        if cls == "bad_buftype":
            kw.update(buftype="ldouble", bufcount=nel)
        else:
            kw.update(buftype="int", bufcount=nel + (1 if cls == "bufcount_mismatch" else 0))
    return kw, nel, vid, exp, bufn, (start, count)


def build(case):
    k = case["k"]
    p = Prog(k=k)
    setup(p, case)
    fam = case["fam"]
    info = {"nontrivial": False, "labels": set(["fam_" + fam, "k%d" % k, "safe%d" % int(bool(case.get("safe"))), "aggr%d" % case.get("aggr", 0)])}
    if fam == "safe_meta":
        build_safe_meta(p, case, info)
        return p, info
    p.op("enddef", step=True, f="f0")
    if fam == "data":
        build_data(p, case, info)
    elif fam == "wait_all":
        build_wait_all(p, case, info)
    elif fam == "fill_var_rec":
        build_fill(p, case, info)
    elif fam == "varn_scalar":
        build_varn_scalar(p, case, info)
    elif fam == "sync_indep":
        build_sync_indep(p, case, info)
    p.op("close", step=True, f="f0")
    return p, info


def build_data(p, case, info):
    k, form, flex, kind, target = case["k"], case["form"], case["flex"], case["kind"], case["target"]
    classes = case["classes"]
    safe = case.get("safe")
    prefill(p, k, tag=1)
    info["labels"].update(["form_" + form, kind, target, "flex" if flex else "typed"] + ["cls_" + c for c in classes])
    nvalid = sum(1 for c in classes if c in ("valid", "valid2"))
    nbad = sum(1 for c in classes if c not in ("valid", "valid2")) + (1 if len(set(c for c in classes if c in ("valid", "valid2"))) == 2 else 0)
    info["nontrivial"] = nvalid >= 1 and nbad >= 1
    sn = p.s.same_n()
    rec = {}
    exp_err = {}
    for r in range(k):
        cls = classes[r]
        kw, nel, vid, exp, bufn, (start, count) = data_args(case, r, cls)
        exp_err[r] = exp
        vals = row_vals(r, 2)[:max(nel, 1)] if form != "var1" else [row_vals(r, 2)[0]]
        b = p.newbuf()
        if kind == "put":
            data = struct.pack("%di" % Y, *(row_vals(r, 2)))[:4 * bufn] if bufn <= Y else struct.pack("%di" % Y, *row_vals(r, 2))
            p.s.op("buf", ranks=[r], b=b, size=4 * max(bufn, 1), hex=data)
        else:
            p.s.op("buf", ranks=[r], b=b, size=4 * max(bufn, 1), fill=0xEE)
        if form == "vard":
            ft = p.newtype()
            vv = V_FIX if target == "fixed" else V_REC
            # filetype relative to the variable's begin: the rank's row (fixed) or record (record variable)
            off = r * Y * 4 if target == "fixed" else None
            cnt = 0 if cls == "zero" else Y
            if target == "fixed":
                spec = "hidx(%d:%d,int)" % (cnt, off) if cnt else "ctg(0,int)"
            else:
                spec = None
            rec[r] = ("vard", ft, cnt)
            kw["ftype"] = ft
            if spec is None:
                # record variable: displacement = r * recsize ; recsize = 4*Y + 8*X (two record variables, both 4-byte aligned)
                spec = "hidx(%d:%d,int)" % (cnt, r * (4 * Y + 8 * X)) if cnt else "ctg(0,int)"
            p.s.op("type", ranks=[r], t=ft, spec=spec)
            nel = cnt
            kw.update(buftype="int", bufcount=nel + (1 if cls == "bufcount_mismatch" else 0))
        p.s.op("data", ranks=[r], sn=sn, step=True, api=kind, form=form, coll=1, mt="flex" if flex else "int", f="f0", v=vid, buf=b, rb=1, **kw)
    # ---- expectations
    any_invalid = any(exp_err[r] != 0 for r in range(k))

    def chk_rc(res):
        out = []
        for r in range(k):
            rc = res.rc(sn, r)
            want = exp_err[r]
            if safe and any_invalid:
                # safe mode: errors found by the dispatcher are reduced over all ranks (everybody gets the smallest code and
                # nothing is transferred); errors found later in the driver stay local.  The property only fixes the
                # safe-mode behaviour of metadata calls, so for data calls: an invalid rank must not succeed, a valid rank
                # either succeeds (and its data is stored) or reports an error (and its data is not stored).
                ok = (rc not in (0, None)) if want != 0 else (rc is not None)
            else:
                ok = (rc == want) if want is not None else (rc not in (0, None))
            if not ok:
                out.append({"kind": "rc", "msg": "rank %d class %s: %s_%s_all returned %s expected %s (classes %s safe=%s)" % (r, classes[r], kind, form, rc, want, classes, safe),
                            "sig": {"kind": "rc", "cls": classes[r], "form": form, "api": kind}})
        return out
    p.check(chk_rc)
    p.op("fence", step=True, f="f0")
    # ---- data: what must be in the file now
    vid = V_FIX if target == "fixed" else V_REC
    nd = p.op("dumpall", step=True, f="f0", data=1, coll=1)

    def chk_data(res):
        out = []
        for rr in range(k):
            d = res.get(nd, rr)
            if d is None or d.get("rc") != 0:
                out.append({"kind": "dump", "msg": "dumpall failed on rank %d" % rr, "sig": {"kind": "dump"}})
                continue
            if d["numrecs"] != k:
                out.append({"kind": "numrecs", "msg": "rank %d sees numrecs %s expected %d" % (rr, d["numrecs"], k), "sig": {"kind": "numrecs"}})
                continue
            a = np.frombuffer(bytes.fromhex(d["vars"][vid]["data"]), dtype="i4").reshape(k if target == "record" else X, Y)
            wrote = set(r for r in range(k) if classes[r] in ("valid", "valid2") and res.rc(sn, r) == 0)
            for r in range(k):
                tag = 2 if (kind == "put" and r in wrote) else 1
                want = row_vals(r, tag)
                if kind == "put" and r in wrote and form == "var1":
                    want = [row_vals(r, 2)[0]] + row_vals(r, 1)[1:]
                if a[r].tolist() != want:
                    out.append({"kind": "value", "msg": "rank %d view: row %d of var %d is %s expected %s (classes %s)" % (rr, r, vid, a[r].tolist(), want, classes),
                                "sig": {"kind": "value", "api": kind, "form": form}})
        return out
    p.check(chk_data)
    if kind == "get":
        def chk_buf(res):
            out = []
            for r in [r for r in range(k) if classes[r] in ("valid", "valid2") and res.rc(sn, r) == 0]:
                e = res.get(sn, r)
                got = list(struct.unpack("%di" % (len(e["hex"]) // 8), bytes.fromhex(e["hex"])))
                want = row_vals(r, 1) if form != "var1" else [row_vals(r, 1)[0]]
                if got[:len(want)] != want:
                    out.append({"kind": "value", "msg": "rank %d get buffer %s expected %s" % (r, got, want), "sig": {"kind": "value", "api": "get", "form": form}})
            return out
        p.check(chk_buf)


def build_wait_all(p, case, info):
    k = case["k"]
    classes, nreq = case["classes"], case["nreq"]
    vid = V_FIX if case["target"] == "fixed" else V_REC
    prefill(p, k, tag=1)
    info["labels"].update(["wait_" + c for c in classes] + [case["target"]])
    info["nontrivial"] = len(set(nreq)) > 1 or any(c != "valid" for c in classes)
    posted = {}
    for r in range(k):
        qs = []
        for j in range(nreq[r]):
            b, q = p.newbuf(), p.newreq()
            # each request writes one element of the rank's row
            p.s.op("buf", ranks=[r], b=b, size=4, hex=struct.pack("i", 5000 + r * 10 + j))
            n = p.s.op("data", ranks=[r], api="iput", form="var1", coll=0, mt="int", f="f0", v=vid, start=[r, j], buf=b, req=q)
            p.expect_rc(n, [r], 0, "iput")
            qs.append(q)
        posted[r] = qs
    sn = p.s.same_n()
    for r in range(k):
        toks = list(posted[r])
        if classes[r] == "bad_reqid":
            toks = toks + ["raw:9998"]
        elif classes[r] == "null_only":
            toks = ["null"] + toks
        p.s.op("wait", ranks=[r], sn=sn, step=True, f="f0", coll=1, reqs=toks if toks else "", st=1)

    def chk(res):
        out = []
        for r in range(k):
            rc = res.rc(sn, r)
            if classes[r] == "bad_reqid":
                if rc != E["EINVAL_REQUEST"]:
                    out.append({"kind": "rc", "msg": "rank %d passed an unknown request id to wait_all and got %s" % (r, rc), "sig": {"kind": "rc", "fam": "wait_all", "cls": "bad_reqid"}})
            elif rc != 0:
                out.append({"kind": "rc", "msg": "rank %d wait_all returned %s expected 0 (classes %s)" % (r, rc, classes), "sig": {"kind": "rc", "fam": "wait_all", "cls": classes[r]}})
        return out
    p.check(chk)
    # ranks whose wait_all failed still hold their requests: complete them now, uniformly, so the file can be compared
    sn2 = p.s.same_n()
    for r in range(k):
        p.s.op("wait", ranks=[r], sn=sn2, step=True, f="f0", coll=1, reqs="ALL", st=0)
    p.op("fence", step=True, f="f0")
    nd = p.op("dumpall", step=True, f="f0", data=1, coll=1)

    def chk_data(res):
        out = []
        for rr in range(k):
            d = res.get(nd, rr)
            a = np.frombuffer(bytes.fromhex(d["vars"][vid]["data"]), dtype="i4").reshape(-1, Y)
            for r in range(k):
                want = row_vals(r, 1)
                for j in range(nreq[r]):
                    want[j] = 5000 + r * 10 + j
                if a[r].tolist() != want:
                    out.append({"kind": "value", "msg": "after wait_all: row %d is %s expected %s (classes %s nreq %s)" % (r, a[r].tolist(), want, classes, nreq),
                                "sig": {"kind": "value", "fam": "wait_all", "lost": classes[r]}})
        return out
    p.check(chk_data)


def build_fill(p, case, info):
    k, classes = case["k"], case["classes"]
    prefill(p, k, tag=1)
    info["labels"].update(["fill_" + c for c in classes])
    info["nontrivial"] = any(c != "valid" for c in classes) and any(c == "valid" for c in classes)
    sn = p.s.same_n()
    for r in range(k):
        vid = {"valid": V_REC2, "bad_varid": 77, "not_recvar": V_FIX}[classes[r]]
        p.s.op("fill_var_rec", ranks=[r], sn=sn, step=True, f="f0", v=vid, rec=0)

    def chk(res):
        out = []
        for r in range(k):
            rc = res.rc(sn, r)
            want = {"valid": 0, "bad_varid": E["ENOTVAR"], "not_recvar": E["ENOTRECVAR"]}[classes[r]]
            if case.get("safe") and any(c != "valid" for c in classes):
                continue
            if rc != want:
                out.append({"kind": "rc", "msg": "fill_var_rec rank %d class %s returned %s expected %s" % (r, classes[r], rc, want), "sig": {"kind": "rc", "fam": "fill_var_rec", "cls": classes[r]}})
        return out
    p.check(chk)
    p.op("fence", step=True, f="f0")


def build_sync_indep(p, case, info):
    """independent appends by some ranks, then ncmpi_sync_numrecs / ncmpi_sync / ncmpi_end_indep_data by all ranks: the call must
    return everywhere and every rank must then see the same, largest record count"""
    k, writers, how = case["k"], case["writers"], case["how"]
    prefill(p, k, tag=1)
    info["labels"].update(["sync_" + how, "writers_%d_of_%d" % (len(writers), k)])
    info["nontrivial"] = 0 < len(writers) < k
    p.op("begin_indep", step=True, f="f0")
    for r in writers:
        b = p.newbuf()
        p.s.op("buf", ranks=[r], b=b, size=4 * Y, hex=struct.pack("%di" % Y, *row_vals(r, 3)))
        p.op("data", ranks=[r], what="put_vara (independent append)", api="put", form="vara", coll=0, mt="int", f="f0", v=V_REC, start=[k + r, 0], count=[1, Y], buf=b)
    p.op(how, step=True, f="f0", what=how + " after independent appends by ranks %s" % writers)
    if how != "end_indep":
        p.op("end_indep", step=True, f="f0")
    want = k + (max(writers) + 1 if writers else 0)
    nq = p.s.op("inq", f="f0", what="dimlen", v=0)

    def chk(res):
        out = []
        for r in range(k):
            e = res.get(nq, r)
            got = e["r"][0] if e and e.get("rc") == 0 else None
            if got != want:
                out.append({"kind": "numrecs", "msg": "rank %d sees %s records after %s, expected %d (independent appends by ranks %s of %d)" % (r, got, how, want, writers, k),
                            "sig": {"kind": "numrecs", "how": how}})
        return out
    p.check(chk)


def build_varn_scalar(p, case, info):
    """varn_all on a scalar variable where only one rank has a request (peers pass num=0)"""
    k, kind, w = case["k"], case["kind"], case["writer"]
    info["labels"].add("varn_scalar_" + kind)
    info["nontrivial"] = True
    if kind == "get":
        sn0 = p.s.same_n()
        for r in range(k):
            b = p.newbuf()
            p.s.op("buf", ranks=[r], b=b, size=4, hex=struct.pack("i", 4242))
            p.s.op("data", ranks=[r], sn=sn0, step=True, api="put", form="var", coll=1, mt="int", f="f0", v=V_SCALAR, buf=b)
        p.expect_rc(sn0, range(k), 0, "put_var_all scalar")
        p.op("fence", step=True, f="f0")
    sn = p.s.same_n()
    for r in range(k):
        b = p.newbuf()
        p.s.op("buf", ranks=[r], b=b, size=4, hex=struct.pack("i", 777))
        if r == w:
            p.s.op("data", ranks=[r], sn=sn, step=True, api=kind, form="varn", coll=1, mt="int", f="f0", v=V_SCALAR, buf=b, num=1, starts=[[]], counts=None, rb=1)
        else:
            p.s.op("data", ranks=[r], sn=sn, step=True, api=kind, form="varn", coll=1, mt="int", f="f0", v=V_SCALAR, buf=b, num=0, starts=None, counts=None, rb=1)
    p.expect_rc(sn, range(k), 0, "%s_varn_all on scalar" % kind)
    p.op("fence", step=True, f="f0")


def build_safe_meta(p, case, info):
    """safe mode: collective metadata calls whose arguments differ on rank `odd`"""
    k, what, odd = case["k"], case["what"], case["odd"]
    info["labels"].add("meta_" + what)
    info["nontrivial"] = what != "consistent"
    sn = p.s.same_n()
    for r in range(k):
        o = (r == odd)
        if what == "def_dim_len":
            p.s.op("def_dim", ranks=[r], sn=sn, step=True, f="f0", name=hx("z"), len=5 + (1 if o else 0))
        elif what == "def_dim_name":
            p.s.op("def_dim", ranks=[r], sn=sn, step=True, f="f0", name=hx("zz" if o else "z"), len=5)
        elif what == "def_var_type":
            p.s.op("def_var", ranks=[r], sn=sn, step=True, f="f0", name=hx("w"), xt=M.NC_FLOAT if o else M.NC_INT, dims=[1], ndims=1)
        elif what == "def_var_dims":
            p.s.op("def_var", ranks=[r], sn=sn, step=True, f="f0", name=hx("w"), xt=M.NC_INT, dims=[2] if o else [1], ndims=1)
        elif what == "put_att_val":
            p.s.op("put_att", ranks=[r], sn=sn, step=True, f="f0", v=-1, name=hx("a"), xt=M.NC_INT, mt="int", n=2, hex=struct.pack("2i", 1, 3 if o else 2))
        elif what == "put_att_len":
            nn = 3 if o else 2
            p.s.op("put_att", ranks=[r], sn=sn, step=True, f="f0", v=-1, name=hx("a"), xt=M.NC_INT, mt="int", n=nn, hex=struct.pack("%di" % nn, *range(nn)))
        elif what == "rename_var":
            p.s.op("rename_var", ranks=[r], sn=sn, step=True, f="f0", v=V_FIX, name=hx("fiy" if o else "fiz"))
        elif what == "rename_dim":
            p.s.op("rename_dim", ranks=[r], sn=sn, step=True, f="f0", v=1, name=hx("xa" if o else "xb"))
        elif what == "rename_dim_same":
            # the odd rank passes the name the dimension already has (a no-op for it), the others a new name
            p.s.op("rename_dim", ranks=[r], sn=sn, step=True, f="f0", v=1, name=hx("x" if o else "xb"))
        elif what == "rename_var_same":
            p.s.op("rename_var", ranks=[r], sn=sn, step=True, f="f0", v=V_FIX, name=hx("fix" if o else "fiz"))
        elif what == "rename_att_same":
            p.s.op("rename_att", ranks=[r], sn=sn, step=True, f="f0", v=-1, name=hx("ga"), newname=hx("ga" if o else "gb"))
        elif what == "def_dim_same_name_diff_len":
            p.s.op("def_dim", ranks=[r], sn=sn, step=True, f="f0", name=hx("z"), len=5 if o else 6)
        elif what == "enddef_args":
            p.s.op("_enddef", ranks=[r], sn=sn, step=True, f="f0", h_minfree=64 if o else 0, v_align=4, v_minfree=0, r_align=4)
        elif what == "set_fill":
            p.s.op("set_fill", ranks=[r], sn=sn, step=True, f="f0", mode=0 if o else 0x100)
        elif what == "def_var_fill":
            p.s.op("def_var_fill", ranks=[r], sn=sn, step=True, f="f0", v=V_FIX, nofill=0, fv=struct.pack("i", 9 if o else 8))
        elif what == "consistent":
            p.s.op("def_dim", ranks=[r], sn=sn, step=True, f="f0", name=hx("z"), len=5)

    def chk(res):
        rcs = [res.rc(sn, r) for r in range(k)]
        if what == "consistent":
            if any(rc != 0 for rc in rcs):
                return [{"kind": "rc", "msg": "safe mode, consistent def_dim returned %s" % rcs, "sig": {"kind": "rc", "fam": "safe_meta"}}]
            return []
        if len(set(rcs)) != 1 or rcs[0] == 0 or rcs[0] is None:
            return [{"kind": "safe", "msg": "safe mode: %s with different arguments on rank %d returned %s (must be one non-zero code on all ranks)" % (what, odd, rcs),
                     "sig": {"kind": "safe_mode_codes", "what": what}}]
        return []
    p.check(chk)
    # leave define mode uniformly if the file is still in it (enddef_args may or may not have left it)
    if what != "enddef_args":
        p.op("enddef", step=True, f="f0", expect=None)
    p.op("close", step=True, f="f0", expect=None)


# known finding F05: collective put on a record variable with a dispatcher-detected argument error on some rank
DRIVER_LEVEL = ("valid", "valid2", "zero", "zero0", "bufcount_mismatch", "bad_buftype")   # classes that reach put_varm() with the variable known


def is_known_record_put(case):
    """F07: a rank with a dispatcher-detected argument error next to a rank that reaches the driver, put on a record variable"""
    return (case["fam"] == "data" and case["kind"] == "put" and case["target"] == "record" and not case.get("safe")
            and any(c not in DRIVER_LEVEL for c in case["classes"]) and any(c in DRIVER_LEVEL for c in case["classes"]))


def is_known_fill_mixed(case):
    return (case["fam"] == "fill_var_rec" and not case.get("safe") and len(set(c == "valid" for c in case["classes"])) > 1)


def is_known(case):
    return is_known_record_put(case) or is_known_fill_mixed(case)


def run_case(ctx, case):
    p, info = build(case)
    pool = ctx.pool("asan", nprocs=4)
    try:
        res, _ = pool.run(p.s, timeout=40)
    except PoolError as e:
        sig = {"kind": e.kind, "fam": case["fam"]}
        if case["fam"] == "data":
            sig.update(api=case["kind"], target=case["target"], form=case["form"], record_put_with_invalid_rank=is_known_record_put(case))
        if case["fam"] == "varn_scalar":
            sig.update(api=case["kind"])
        if case["fam"] == "fill_var_rec":
            sig.update(error_on_subset_of_ranks=is_known_fill_mixed(case))
        recs = getattr(e, "records", None)
        return [{"kind": e.kind, "msg": "%s in %s: %s" % (e.kind, {k: v for k, v in case.items()}, (e.detail or "")[:400]), "sig": sig, "stderr": e.stderr_tail[-2500:], "records": recs}]
    probs = p.evaluate(res)
    ctx.count(*info["labels"])
    if info["nontrivial"]:
        ctx.nontrivial(runner.case_hash(case))
    ctx.sample({"case": case, "script_head": p.s.lines[:30]})
    return probs


def case_script(case):
    return build(case)[0].s.text("<dir>")[0]


def enumerate_k2():
    """exhaustive product: family x class^2 for k=2 (thorough tier)"""
    for form in FORMS:
        for flex in ([True] if form == "vard" else [False, True]):
            cl = classes_for(form, flex)
            for kind in ("put", "get"):
                for target in ("fixed", "record"):
                    for c0, c1 in itertools.product(cl, cl):
                        for safe in (False, True):
                            for aggr in (0, 1):
                                yield {"fam": "data", "k": 2, "safe": safe, "aggr": aggr, "form": form, "flex": flex, "kind": kind, "target": target, "classes": [c0, c1]}


def campaign(ctx):
    n = {"quick": 1800, "thorough": 6000}[ctx.tier]
    g = runner.guarded(run_case)

    def rc(ctx_, case):
        if is_known(case) and os.environ.get("C08_INCLUDE_KNOWN") != "1":
            # known findings F05/F06: excluded by construction (each occurrence costs a pool restart); probed by their saved replays
            ctx_.excluded_known += 1
            ctx_.count("excluded_known_record_put" if case["fam"] == "data" else "excluded_known_fill_mixed")
            return []
        return g(ctx_, case)
    runner.run_hypothesis(ctx, case_strategy(ctx.tier), rc, n)
    if ctx.tier == "thorough":
        cases = list(enumerate_k2())
        for i, case in enumerate(cases):
            if i % ctx.nworkers != ctx.widx:
                continue
            ctx.evaluations += 1
            probs = rc(ctx, case)
            probs = [pr for pr in probs if not ctx.known.match(pr)]
            if probs:
                ctx.failures.append({"case": case, "problems": probs, "label": "enum_k2"})
                if len(ctx.failures) > 5:
                    break
        ctx.stats["enum_k2_total"] = len(cases)


def coverage_extra(stats, tier):
    return {"exhaustive": False, "k2_product_enumerated": tier == "thorough"}


if __name__ == "__main__":
    runner.main("checks.c08", PROP, default_workers=6, nt_floor=20)
