#!/usr/bin/env python3-vt
"""C11 - I/O failures are never silently dropped (fault enumeration)."""
import os, sys, struct, subprocess, json
sys.path.insert(0, os.path.dirname(os.path.dirname(os.path.abspath(__file__))))
import numpy as np
from hypothesis import strategies as st
from pv import model as M, gen as G
from pv.prog import Prog
from pv.pool import hx, PoolError
from pv import runner

PROP = "C11"
RULE = ("Fault enumeration: Hypothesis draws small programs (k=1..3, format, safe mode, collective header I/O, fill, header growth "
        "that moves data, record variables, blocking/nonblocking/buffered puts, gets, fill_var_rec, sync, close, reopen). A fault-free "
        "run records, per rank, every MPI-IO data-transfer call with its call site and API step; then one run per "
        "(rank, call ordinal, MPI error class) lets the real transfer proceed and overrides its return value. Oracle: the API call "
        "that issued the transfer (or the wait that completes the request) returns a non-zero code (or a non-zero per-request "
        "status) on the faulted rank, all ranks return from that call (collective matcher), nothing crashes. "
        "distinct_nontrivial = distinct (library call-site function, MPI-IO function, error class, API operation) tuples faulted.")
ASSUMPTIONS = ["one fault per run, injected as an overridden return value of MPI_File_{read,write}[_at][_all]; faults in MPI_File_open/set_view/sync/close are out of scope",
               "after the faulted API step the program is abandoned (the application is expected to handle the error), so only the faulted call is judged",
               "an MPI error class is a valid MPI error code (MPI standard), which is what the injector returns"]
CLASSES = {1: "MPI_ERR_IO", 2: "MPI_ERR_NO_SPACE", 3: "MPI_ERR_QUOTA", 4: "MPI_ERR_ACCESS", 5: "MPI_ERR_READ_ONLY", 6: "MPI_ERR_FILE", 7: "MPI_ERR_OTHER"}
X = 6


@st.composite
def case_strategy(draw, tier="quick"):
    return {"k": draw(st.sampled_from([1, 2, 2, 3])), "fmt": draw(st.sampled_from([1, 2, 5])), "safe": G.chance(draw, 20),
            "hcoll": G.chance(draw, 30), "fill": G.chance(draw, 60), "grow": draw(st.sampled_from([0, 60, 900])),
            "recvars": draw(st.integers(1, 2)), "parts": sorted(draw(st.sets(st.sampled_from(["coll", "indep", "nb", "bput", "get", "fillrec", "redef", "reopen", "sync", "vard", "varn", "mixed", "redef_indep", "meta", "nb_indep"]), min_size=3))),
            "align": draw(st.sampled_from([0, 4, 512])), "seed": draw(st.integers(0, 1000))}


def build(case, upto=None, fault=None):
    """program for the case; if upto is given the script is truncated after statement `upto` and abandoned"""
    k = case["k"]
    p = Prog(k=k)
    parts = set(case["parts"])
    env = {"e__PNETCDF_SAFE_MODE": hx("1" if case["safe"] else "0")}
    p.s.op("env", **env)
    hints = {}
    if case["hcoll"]:
        hints["h__romio_no_indep_rw"] = hx("true")
    if case["align"]:
        hints["h__nc_var_align_size"] = hx(str(case["align"]))
    kw = {}
    if hints:
        p.s.op("info", i="i1", **hints)
        kw["info"] = "i1"
    # the fault-free run carries a never-firing injector statement so that statement numbers are identical in both runs
    fl = fault or {"rank": 0, "ordinal": -1, "cls": 1}
    p.s.op("fault", ranks=[fl["rank"]], ordinal=fl["ordinal"], cls=fl["cls"], suppress=0)
    mode = {1: 0, 2: 0x200, 5: 0x20}[case["fmt"]]
    seed = case["seed"]
    ops = []      # (n, description) of API statements, for reports

    def A(_op, what=None, **a):
        n = p.op(_op, what=what or _op, **a)
        ops.append((n, what or _op))
        return n
    A("create", step=True, f="f0", path=hx("t.nc"), mode=mode, **kw)
    A("def_dim", step=True, f="f0", name=hx("t"), len=0)
    A("def_dim", step=True, f="f0", name=hx("x"), len=X)
    A("def_var", step=True, f="f0", name=hx("fix"), xt=M.NC_INT, dims=[1], ndims=1)          # 0
    A("def_var", step=True, f="f0", name=hx("rec"), xt=M.NC_INT, dims=[0, 1], ndims=2)       # 1
    A("def_var", step=True, f="f0", name=hx("flt"), xt=M.NC_DOUBLE, dims=[1], ndims=1)       # 2
    nvars = 3
    if case["recvars"] == 2:
        A("def_var", step=True, f="f0", name=hx("rec2"), xt=M.NC_SHORT, dims=[0], ndims=1)   # 3
        nvars = 4
    if case["fill"]:
        A("def_var_fill", step=True, f="f0", v=2, nofill=0)
        A("def_var_fill", step=True, f="f0", v=1, nofill=0)
    if "meta" in parts:
        A("put_att", step=True, f="f0", v=-1, name=hx("ga"), xt=M.NC_INT, mt="int", n=2, hex=struct.pack("2i", seed, seed + 1))
    A("enddef", step=True, f="f0")
    A("buffer_attach", f="f0", size=4096)

    def ibuf(r, vals):
        b = p.newbuf()
        p.s.op("buf", ranks=[r], b=b, size=4 * len(vals), hex=struct.pack("%di" % len(vals), *vals))
        return b

    def percall(_op, what, args_for, step=True, ranks=None):
        sn = p.s.same_n()
        for r in (ranks if ranks is not None else range(k)):
            a = args_for(r)
            p.s.op(_op, ranks=[r], sn=sn, step=step, **a)
        p.expect_rc(sn, ranks if ranks is not None else range(k), 0, what)
        ops.append((sn, what))
        return sn
    if "coll" in parts:
        percall("data", "put_vara_all(fixed)", lambda r: dict(api="put", form="vara", coll=1, mt="int", f="f0", v=0, start=[r], count=[1], buf=ibuf(r, [seed + r])))
        percall("data", "put_vara_all(record)", lambda r: dict(api="put", form="vara", coll=1, mt="int", f="f0", v=1, start=[r, 0], count=[1, X], buf=ibuf(r, [seed + r * 10 + j for j in range(X)])))
    if "meta" in parts:
        # metadata updates in data mode rewrite the whole header (ncmpio_write_header)
        A("put_att", what="put_att(data mode)", step=True, f="f0", v=-1, name=hx("ga"), xt=M.NC_INT, mt="int", n=2, hex=struct.pack("2i", seed + 5, seed + 6))
        A("rename_var", what="rename_var(data mode)", step=True, f="f0", v=0, name=hx("fx"))
        A("rename_att", what="rename_att(data mode)", step=True, f="f0", v=-1, name=hx("ga"), newname=hx("gb"))
        A("rename_dim", what="rename_dim(data mode)", step=True, f="f0", v=1, name=hx("y"))
    if "varn" in parts:
        percall("data", "put_varn_all(record)", lambda r: dict(api="put", form="varn", coll=1, mt="int", f="f0", v=1, num=2, starts=[[k + r, 0], [k + r, 3]], counts=[[1, 3], [1, 3]], buf=ibuf(r, list(range(6)))))
    if "vard" in parts:
        def vd(r):
            t = p.newtype()
            p.s.op("type", ranks=[r], t=t, spec="hidx(1:%d,int)" % (4 * (r % X)))
            return dict(api="put", form="vard", coll=1, mt="flex", f="f0", v=0, ftype=t, buftype="int", bufcount=1, buf=ibuf(r, [seed + 50 + r]))
        percall("data", "put_vard_all(fixed)", vd)
    if "indep" in parts:
        A("begin_indep", step=True, f="f0")
        for r in range(k):
            n = p.op("data", ranks=[r], what="put_vara(record, independent)", api="put", form="vara", coll=0, mt="int", f="f0", v=1, start=[2 * k + r, 0], count=[1, X], buf=ibuf(r, [seed + 7] * X))
            ops.append((n, "put_vara(record, independent)"))
            if k > 1:
                p.op("barrier", expect=None)
        A("end_indep", step=True, f="f0")
    if "nb" in parts:
        qs = {}
        for r in range(k):
            q1, q2 = p.newreq(), p.newreq()
            p.op("data", ranks=[r], what="iput", api="iput", form="vara", coll=0, mt="int", f="f0", v=1, start=[3 * k + r, 0], count=[1, X], buf=ibuf(r, [seed + 9] * X), req=q1)
            p.op("data", ranks=[r], what="iput", api="iput", form="var1", coll=0, mt="int", f="f0", v=0, start=[(r + 3) % X], buf=ibuf(r, [seed + 11]), req=q2)
            qs[r] = [q1, q2]
        percall("wait", "wait_all(iput)", lambda r: dict(f="f0", coll=1, reqs=qs[r], st=1))
    if "nb_indep" in parts:
        # independent completion (ncmpi_wait) of two requests whose buffers are not adjacent: one MPI_File_write_at / read_at
        # with a derived memory datatype (the packed temporary-buffer branch of ncmpio_read_write)
        A("begin_indep", step=True, f="f0")
        for r in range(k):
            q1, q2 = p.newreq(), p.newreq()
            p.op("data", ranks=[r], what="iput", api="iput", form="vara", coll=0, mt="int", f="f0", v=1, start=[5 * k + r, 0], count=[1, X], buf=ibuf(r, [seed + 21] * X), req=q1)
            p.op("data", ranks=[r], what="iput", api="iput", form="var1", coll=0, mt="int", f="f0", v=0, start=[(r + 1) % X], buf=ibuf(r, [seed + 23]), req=q2)
            n = p.op("wait", ranks=[r], what="wait(2 iput, independent)", f="f0", coll=0, reqs=[q1, q2], st=1)
            ops.append((n, "wait(2 iput, independent)"))
            g1, g2 = p.newreq(), p.newreq()
            b1, b2 = p.newbuf(), p.newbuf()
            p.s.op("buf", ranks=[r], b=b1, size=4 * X, fill=0xEE)
            p.s.op("buf", ranks=[r], b=b2, size=4, fill=0xEE)
            p.op("data", ranks=[r], what="iget", api="iget", form="vara", coll=0, mt="int", f="f0", v=1, start=[5 * k + r, 0], count=[1, X], buf=b1, req=g1)
            p.op("data", ranks=[r], what="iget", api="iget", form="var1", coll=0, mt="int", f="f0", v=0, start=[(r + 1) % X], buf=b2, req=g2)
            n = p.op("wait", ranks=[r], what="wait(2 iget, independent)", f="f0", coll=0, reqs=[g1, g2], st=1)
            ops.append((n, "wait(2 iget, independent)"))
            if k > 1:
                p.op("barrier", expect=None)
        A("end_indep", step=True, f="f0")
    if "bput" in parts:
        qs = {}
        for r in range(k):
            q1 = p.newreq()
            p.op("data", ranks=[r], what="bput", api="bput", form="vara", coll=0, mt="int", f="f0", v=1, start=[4 * k + r, 0], count=[1, X], buf=ibuf(r, [seed + 13] * X), req=q1)
            qs[r] = [q1]
        percall("wait", "wait_all(bput)", lambda r: dict(f="f0", coll=1, reqs=qs[r], st=1))
    if "get" in parts:
        def gb(r, n):
            b = p.newbuf()
            p.s.op("buf", ranks=[r], b=b, size=4 * n, fill=0xEE)
            return b
        percall("data", "get_vara_all(fixed)", lambda r: dict(api="get", form="vara", coll=1, mt="int", f="f0", v=0, start=[0], count=[X], buf=gb(r, X)))
        qs = {}
        for r in range(k):
            q1 = p.newreq()
            p.op("data", ranks=[r], what="iget", api="iget", form="vara", coll=0, mt="int", f="f0", v=0, start=[0], count=[X], buf=gb(r, X), req=q1)
            qs[r] = [q1]
        percall("wait", "wait_all(iget)", lambda r: dict(f="f0", coll=1, reqs=qs[r], st=1))
        A("begin_indep", step=True, f="f0")
        for r in range(k):
            n = p.op("data", ranks=[r], what="get_vara(independent)", api="get", form="vara", coll=0, mt="int", f="f0", v=0, start=[0], count=[X], buf=gb(r, X))
            ops.append((n, "get_vara(independent)"))
        A("end_indep", step=True, f="f0")
    if "mixed" in parts:
        # one wait_all completing puts and gets together
        qs = {}
        for r in range(k):
            q1, q2 = p.newreq(), p.newreq()
            gbuf = p.newbuf()
            p.s.op("buf", ranks=[r], b=gbuf, size=4, fill=0xEE)
            p.op("data", ranks=[r], what="iput", api="iput", form="vara", coll=0, mt="int", f="f0", v=1, start=[5 * k + r, 0], count=[1, X], buf=ibuf(r, [seed + 21] * X), req=q1)
            p.op("data", ranks=[r], what="iget", api="iget", form="var1", coll=0, mt="int", f="f0", v=0, start=[r % X], buf=gbuf, req=q2)
            qs[r] = [q1, q2]
        percall("wait", "wait_all(iput+iget)", lambda r: dict(f="f0", coll=1, reqs=qs[r], st=1))
    if "redef_indep" in parts:
        # redef entered directly from independent data mode: the record count of independent writes is synchronised on the way
        A("begin_indep", step=True, f="f0")
        n = p.op("data", ranks=[0], what="put_vara(record, independent)", api="put", form="vara", coll=0, mt="int", f="f0", v=1, start=[7 * k + 1, 0], count=[1, X], buf=ibuf(0, [seed + 23] * X))
        ops.append((n, "put_vara(record, independent)"))
        if k > 1:
            p.op("barrier", expect=None)
        A("redef", step=True, f="f0", what="redef(from independent mode)")
        A("enddef", step=True, f="f0", what="enddef(nothing changed)")
    if "fillrec" in parts and case["fill"]:
        A("fill_var_rec", step=True, f="f0", v=1, rec=6 * k)
    if "redef" in parts:
        A("redef", step=True, f="f0")
        if case["grow"]:
            A("put_att", step=True, f="f0", v=-1, name=hx("big"), xt=M.NC_CHAR, mt="text", n=case["grow"], hex=b"y" * case["grow"])
        A("def_var", step=True, f="f0", name=hx("newv"), xt=M.NC_INT, dims=[1], ndims=1)
        A("def_var", step=True, f="f0", name=hx("newr"), xt=M.NC_INT, dims=[0], ndims=1)
        if case["fill"]:
            A("def_var_fill", step=True, f="f0", v=nvars, nofill=0)
        A("enddef", step=True, f="f0", what="enddef(after redef)")
    if "sync" in parts:
        A("sync", step=True, f="f0")
    A("buffer_detach", f="f0")
    A("close", step=True, f="f0")
    if "reopen" in parts:
        A("open", step=True, f="f0", path=hx("t.nc"), mode=0, **kw)
        def gb2(r):
            b = p.newbuf()
            p.s.op("buf", ranks=[r], b=b, size=4 * X, fill=0xEE)
            return b
        percall("data", "get_var_all(after reopen)", lambda r: dict(api="get", form="var", coll=1, mt="int", f="f0", v=0, buf=gb2(r)))
        A("close", step=True, f="f0", what="close(read-only)")
    if upto is not None:
        # truncate: keep the statements numbered <= upto, then abandon the files
        last = max(i for i, line in enumerate(p.s.lines) if int(line.split(" ", 1)[0].rstrip("!")) == upto)
        p.s.lines = p.s.lines[:last + 1]       # lines are in emission order: buffers precede the statements using them
        p.s.op("abandon")
        p.checks = []
    return p, ops


_sym_cache = {}


def symbolize(exe, addrs):
    """function names for call-site addresses (llvm-symbolizer on the non-PIE executor)"""
    todo = [a for a in addrs if (exe, a) not in _sym_cache]
    if todo:
        inp = "\n".join(hex(a - 1) for a in todo) + "\n"
        try:
            out = subprocess.run(["llvm-symbolizer", "--obj=" + exe, "--functions=linkage", "--inlining=false"], input=inp.encode(), stdout=subprocess.PIPE, timeout=60).stdout.decode()
            blocks = [b for b in out.split("\n\n") if b.strip()]
            for a, b in zip(todo, blocks):
                lines = b.strip().splitlines()
                fn = lines[0].strip()
                loc = lines[1].strip() if len(lines) > 1 else ""
                _sym_cache[(exe, a)] = (fn, os.path.basename(loc.split(":")[0]))
        except Exception:
            pass
        for a in todo:
            _sym_cache.setdefault((exe, a), ("?", "?"))
    return {a: _sym_cache[(exe, a)] for a in addrs}


def baseline(ctx, case):
    p, ops = build(case)
    pool = ctx.pool("asan", nprocs=4)
    res, _ = pool.run(p.s)
    probs = p.evaluate(res)
    if probs:
        return None, probs, None
    io = [res.shim(r)["io"] for r in range(case["k"])]
    return io, [], dict(ops)


def run_fault(ctx, case, fault, io_entry, opname):
    """one faulted run; returns problems"""
    step = io_entry[1]
    p, _ = build(case, upto=step, fault=fault)
    pool = ctx.pool("asan", nprocs=4)
    exe = os.path.join(ctx.build["asan"], "pncx")
    site = symbolize(exe, [io_entry[2]])[io_entry[2]]
    sig_base = {"func": site[0], "mpi": io_entry[0], "cls": CLASSES[fault["cls"]], "op": opname}
    try:
        res, _ = pool.run(p.s, timeout=40)
    except PoolError as e:
        return [{"kind": e.kind, "msg": "%s while %s was failing in %s (%s, called from %s) on rank %d: %s" % (e.kind, "MPI_File_" + io_entry[0], opname, CLASSES[fault["cls"]], site[0], fault["rank"], (e.detail or "")[:300]),
                 "sig": dict(sig_base, kind=e.kind), "stderr": e.stderr_tail[-2500:]}]
    r = fault["rank"]
    fr = res.shim(r)["fault"]
    if not fr["fired"]:
        ctx.count("fault_not_reached")
        return []
    s = fr["step"]
    e = res.get(s, r)
    rc = None if e is None else e.get("rc")
    surfaced = rc not in (0, None)
    if e is not None and "st" in e and any(x != 0 for x in e["st"]):
        surfaced = True
    ctx.count("faulted_runs", "cls_" + CLASSES[fault["cls"]], "site_" + site[0])
    ctx.nontrivial("%s|%s|%s|%s" % (site[0], io_entry[0], CLASSES[fault["cls"]], opname))
    if not surfaced:
        return [{"kind": "silent", "msg": "rank %d: MPI_File_%s called from %s() during %s (statement %d) failed with %s but the call returned %s" % (
            r, io_entry[0], site[0], opname, s, CLASSES[fault["cls"]], rc), "sig": dict(sig_base, kind="silent")}]
    return []


def run_case(ctx, case):
    """replay unit: a case with a 'fault' key runs baseline + that fault; without it, baseline only"""
    io, probs, ops = baseline(ctx, case)
    if probs:
        return [{"kind": "baseline", "msg": "fault-free run failed: " + probs[0]["msg"], "sig": {"kind": "baseline"}}]
    f = case.get("fault")
    if not f:
        return []
    lst = io[f["rank"]]
    if f["ordinal"] >= len(lst):
        return []
    ent = lst[f["ordinal"]]
    return run_fault(ctx, case, f, ent, ops.get(ent[1], "?"))


def campaign(ctx):
    from hypothesis import given, settings, seed, HealthCheck, Phase, Verbosity
    nprog = {"quick": 8, "thorough": 40}[ctx.tier]
    classes_all = list(CLASSES)
    state = {"n": 0}

    @seed(ctx.seed * 1000003 + ctx.widx * 7919)
    @settings(max_examples=nprog, database=None, deadline=None, suppress_health_check=list(HealthCheck), phases=[Phase.generate], verbosity=Verbosity.quiet)
    @given(case_strategy(ctx.tier))
    def t(case):
        io, probs, ops = baseline(ctx, case)
        ctx.evaluations += 1
        if probs:
            ctx.failures.append({"case": case, "problems": [{"kind": "baseline", "msg": "fault-free run failed: " + probs[0]["msg"], "sig": {"kind": "baseline"}}], "label": "baseline"})
            return
        ctx.sample({"case": case, "io_calls_rank0": [[e[0], ops.get(e[1], "?"), e[3], e[4]] for e in io[0][:40]]}, limit=2)
        for r in range(case["k"]):
            for j, ent in enumerate(io[r]):
                if ent[1] < 0:
                    continue
                cl = classes_all if ctx.tier == "thorough" else [1, 2] + [classes_all[2 + (j + r + state["n"]) % 5]]
                for c in cl:
                    f = {"rank": r, "ordinal": j, "cls": c}
                    ctx.evaluations += 1
                    state["n"] += 1
                    probs = runner.guarded(lambda cx, cs: run_fault(cx, case, f, ent, ops.get(ent[1], "?")))(ctx, None)
                    real = []
                    for pr in probs:
                        if ctx.known.match(pr):
                            ctx.excluded_known += 1
                        else:
                            real.append(pr)
                    if real:
                        # one failure per distinct signature is enough
                        sg = real[0].get("sig") or {}
                        key = json.dumps([sg.get("kind"), sg.get("func"), sg.get("mpi"), sg.get("cls") if sg.get("cls") in ("MPI_ERR_IO", "MPI_ERR_FILE", "MPI_ERR_OTHER") else "other"])
                        if key not in state:
                            state[key] = 1
                            ctx.failures.append({"case": dict(case, fault=f), "problems": real, "label": "fault"})
                    if state["n"] % 250 == 0:
                        ctx.close()      # recycle the pool: abandoned files leak handles by design
    try:
        t()
    except Exception as e:
        import traceback
        ctx.notes.append("campaign exception: " + traceback.format_exc()[-1500:])
        ctx.stats["harness_exceptions"] += 1


def coverage_extra(stats, tier):
    sites = sorted(k[5:] for k in stats if k.startswith("site_"))
    return {"call_site_functions": sites, "exhaustive": False,
            "classes_per_call": "all 7" if tier == "thorough" else "IO, NO_SPACE + one rotating other class"}


def case_script(case):
    return build(case)[0].s.text("<dir>")[0]


if __name__ == "__main__":
    runner.main("checks.c11", PROP, level="fault_enumeration", default_workers=8, nt_floor=10)
