#!/usr/bin/env python3-vt
"""C18 - format size limits are enforced and 64-bit offsets are addressed correctly.

Three kinds of cases (all JSON, self-contained, replayable):

  kind "dim"   ncmpi_def_dim with lengths around NC_MAX_INT, 2^32 and 2^63-1 (and negative ones, and NC_UNLIMITED
               twice) against pv/limits.py:def_dim_rule; the accepted dimensions are inquired and found again in the
               header of the file.
  kind "rule"  a definition of 1-4 variables (fixed-size / record, any order) whose byte sizes sit just below, at
               and just above the thresholds 2^31-4, 2^31, 2^32-4, 2^32 (and 2^63-4 for CDF-5), built from large
               dimensions; no data is written.  ncmpi_def_var / ncmpi_enddef (or ncmpi__enddef(0,4,0,4), which pins
               the header extent so that CDF-1 begin offsets can be put exactly on 2^31-4 / 2^31) must return what
               pv/limits.py:enddef_rule says (NC_NOERR / NC_EVARSIZE; combinations the documentation leaves open are
               counted, not judged).  After an accepted enddef the first bytes of the file are decoded with the
               independent decoder pv/cdfspec.py: dimensions and variables as defined, vsize = padded size or 2^32-1
               when that exceeds 2^32-4 (CDF-1/2), begins ordered, 4-byte aligned, behind the header, CDF-1 begins
               <= 2^31-1, and (pinned extent) exactly the packed layout.
  kind "addr"  an accepted definition with a multi-GiB variable in a sparse file; k = 1..2 processes write a few
               elements (never more than a few dozen bytes per request) at the first / last element and around the
               elements whose byte offset or linear index crosses 2^31 and 2^32, through var1 / vara / vars / varn,
               blocking or iput+wait, collective or independent; then (1) the same elements read back through the API
               (possibly through another form, by the other rank) must equal what was written and (2) after close the
               bytes must sit at the file offset computed from the decoded header (begin + index*xsz, or
               begin + rec*recsize + index*xsz), read with POSIX pread at offsets > 4 GiB.  Half of the cases read
               back through a second handle (close + ncmpi_open), which learns the layout from the header (saturated
               vsize, 64-bit begins).  Some definitions consist of small variables behind a header extent of
               2 / 4 / 8 GiB (h_minfree argument of ncmpi__enddef), so that every element lies above the threshold.
               The POSIX reads are done by the Python side on the kept scratch directory (os.pread, the same system
               call as the executor's `pread` statement), because the offsets come from the header decoded after the run.

Confirmed defect found by this check (generator switch SWITCHES["header_extent_above_2g"], replays/C18/header-extent-*):
when the header extent exceeds 2^31-1 bytes rank 0 cannot build the file view of any request that is not contiguous in
the file (ncmpio_file_set_view prepends the header extent as one block with an `int` length) and returns
NC_EINTOVERFLOW; varn and all nonblocking requests fail the same way (wait returns the error, the request status says 0).

Only the header (first KiB) and single elements of the sparse files are ever read; the scratch directory of every
case is removed right after it.
"""
import os, sys, itertools, shutil
sys.path.insert(0, os.path.dirname(os.path.dirname(os.path.abspath(__file__))))
from hypothesis import strategies as st
from pv import cdfspec, runner, limits as LM
from pv.pool import Script, hx

PROP = "C18"
VARIANTS = ("plain", "asan")
RULE = ("Rule table: deterministic enumeration (partitioned over workers) of definitions with 1-4 variables in all orders, "
        "fixed/record kinds, per-variable byte sizes from {lim-8, lim-4, lim, lim+4 : lim in 2^31-4, 2^31, 2^32-4, 2^32} plus the "
        "one-step sizes of 1/2-byte types, small ones, 2^40, and for CDF-5 sizes around 2^63-4 and products overflowing 2^64, "
        "each size built from different dimension factorisations, with the default and a pinned header extent, plus CDF-1 "
        "definitions whose k-th variable begins exactly at 2^31-8 .. 2^31+4, definitions pushed to a threshold offset by the "
        "h_minfree argument of ncmpi__enddef, plus def_dim lengths around 2^31-1, 2^32, 2^63-1; "
        "oracle = documentation-derived acceptance rule pv/limits.py + independent decode of the written header (vsize "
        "saturation, begins).  Addressing: enumerated and Hypothesis-generated single elements / short boxes / strided and varn "
        "requests at the first, last and threshold-straddling positions of multi-GiB variables in sparse files, k=1..2, "
        "blocking/nonblocking, collective/independent, read back through the same or a re-opened handle, by the same or the "
        "other rank; oracle = read-back through the API + POSIX pread at the offset computed "
        "from the decoded header.  Non-trivial = a definition with a size exactly at or one step beyond a threshold of its "
        "format (or a CDF-1 begin offset within 8 bytes of 2^31), or an addressing case with an element above file offset "
        "2^32; distinct = distinct case hash.")
ASSUMPTIONS = ["single node, local POSIX file system with sparse files, ROMIO (romio321) as MPI-IO layer; data written through MPI-IO is "
               "visible to POSIX pread after ncmpi_close returned",
               "no-fill mode (the PnetCDF default): nothing but the header and the addressed elements is ever written",
               "combinations the documentation leaves open are not judged (counted as open_*): CDF-2 oversized last fixed-size variable "
               "together with record variables; CDF-1 begin offsets that cross 2^31-1 only inside the header alignment band when the "
               "extent is not pinned; data sections ending beyond 2^63-1; CDF-1/2 variables beyond 2^63-4 bytes",
               "ncmpi_def_var may already refuse a variable larger than 2^63-4 bytes with NC_EVARSIZE (test/testcases/large_var_cdf5.c); "
               "the enddef rule is then applied to the variables that exist",
               "ncmpi__enddef(ncid, 0, 4, 0, 4) on a new file places the data section at the header size rounded up to 4 and packs "
               "the variables (its documented meaning: no free space, 4-byte alignment); with h_minfree > 0 the data section starts at "
               "least h_minfree bytes behind the header (an implementation may add up to 4096 more: verdicts that depend on it are "
               "left open); with plain ncmpi_enddef only format validity of the begins is required",
               "definitions whose data section starts above 2^31-1 (h_minfree) are accessed through blocking var1 / single-row vara "
               "requests only while SWITCHES['header_extent_above_2g'] is on (confirmed defect, kept as replays)",
               "ncmpi_redef followed by a second ncmpi_enddef is not exercised: an accepted re-definition may move multi-GiB sections",
               "memory type = native type of the variable and all bytes of a value are equal (0x01..0x7e), so neither conversion "
               "nor byte order is involved (C09)"]

FMT_MODE = {1: 0, 2: 0x200, 5: 0x20}
NATIVE_MT = {1: "schar", 2: "text", 3: "short", 4: "int", 5: "float", 6: "double", 7: "uchar", 8: "ushort", 9: "uint", 10: "longlong", 11: "ulonglong"}
XSZ = LM.XSZ
T31, T32 = 2 ** 31, 2 ** 32
GETFILL = 0xEE
NC_NOERR, EVARSIZE, EDIMSIZE = 0, LM.NC_EVARSIZE, LM.NC_EDIMSIZE


class HarnessTrouble(Exception):
    pass


def prob(kind, msg, **sig):
    sg = {"kind": kind}
    sg.update(sig)
    return {"kind": kind, "msg": msg, "sig": sg}


# ====================================================================== schema shared by rule and addr cases
def schema(case):
    """dims [(name, len)], vars [(name, xt, dimids, is_record, S)] of a case with "vars": [{"rec","xt","lens"}]"""
    dims, vs = [], []
    if any(v["rec"] for v in case["vars"]):
        dims.append(("r", 0))
    for i, v in enumerate(case["vars"]):
        ids = [0] if v["rec"] else []
        for j, l in enumerate(v["lens"]):
            dims.append(("d%d_%d" % (i, j), l))
            ids.append(len(dims) - 1)
        vs.append(("v%d" % i, v["xt"], ids, bool(v["rec"]), LM.var_bytes(v["xt"], v["lens"])))
    return dims, vs


def header_size(fmt, dims, vs):
    f = cdfspec.CDFFile(version=fmt, numrecs=0, dims=[cdfspec.Dim(n.encode(), 1 if l else 0) for n, l in dims],
                        vars=[cdfspec.Var(n.encode(), xt, ids) for n, xt, ids, _r, _s in vs])
    return len(cdfspec.header_bytes(f))


def define(s, case, dims, vs, k=1, info=None):
    """create + def_dim + def_var + enddef statements; returns their statement numbers"""
    kw = {"info": info} if info else {}
    n = {"create": s.op("create", step=True, f="f0", path=hx("t.nc"), mode=FMT_MODE[case["fmt"]], **kw), "dims": [], "vars": []}
    for nm, l in dims:
        n["dims"].append(s.op("def_dim", step=True, f="f0", name=hx(nm), len=l))
    for nm, xt, ids, _r, _s in vs:
        n["vars"].append(s.op("def_var", step=True, f="f0", name=hx(nm), xt=xt, dims=ids, ndims=len(ids)))
    if case.get("exact") or case.get("hfree"):
        n["enddef"] = s.op("_enddef", step=True, f="f0", h_minfree=case.get("hfree", 0), v_align=4, v_minfree=0, r_align=4)
    else:
        n["enddef"] = s.op("enddef", step=True, f="f0")
    return n


def extent_band(case, hsize):
    """[lo, hi] the header extent must lie in: pinned by ncmpi__enddef(0,4,0,4); "at least" h_minfree bytes of free space
    when h_minfree is given; anything from the header size up to one alignment unit more with plain ncmpi_enddef"""
    hf = case.get("hfree", 0)
    lo = LM.pad4(hsize + hf)
    if case.get("exact") and not hf:
        return lo, lo
    return lo, lo + 4096


def read_header(d, nbytes):
    with open(os.path.join(d, "t.nc"), "rb") as f:
        return f.read(nbytes)


# ====================================================================== kind "dim"
def build_dim(case):
    s = Script(k=1)
    n = {"create": s.op("create", f="f0", path=hx("t.nc"), mode=FMT_MODE[case["fmt"]]), "dims": [], "inq": []}
    for i, l in enumerate(case["lens"]):
        n["dims"].append(s.op("def_dim", f="f0", name=hx("x%d" % i), len=l))
    for i in range(len(case["lens"])):
        n["inq"].append(s.op("inq", f="f0", what="dimlen", v=i))
    n["enddef"] = s.op("enddef", f="f0")
    n["close"] = s.op("close", f="f0")
    return s, n


def run_dim(ctx, case):
    fmt = case["fmt"]
    s, n = build_dim(case)
    pool = ctx.pool(case.get("variant", "plain"), nprocs=1)
    res, d = pool.run(s, keepdir=True)
    try:
        P = []
        if res.rc(n["create"]) != 0:
            raise HarnessTrouble("create returned %s" % res.rc(n["create"]))
        have_unl = False
        accepted = []
        nt = False
        for i, l in enumerate(case["lens"]):
            want = LM.def_dim_rule(fmt, l, have_unl)
            rc = res.rc(n["dims"][i])
            ctx.count("dim_expect_%s" % {0: "accept", EDIMSIZE: "EDIMSIZE"}.get(want, "EUNLIMIT"))
            if l in (LM.DIM_MAX[fmt], LM.DIM_MAX[fmt] + 1) or l == -1:
                nt = True
            if rc != want:
                P.append(prob("dimrc", "CDF-%d: ncmpi_def_dim(len=%d)%s returned %s, documented %s" % (
                    fmt, l, " with an unlimited dimension already defined" if have_unl and l == 0 else "", rc, want),
                    fmt=fmt, expect=want, rc=rc))
            if rc == 0:
                accepted.append(l)
                if l == 0:
                    have_unl = True
        for j, l in enumerate(accepted):
            e = res.get(n["inq"][j])
            if e is None or e.get("rc") != 0 or e.get("r") != [l]:
                P.append(prob("dimlen", "CDF-%d: inq_dimlen of dimension %d defined with length %d gives %s" % (fmt, j, l, e), fmt=fmt))
        if res.rc(n["enddef"]) != 0 or res.rc(n["close"]) != 0:
            P.append(prob("enddef_rc", "CDF-%d: enddef/close of a file holding only dimensions %s returned %s/%s" % (
                fmt, accepted, res.rc(n["enddef"]), res.rc(n["close"])), fmt=fmt, expect="accept"))
        elif not P:
            try:
                hdr = cdfspec.decode(read_header(d, 65536), strict=True)
                got = [x.length for x in hdr.dims]
                if hdr.version != fmt or got != accepted:
                    P.append(prob("hdr_dims", "CDF-%d: header holds dimension lengths %s, defined %s" % (fmt, got, accepted), fmt=fmt))
            except cdfspec.CDFError as e:
                P.append(prob("decode", "CDF-%d: header with dimensions %s does not decode: %s" % (fmt, accepted, e), fmt=fmt))
        ctx.count("dim_cases")
        if nt:
            ctx.nontrivial(runner.case_hash(case))
        return P
    finally:
        shutil.rmtree(d, ignore_errors=True)


# ====================================================================== kind "rule"
def build_rule(case):
    s = Script(k=1)
    dims, vs = schema(case)
    n = define(s, case, dims, vs)
    n["close"] = s.op("close", f="f0")
    return s, n, dims, vs


def describe_def(case, vs):
    return "CDF-%d %s [%s]" % (case["fmt"], ("ncmpi__enddef(%d,4,0,4)" % case.get("hfree", 0)) if (case.get("exact") or case.get("hfree")) else "ncmpi_enddef",
                                ", ".join("%s %s%s = %d bytes%s" % ("record" if r else "fixed", cdfspec.TYPE_NAME[xt],
                                                                    list(case["vars"][i]["lens"]), S, "/record" if r else "")
                                          for i, (_n, xt, _ids, r, S) in enumerate(vs)))


def run_rule(ctx, case):
    fmt = case["fmt"]
    s, n, dims, vs = build_rule(case)
    pool = ctx.pool(case.get("variant", "plain"), nprocs=1)
    res, d = pool.run(s, keepdir=True)
    try:
        P = []
        if res.rc(n["create"]) != 0:
            raise HarnessTrouble("create returned %s" % res.rc(n["create"]))
        for i, (nm, l) in enumerate(dims):
            if res.rc(n["dims"][i]) != LM.def_dim_rule(fmt, l, False):
                raise HarnessTrouble("def_dim(%d) returned %s" % (l, res.rc(n["dims"][i])))
        defined = []
        for i, (nm, xt, ids, rec, S) in enumerate(vs):
            rc = res.rc(n["vars"][i])
            if rc not in LM.def_var_rule(S):
                P.append(prob("defvar_rc", "%s: ncmpi_def_var of variable %d returned %s, allowed %s" % (
                    describe_def(case, vs), i, rc, sorted(LM.def_var_rule(S))), fmt=fmt, rc=rc))
            if rc == 0:
                defined.append(vs[i])
            elif S > LM.L5:
                ctx.count("rule_defvar_refused_beyond_63bit")
        hsize = header_size(fmt, dims, defined)
        lo, hi = extent_band(case, hsize)
        v = LM.enddef_rule(fmt, [(r, S) for _n, _x, _i, r, S in defined], lo, hi)
        rc = res.rc(n["enddef"])
        ctx.count("rule_fmt%d" % fmt, "rule_%s" % v.kind, "rule_nvars_%d" % len(vs), "rule_%s" % ("h_minfree" if case.get("hfree") else "pinned_extent" if case.get("exact") else "default_extent"))
        for m in set(v.marks):
            ctx.count("mark_" + m)
        if v.kind == LM.OPEN:
            ctx.count("open_got_%s" % rc)
        nt = any(m in ("size_eq_L%d" % fmt, "size_just_above_L%d" % fmt, "begin_near_2G") for m in v.marks)
        if rc not in v.allowed():
            P.append(prob("enddef_rc", "%s: enddef returned %s, documented %s (%s)" % (describe_def(case, vs), rc, sorted(v.allowed()), v.why),
                          fmt=fmt, expect=v.kind, rc=rc))
        elif rc == 0:
            crc = res.rc(n["close"])
            if crc != 0:
                P.append(prob("close_rc", "%s: close after an accepted enddef returned %s" % (describe_def(case, vs), crc), fmt=fmt))
            if not any(m in ("open_offset_overflow", "open_beyond_63bit") for m in v.marks):     # offsets not representable: nothing to check
                P += check_header(case, read_header(d, hsize + 64), dims, defined, hsize, describe_def(case, vs))
        if nt:
            ctx.nontrivial(runner.case_hash(case))
        ctx.sample({"case": case, "verdict": repr(v), "script": s.lines}, limit=2)
        return P
    finally:
        shutil.rmtree(d, ignore_errors=True)


def check_header(case, raw, dims, defined, hsize, what):
    """the header written for an accepted definition: content as defined, vsize saturation, begins"""
    fmt = case["fmt"]
    P = []
    try:
        hdr = cdfspec.decode(raw, strict=True)
    except cdfspec.CDFError as e:
        return [prob("decode", "%s: the header written by enddef does not decode: %s" % (what, e), fmt=fmt)]
    got_d = [(x.name.decode(), x.length) for x in hdr.dims]
    got_v = [(x.name.decode(), x.xtype, list(x.dimids)) for x in hdr.vars]
    if hdr.version != fmt or got_d != [(a, b) for a, b in dims] or got_v != [(a, b, list(c)) for a, b, c, _r, _s in defined]:
        return [prob("hdr_content", "%s: header content differs from the definition: version %s dims %s vars %s" % (what, hdr.version, got_d, got_v), fmt=fmt)]
    for i, (nm, xt, ids, rec, S) in enumerate(defined):
        want = LM.vsize_field(fmt, S)
        if hdr.vars[i].vsize != want:
            P.append(prob("vsize", "%s: vsize field of variable %d is %d, specified %d%s" % (
                what, i, hdr.vars[i].vsize, want, " (saturation value for a padded size above 2^32-4)" if want == LM.VSIZE_SATURATED and fmt != 5 else ""),
                fmt=fmt, sat=bool(want == LM.VSIZE_SATURATED and fmt != 5)))
    for m in cdfspec.layout_problems(hdr):
        if "vsize field" in m:
            continue            # reported above
        P.append(prob("layout", "%s: %s" % (what, m), fmt=fmt))
    begins = [x.begin for x in hdr.vars]
    if fmt == 1 and any(b > LM.BEGIN_MAX_CDF1 for b in begins):
        P.append(prob("begin", "%s: CDF-1 begin offsets %s exceed 2^31-1" % (what, begins), fmt=fmt))
    if (case.get("exact") or case.get("hfree")) and begins:
        lo, hi = extent_band(case, hsize)
        b0 = min(begins)
        if not (lo <= b0 <= hi) and hi == lo:
            P.append(prob("begin", "%s: the data section begins at %d, header size %d rounded up to 4 is %d" % (what, b0, hsize, lo), fmt=fmt))
        elif b0 < lo:
            P.append(prob("begin", "%s: the data section begins at %d, less than header size %d + h_minfree %d" % (what, b0, hsize, case.get("hfree", 0)), fmt=fmt))
        else:
            want_b = LM.layout([(r, S) for _n, _x, _i, r, S in defined], b0)[0]
            if begins != want_b:
                P.append(prob("begin", "%s: begins %s, the packed layout from offset %d is %s" % (what, begins, b0, want_b), fmt=fmt))
    return P


# ---------------------------------------------------------------------- building variables of an exact size
_spf = {}


def _small_factor(n):
    """smallest prime factor < 2^17 of n, or None"""
    if n not in _spf:
        r = None
        for p in itertools.chain([2], range(3, 1 << 17, 2)):
            if p * p > n:
                break
            if n % p == 0:
                r = p
                break
        _spf[n] = r
    return _spf[n]


def shapes_for(S, fmt):
    """candidate (xt, lens) with XSZ[xt]*prod(lens) == S and every length within the format's dimension limit"""
    out = []
    dmax = LM.DIM_MAX[fmt]
    for xt in ((4, 1, 3, 6, 5, 2) if fmt != 5 else (4, 1, 3, 6, 10, 8, 9)):
        x = XSZ[xt]
        if S % x:
            continue
        n = S // x
        if n < 1:
            continue
        if n <= dmax:
            out.append((xt, [n]))
        if n == 1:
            out.append((xt, []))            # scalar (or a record variable with the record dimension only)
        for a in (2, 3, 4, 8, 1024):
            if n % a == 0 and 1 < n // a <= dmax:
                out.append((xt, [a, n // a]))
                out.append((xt, [n // a, a]))
        p = _small_factor(n)
        if p and p not in (2, 3) and n // p <= dmax:
            out.append((xt, [p, n // p]))
        if n % 6 == 0 and 1 < n // 6 <= dmax:
            out.append((xt, [2, n // 6, 3]))
    return out


def var_of(S, fmt, rec, variant):
    c = shapes_for(S, fmt)
    if not c:
        return None
    xt, lens = c[variant % len(c)]
    return {"rec": int(rec), "xt": xt, "lens": list(lens)}


def size_menu(fmt, level):
    """level 0: reduced, 1: full"""
    L = LM.VLEN_MAX[fmt]
    thr = sorted({lim + dlt for lim in (T31 - 4, T31, T32 - 4, T32) for dlt in (-8, -4, 0, 4)})
    odd = [T31 - 5, T31 - 3, T31 - 2, T32 - 5, T32 - 3, T32 - 2]
    if level:
        out = [4, 10] + thr + odd + [2 ** 40]
    else:
        out = [4, 10, LM.L1 - 4, LM.L1, LM.L1 + 1, LM.L1 + 4, LM.L2 - 4, LM.L2, LM.L2 + 1, LM.L2 + 4]
    if fmt == 5 and level:
        out += [2 ** 62, 2 ** 63 - 8192]
    return out


def cdf5_big_vars():
    """variables around the 63-bit limit (sizes that only CDF-5 dimensions can express)"""
    M = 2 ** 63
    out = []
    for S in (LM.L5 - 4, LM.L5 - 1, LM.L5, LM.L5 + 1, LM.L5 + 3):
        out.append({"xt": 1, "lens": [S]})
    out += [{"xt": 3, "lens": [M // 2 - 2]}, {"xt": 3, "lens": [M // 2 - 1]}, {"xt": 3, "lens": [M // 2]}, {"xt": 4, "lens": [M // 4 - 1]},
            {"xt": 4, "lens": [M // 4]}, {"xt": 6, "lens": [M // 8]}, {"xt": 10, "lens": [2, M // 16]}, {"xt": 4, "lens": [M // 4, 4]},
            {"xt": 6, "lens": [M - 1]}, {"xt": 1, "lens": [M - 1, M - 1]}, {"xt": 1, "lens": [2 ** 32, 2 ** 32]}, {"xt": 4, "lens": [2 ** 31, 2 ** 31]},
            {"xt": 6, "lens": [2 ** 31, 2 ** 30, 4]}, {"xt": 1, "lens": [3, (M - 4) // 3]}, {"xt": 1, "lens": [7, 2 ** 60]}]
    return out


def offset_target_cases():
    """CDF-1 definitions with a pinned header extent in which one variable begins exactly at 2^31-8, 2^31-4, 2^31 or 2^31+4"""
    out = []
    for nv in (2, 3, 4):
        for kinds in itertools.product((0, 1), repeat=nv):
            order = [i for i in range(nv) if not kinds[i]] + [i for i in range(nv) if kinds[i]]      # layout order
            for pos in range(1, nv):
                for T in (T31 - 8, T31 - 4, T31, T31 + 4):
                    for lastsize in (4, LM.L1 + 4, 3 * 10 ** 9):
                        filler, tail = order[0], order[-1]
                        var = [{"rec": kinds[i], "xt": 4, "lens": [1 + (i + pos) % 3]} for i in range(nv)]
                        var[tail] = var_of(lastsize, 1, kinds[tail], pos + nv)
                        fv = (T // 4 + pos + nv) % 3
                        var[filler] = {"rec": kinds[filler], "xt": (4, 3, 1)[fv], "lens": ([1], [2, 1], [4, 1])[fv]}
                        case = {"kind": "rule", "fmt": 1, "exact": 1, "vars": var, "target": [order[pos], T]}
                        dims, vs = schema(case)
                        H = header_size(1, dims, vs)
                        before = sum(LM.pad4(vs[i][4]) for i in order[1:pos])
                        S = T - H - before
                        if S <= 0 or S % 4:
                            continue
                        var[filler]["lens"][-1] = S // 4
                        out.append(case)
    return out


def hfree_cases():
    """definitions whose data section is pushed to (about) a threshold offset by the h_minfree argument of ncmpi__enddef"""
    out = []
    for fmt in (1, 2, 5):
        for nv in (1, 2, 3):
            for kinds in itertools.product((0, 1), repeat=nv):
                order = [i for i in range(nv) if not kinds[i]] + [i for i in range(nv) if kinds[i]]
                for T in ((T31 - 8192, T31 - 4100, T31 - 4, T31, T31 + 4) if fmt == 1 else (T31, T32 - 4, T32, 2 * T32 + 4)):
                    for lastsize in (4, 10, LM.L1 + 4, 5 * 10 ** 9):
                        var = [{"rec": kinds[i], "xt": (4, 3, 1)[(i + nv) % 3], "lens": [1 + (i + nv) % 3]} for i in range(nv)]
                        var[order[-1]] = var_of(lastsize, fmt, kinds[order[-1]], nv + T % 7)
                        case = {"kind": "rule", "fmt": fmt, "exact": 1, "vars": var}
                        dims, vs = schema(case)
                        case["hfree"] = T - header_size(fmt, dims, vs)
                        out.append(case)
    return out


def enumerate_rules(tier, seed):
    """the rule-table cases of a tier in a fixed order (quick: the complete 1- and 2-variable tables for CDF-1/2 plus
    seed-dependent samples of the rest; thorough: the complete products)"""
    quick = tier != "thorough"
    cases = []
    ctr = [0]

    def add(fmt, combo, exact=None):
        ctr[0] += 1
        i = ctr[0]
        vs = []
        for j, (S, rec) in enumerate(combo):
            v = var_of(S, fmt, rec, i * 7 + j * 3)
            if v is None:
                return
            vs.append(v)
        cases.append({"kind": "rule", "fmt": fmt, "exact": int(i % 4 != 0) if exact is None else exact, "vars": vs})

    def sample(it, total, want):
        """every element (thorough) or about `want` of them, the phase chosen by the seed (quick)"""
        step = max(1, total // want) if want else 1
        for i, c in enumerate(it):
            if (i + seed) % step == 0:
                yield c

    for fmt in (1, 2, 5):
        full = [(S, r) for S in size_menu(fmt, 1) for r in (0, 1)]
        red = [(S, r) for S in size_menu(fmt, 0) for r in (0, 1)]
        for c in full:
            add(fmt, [c], 0)
            add(fmt, [c], 1)
        for c in sample(itertools.product(full, repeat=2), len(full) ** 2, 0):
            add(fmt, list(c))
        if quick:
            for c in sample(itertools.product(red, repeat=3), len(red) ** 3, 10000 if fmt != 5 else 2000):
                add(fmt, list(c))
            for c in sample(itertools.product(red, repeat=4), len(red) ** 4, 6000 if fmt != 5 else 1200):
                add(fmt, list(c))
        else:
            m3 = full if fmt != 5 else red
            for c in itertools.product(m3, repeat=3):
                add(fmt, list(c))
            for c in sample(itertools.product(red, repeat=4), len(red) ** 4, 0 if fmt != 5 else 10000):
                add(fmt, list(c))
    # CDF-5: the 63-bit limit
    big = cdf5_big_vars()
    for i, b in enumerate(big):
        for rec in (0, 1):
            for exact in (0, 1):
                cases.append({"kind": "rule", "fmt": 5, "exact": exact, "vars": [dict(b, rec=rec)]})
            cases.append({"kind": "rule", "fmt": 5, "exact": 1, "vars": [{"rec": 0, "xt": 4, "lens": [3]}, dict(b, rec=rec), {"rec": 1, "xt": 3, "lens": [5]}]})
            cases.append({"kind": "rule", "fmt": 5, "exact": 0, "vars": [dict(b, rec=rec), dict(big[(i + 3) % len(big)], rec=1 - rec)]})
    # CDF-1: begin offsets exactly around 2^31
    ot = offset_target_cases()
    for c in sample(ot, len(ot), 0):
        cases.append(c)
    cases += hfree_cases()
    return cases


DIM_LENS = [-2 ** 63, -2 ** 31 - 1, -1, 0, 1, 2 ** 31 - 2, 2 ** 31 - 1, 2 ** 31, 2 ** 31 + 1, 2 ** 32 - 1, 2 ** 32, 2 ** 32 + 1, 2 ** 63 - 2, 2 ** 63 - 1, 0]


def enumerate_dims():
    cases = []
    for fmt in (1, 2, 5):
        for r in range(len(DIM_LENS)):
            cases.append({"kind": "dim", "fmt": fmt, "lens": DIM_LENS[r:] + DIM_LENS[:r]})
            cases.append({"kind": "dim", "fmt": fmt, "lens": [DIM_LENS[r]]})
    return cases


@st.composite
def rand_rule(draw):
    """random definitions near the thresholds (run on the sanitizer build)"""
    fmt = draw(st.sampled_from([1, 2, 5]))
    nv = draw(st.integers(1, 4))
    vs = []
    for _ in range(nv):
        lim = draw(st.sampled_from([T31 - 4, T31, T32 - 4, T32]))
        S = draw(st.one_of(st.integers(lim - 9, lim + 9), st.sampled_from([4, 10, 2 ** 30, 2 ** 30 + 4, T31 // 2 - 4]),
                           st.integers(1, 2 ** 33)))
        if fmt == 5 and draw(st.integers(0, 5)) == 0:
            S = draw(st.integers(LM.L5 - 9, LM.L5 + 3))
        rec, variant = draw(st.integers(0, 1)), draw(st.integers(0, 40))
        v = var_of(S, fmt, rec, variant)
        while v is None:
            S = S // 4 * 4 + 4
            v = var_of(S, fmt, rec, variant)
        vs.append(v)
    return {"kind": "rule", "fmt": fmt, "exact": draw(st.integers(0, 1)), "vars": vs, "variant": "asan"}


# ====================================================================== kind "addr"
# definitions with multi-GiB variables (name, fmt, vars, target variable, number of records that may be addressed)
def _v(rec, xt, *lens):
    return {"rec": rec, "xt": xt, "lens": list(lens)}


ADDR_DEFS = [
    ("c5_byte_5e9", 5, [_v(0, 1, 5 * 10 ** 9)], 0, 0),
    ("c5_short_3e9", 5, [_v(0, 4, 3), _v(0, 3, 3 * 10 ** 9)], 1, 0),
    ("c5_int_1p5e9", 5, [_v(0, 4, 15 * 10 ** 8)], 0, 0),
    ("c5_double_2d", 5, [_v(0, 6, 30000, 30000)], 0, 0),
    ("c5_byte_2d_bigdim1", 5, [_v(0, 1, 3, 3 * 10 ** 9)], 0, 0),
    ("c5_byte_2d_bigdim0", 5, [_v(0, 1, 3 * 10 ** 9, 3)], 0, 0),
    ("c5_int_3d", 5, [_v(0, 3, 7), _v(0, 4, 1500, 1000, 1000)], 1, 0),
    ("c5_int64_8e8", 5, [_v(0, 10, 8 * 10 ** 8), _v(0, 1, 5)], 0, 0),
    ("c5_ushort_2d_bigdim1", 5, [_v(0, 8, 2, 2 ** 31 + 5)], 0, 0),
    ("c2_last_fixed_gt4g", 2, [_v(0, 4, 10), _v(0, 6, 7 * 10 ** 8)], 1, 0),
    ("c2_begin_gt4g_mid", 2, [_v(0, 4, 10 ** 9), _v(0, 3, 2, 10 ** 9), _v(0, 1, 100000)], 1, 0),
    ("c2_begin_gt8g_last", 2, [_v(0, 4, 10 ** 9), _v(0, 3, 2, 10 ** 9), _v(0, 1, 100000)], 2, 0),
    ("c2_byte_2d_maxdim", 2, [_v(0, 1, 3, 2 ** 31 - 1)], 0, 0),
    ("c2_float_2d", 2, [_v(0, 5, 40000, 40000)], 0, 0),
    ("c1_last_fixed_gt2g", 1, [_v(0, 4, 5), _v(0, 5, 66661, 66661)], 1, 0),
    ("c1_last_fixed_begin_near_2g", 1, [_v(0, 4, 536869000), _v(0, 1, 2, 15 * 10 ** 8)], 1, 0),
    ("c1_first_fixed_to_2g", 1, [_v(0, 3, 2 ** 30 - 4000), _v(0, 1, 3)], 0, 0),
    ("c5_rec_single_tiny", 5, [_v(1, 4)], 0, 32 * 10 ** 8),
    ("c5_rec_single_short", 5, [_v(0, 1, 3), _v(1, 3, 3)], 1, 10 ** 9),
    ("c2_rec_single", 2, [_v(1, 3, 1000)], 0, 3 * 10 ** 6),
    ("c1_rec_multi_small", 1, [_v(0, 4, 4), _v(1, 4, 10), _v(1, 1, 3)], 1, 12 * 10 ** 7),
    ("c1_rec_multi_small_last", 1, [_v(0, 4, 4), _v(1, 4, 10), _v(1, 1, 3)], 2, 12 * 10 ** 7),
    ("c2_rec_2g_per_record", 2, [_v(1, 4, 5 * 10 ** 8), _v(1, 3, 10 ** 9)], 1, 4),
    ("c2_rec_2g_per_record_first", 2, [_v(1, 4, 5 * 10 ** 8), _v(1, 3, 10 ** 9)], 0, 4),
    ("c1_last_record_gt2g", 1, [_v(0, 4, 4), _v(1, 4, 3), _v(1, 1, 3, 10 ** 9)], 2, 3),
    ("c1_last_record_gt2g_small", 1, [_v(0, 4, 4), _v(1, 4, 3), _v(1, 1, 3, 10 ** 9)], 1, 3),
    ("c2_last_record_gt4g", 2, [_v(1, 4, 2), _v(1, 6, 6 * 10 ** 8)], 1, 3),
    ("c5_rec_big_inner", 5, [_v(1, 1, 5 * 10 ** 9), _v(1, 4, 2)], 0, 3),
    ("c5_rec_big_inner_second", 5, [_v(1, 1, 5 * 10 ** 9), _v(1, 4, 2)], 1, 3),
    ("c2_fixed_5g_then_record", 2, [_v(0, 4, 6 * 10 ** 8), _v(0, 4, 6 * 10 ** 8), _v(1, 4, 7)], 2, 1000),
    ("c5_fixed_5g_then_record", 5, [_v(0, 1, 5 * 10 ** 9), _v(1, 3, 7), _v(1, 1, 1)], 1, 2 * 10 ** 8),
    # small variables behind a header extent of 2, 4 or 8 GiB (h_minfree): every element lies above the threshold
    ("c2_hfree_4g_fixed", 2, [_v(0, 4, 10), _v(1, 3, 3), _v(0, 1, 7, 5)], 2, 1000, T32 + 8),
    ("c2_hfree_4g_record", 2, [_v(0, 4, 10), _v(1, 3, 3), _v(1, 1, 5)], 1, 10 ** 6, T32 - 200),
    ("c5_hfree_8g_fixed", 5, [_v(0, 10, 4, 3), _v(0, 4)], 0, 0, 2 * T32),
    ("c5_hfree_8g_scalar", 5, [_v(0, 10, 4, 3), _v(0, 4), _v(1, 6)], 1, 0, 2 * T32 + 4),
    ("c5_hfree_8g_record", 5, [_v(0, 10, 4, 3), _v(0, 4), _v(1, 6)], 2, 10 ** 9, 2 * T32 + 4),
    ("c1_hfree_near_2g_last_big", 1, [_v(0, 3, 5), _v(0, 4, 3, 10 ** 9)], 1, 0, T31 - 10000),
    ("c1_hfree_near_2g_records", 1, [_v(0, 3, 5), _v(1, 4, 3), _v(1, 1, 2, 10 ** 9)], 2, 3, T31 - 10000),
]
FORMS = ["var1", "vara", "vars", "varn"]
NC_MAX_INT = 2 ** 31 - 1
NC_EINTOVERFLOW = -221

# Generator switches for confirmed, still unfixed defects: True = cases that run into the defect are left out by
# construction (counted as excluded_<name>); the defect itself is kept as a replay in replays/C18.
SWITCHES = {
    # ncmpio_filetype.c:ncmpio_file_set_view(): without MPI large-count support rank 0 prepends the header extent to every
    # non-contiguous file view as ONE block of (int)begin_var bytes and gives up with NC_EINTOVERFLOW when the header extent
    # (ncmpi__enddef h_minfree, or a huge header) exceeds 2^31-1: every request that is not contiguous in the file, and
    # every varn / nonblocking request, then fails on rank 0 although the definition was accepted.
    # replays/C18/header-extent-above-2g-*.json.  With the switch on, definitions whose data section starts above 2^31-1
    # are only accessed through blocking var1 / single-row vara requests (contiguous in the file).
    "header_extent_above_2g": not os.environ.get("VERIF_C18_NOEXCLUDE"),      # the variable re-enables the excluded cases (after a fix)
}


def big_extent(case):
    """the definition's data section certainly starts above 2^31-1"""
    dims, vs = schema(case)
    return extent_band(case, header_size(case["fmt"], dims, vs))[0] > NC_MAX_INT


class Picker:
    """deterministic choices from a list of integers (Hypothesis draws or an enumeration index); continues with an LCG"""

    def __init__(self, ints):
        self.q = list(ints)
        self.x = (sum(self.q) * 2654435761 + 12345) & 0xFFFFFFFF

    def pick(self, n):
        if n <= 1:
            return 0
        if self.q:
            return self.q.pop(0) % n
        self.x = (self.x * 1103515245 + 12345) & 0x7FFFFFFF
        return (self.x >> 8) % n


class Geo:
    """geometry of the target variable under a predicted layout (only used to choose interesting positions; the
    oracle works from the header found in the file)"""

    def __init__(self, fmt, vars_, tv, reccap, exact, hfree=0):
        case = {"fmt": fmt, "vars": vars_}
        dims, vs = schema(case)
        H = header_size(fmt, dims, vs)
        ext = LM.pad4(H + hfree) if (exact or hfree) else -(-H // 512) * 512
        begins, recsize, _br, _end = LM.layout([(r, S) for _n, _x, _i, r, S in vs], ext)
        v = vars_[tv]
        self.rec = bool(v["rec"])
        self.xsz = XSZ[v["xt"]]
        self.inner = list(v["lens"])
        self.shape = ([reccap] if self.rec else []) + self.inner
        self.begin = begins[tv]
        self.recsize = recsize
        self.nin = 1
        for l in self.inner:
            self.nin *= l

    def unravel(self, lin, lens):
        out = []
        for l in reversed(lens):
            out.append(lin % l)
            lin //= l
        return list(reversed(out))

    def offset(self, idx):
        inner = idx[1:] if self.rec else idx
        lin = 0
        for i, l in zip(inner, self.inner):
            lin = lin * l + i
        return self.begin + lin * self.xsz + (idx[0] * self.recsize if self.rec else 0)

    def at_offset(self, T):
        """index of the element holding file offset T (None if T is outside the variable)"""
        rel = T - self.begin
        if rel < 0:
            return None
        if self.rec:
            r, within = divmod(rel, self.recsize)
            if r >= self.shape[0]:
                return None
            lin = min(within // self.xsz, self.nin - 1)
            return [r] + self.unravel(lin, self.inner)
        lin = rel // self.xsz
        if lin >= self.nin:
            return None
        return self.unravel(lin, self.inner)

    def anchors(self):
        """[(label, index)]: first, last, the elements around file offsets 2^31 / 2^32, around linear index 2^31 / 2^32 inside
        the variable (or inside one record) and around index 2^31 / 2^32 along every dimension that is long enough"""
        nd = len(self.shape)
        A = [("first", [0] * nd), ("last", [l - 1 for l in self.shape])]
        mid = [min(1, l - 1) for l in self.shape]
        for T, nm in ((T31, "31"), (T32, "32")):
            for dlt, sfx in ((-1, "-"), (0, "+")):
                a = self.at_offset(T + dlt)
                if a is not None:
                    A.append(("off" + nm + sfx, a))
                x = T + dlt
                if self.inner and x < self.nin:
                    a = self.unravel(x, self.inner)
                    A.append(("lin" + nm + sfx, ([mid[0]] + a) if self.rec else a))
                for dpos, l in enumerate(self.shape):
                    if x < l:
                        a = list(mid)
                        a[dpos] = x
                        A.append(("dim%d_%s%s" % (dpos, nm, sfx), a))
        return A


def box_elems(start, count, stride=None):
    rng = [[s + i * (1 if stride is None else stride[d]) for i in range(c)] for d, (s, c) in enumerate(zip(start, count))]
    return [tuple(p) for p in itertools.product(*rng)]


def req_elems(rq):
    """element indices of a request, in buffer order"""
    f = rq["form"]
    if f == "var1":
        return [tuple(rq["start"])]
    if f == "vara":
        return box_elems(rq["start"], rq["count"])
    if f == "vars":
        return box_elems(rq["start"], rq["count"], rq["stride"])
    out = []
    for s, c in zip(rq["starts"], rq["counts"]):
        out += box_elems(s, c)
    return out


def make_box(g, a, pk, strided, row_only=False):
    """a small box (start, count, stride) containing anchor `a`, inside the variable's shape"""
    nd = len(g.shape)
    start, count, stride = [], [], []
    for d in range(nd):
        L = g.shape[d]
        last = d == nd - 1
        c = 1 + pk.pick(4) if last else (1 + (pk.pick(4) == 0) + (pk.pick(12) == 0))
        if row_only and not last:
            c = 1
        c = min(c, L)
        sd = 1
        if strided and c > 1:
            m = pk.pick(5)
            room = (L - 1) // (c - 1)
            sd = [1, 2, 3, max(room // 2, 1), room][m]
            sd = max(1, min(sd, room))
        span = (c - 1) * sd + 1
        off = pk.pick(c) * sd
        s = min(max(a[d] - off, 0), L - span)
        start.append(s)
        count.append(c)
        stride.append(sd)
    return start, count, stride


def make_request(g, form, anchors, pk, row_only=False):
    if row_only:
        a = anchors[pk.pick(len(anchors))][1]
        if form in ("var1", "varn") or not g.shape:
            return {"form": "var1", "start": list(a)}
        s, c, _sd = make_box(g, a, pk, False, True)
        return {"form": "vara", "start": s, "count": c}
    if form == "varn":
        n = 2 + pk.pick(3)
        starts, counts, seen = [], [], set()
        for _ in range(n):
            a = anchors[pk.pick(len(anchors))][1]
            s, c, _sd = make_box(g, a, pk, False)
            el = set(box_elems(s, c))
            if el & seen:
                continue
            seen |= el
            starts.append(s)
            counts.append(c)
        return {"form": "varn", "starts": starts, "counts": counts}
    a = anchors[pk.pick(len(anchors))][1]
    if form == "var1":
        return {"form": "var1", "start": list(a)}
    s, c, sd = make_box(g, a, pk, form == "vars")
    if form == "vara":
        return {"form": "vara", "start": s, "count": c}
    return {"form": "vars", "start": s, "count": c, "stride": sd}


def mirror(rq, pk):
    """a read request addressing exactly the elements of write request rq (in the same order), possibly through another form"""
    f = rq["form"]
    m = pk.pick(3)
    if f == "var1":
        nd = len(rq["start"])
        return [dict(rq), {"form": "vara", "start": rq["start"], "count": [1] * nd},
                {"form": "varn", "starts": [rq["start"]], "counts": [[1] * nd]}][m]
    if f == "vara":
        return [dict(rq), {"form": "vars", "start": rq["start"], "count": rq["count"], "stride": [1] * len(rq["start"])},
                {"form": "varn", "starts": [rq["start"]], "counts": [rq["count"]]}][m]
    if f == "vars":
        el = req_elems(rq)
        if m == 2 and len(el) <= 12:
            return {"form": "varn", "starts": [list(e) for e in el], "counts": [[1] * len(e) for e in el]}
        return dict(rq)
    return dict(rq)


def make_addr_case(di, pk, k=None, exact=None):
    name, fmt, vars_, tv, reccap = ADDR_DEFS[di][:5]
    hfree = ADDR_DEFS[di][5] if len(ADDR_DEFS[di]) > 5 else 0
    k = (1 + pk.pick(2)) if k is None else k
    exact = pk.pick(2) if exact is None else exact
    g = Geo(fmt, vars_, tv, reccap, exact, hfree)
    anchors = g.anchors()
    wmode = {"coll": pk.pick(2), "nb": pk.pick(2)}
    rmode = {"coll": pk.pick(2), "nb": pk.pick(2)}
    if not g.shape and k > 1:
        wmode["coll"] = rmode["coll"] = 0       # a scalar has no zero-length request a peer could make in a collective call
    simple = bool(SWITCHES["header_extent_above_2g"] and big_extent({"fmt": fmt, "vars": vars_, "exact": exact, "hfree": hfree}))
    if simple:
        wmode["nb"] = rmode["nb"] = 0
    nreq = 1 + pk.pick(3)
    forms = [FORMS[pk.pick(4)] for _ in range(nreq)]
    taken = set()
    writes = {}
    for r in range(k):
        lst = []
        for i in range(nreq):
            rq = None
            for _try in range(4):
                c = make_request(g, forms[i], anchors, pk, simple)
                el = req_elems(c)
                if el and len(set(el)) == len(el) and not (set(el) & taken):
                    rq = c
                    taken |= set(el)
                    break
            lst.append(rq)
        writes[str(r)] = lst
    # the other rank (or the same) reads the elements back, request by request
    swap = pk.pick(2) if k == 2 else 0
    reads = {}
    for r in range(k):
        src = writes[str((r + 1) % k if swap else r)]
        lst = [None if rq is None else mirror(rq, pk) for rq in src]
        if simple or (rmode["coll"] and not rmode["nb"]):
            for i, rq in enumerate(lst):          # one API function per collective call: keep the form of the write
                if rq is not None:
                    lst[i] = dict(src[i])
        reads[str(r)] = lst
    case = {"kind": "addr", "name": name, "fmt": fmt, "k": k, "exact": exact, "hfree": hfree, "ds": int(pk.pick(4) == 0), "vars": vars_, "tv": tv,
            "wmode": wmode, "rmode": rmode, "swap": swap, "writes": writes, "reads": reads, "salt": pk.pick(100), "reopen": pk.pick(2)}
    if simple:
        case["restricted"] = "header_extent_above_2g"
    return case


def value_byte(salt, r, i, j):
    return 1 + (salt + 41 * r + 17 * i + 5 * j) % 0x7E


def _ll(v):
    return ";".join(",".join(str(x) for x in row) for row in v)


def build_addr(case):
    fmt, k, tv = case["fmt"], case["k"], case["tv"]
    dims, vs = schema(case)
    xsz = XSZ[vs[tv][1]]
    mt = NATIVE_MT[vs[tv][1]]
    nd = len(vs[tv][2])
    s = Script(k=k)
    if not case.get("ds"):
        # keep the physical I/O small: no data sieving, no two-phase buffering (MPI-IO internals; the file view and
        # offsets PnetCDF hands to MPI-IO are the same).  One case in four runs with ROMIO's defaults.
        s.op("info", i="i1", **{"h__romio_ds_write": hx("disable"), "h__romio_cb_write": hx("disable"), "h__romio_cb_read": hx("disable")})
    n = define(s, case, dims, vs, k, info=None if case.get("ds") else "i1")
    plan = {"n": n, "puts": [], "gets": [], "waits": [], "model": {}, "setup": [], "dims": dims, "vs": vs, "xsz": xsz}
    ctr = {"buf": 0, "req": 0}

    def emit(rank, text, sn=None):
        """one statement for one rank; sn = shared number of a call that is collective over all k ranks"""
        if sn is None:
            num = s.n
            s.n += 1
            s.lines.append("%d %d %s" % (num, rank, text))
        else:
            num = sn
            s.lines.append("%d! %d %s" % (num, rank, text))
        return num

    def data_text(api, rq, coll, buf, req=None, rb=False):
        f = rq["form"]
        t = "data api=%s form=%s coll=%d mt=%s f=f0 v=%d buf=%s" % (api, f, coll, mt, tv, buf)
        if f == "varn":
            t += " num=%d" % len(rq["starts"])
            if rq["starts"]:
                t += " starts=%s counts=%s" % (_ll(rq["starts"]), _ll(rq["counts"]))
        else:
            t += " start=%s" % ",".join(map(str, rq["start"]))
            if f != "var1":
                t += " count=%s" % ",".join(map(str, rq["count"]))
            if f == "vars":
                t += " stride=%s" % ",".join(map(str, rq["stride"]))
        if req:
            t += " req=%s" % req
        if rb:
            t += " rb=1"
        return t

    def zero_request(form):
        if form == "varn":
            return {"form": "varn", "starts": [], "counts": []}
        z = {"form": "vara" if form == "var1" else form, "start": [0] * nd, "count": [0] * nd}
        if form == "vars":
            z["stride"] = [1] * nd
        return z

    def phase(is_w, mode, reqs):
        coll, nb = mode["coll"], mode["nb"]
        blocking_coll = bool(coll and not nb)
        nreqs = max(len(reqs[str(r)]) for r in range(k))
        if not coll:
            plan["setup"].append(s.op("begin_indep", step=True, f="f0"))
        qs = {r: [] for r in range(k)}
        pending = []
        for i in range(nreqs):
            present = [r for r in range(k) if reqs[str(r)][i] is not None]
            if not present:
                continue
            form0 = reqs[str(present[0])][i]["form"]
            # a blocking collective call must be the same API function on every rank; var1 has no zero-length
            # request, so when one rank has nothing to do in this call every rank uses vara
            need_zero = blocking_coll and len(present) < k
            sn = s.same_n() if blocking_coll else None
            for r in range(k):
                rq = reqs[str(r)][i]
                if rq is None:
                    if not blocking_coll:
                        continue
                    rq, el = zero_request(form0), []
                else:
                    el = req_elems(rq)
                    if need_zero and rq["form"] == "var1":
                        rq = {"form": "vara", "start": rq["start"], "count": [1] * nd}
                ctr["buf"] += 1
                b = "b%d" % ctr["buf"]
                if is_w:
                    vals = bytes(value_byte(case["salt"], r, i, j) for j in range(len(el)) for _ in range(xsz))
                    emit(r, "buf b=%s size=%d hex=%s" % (b, max(len(vals), 1), vals.hex() if vals else "00"))
                    for j, e in enumerate(el):
                        plan["model"][e] = value_byte(case["salt"], r, i, j)
                else:
                    emit(r, "buf b=%s size=%d fill=%d" % (b, max(len(el) * xsz, 1), GETFILL))
                api = ("iput" if nb else "put") if is_w else ("iget" if nb else "get")
                q = None
                if nb:
                    ctr["req"] += 1
                    q = "q%d" % ctr["req"]
                    qs[r].append(q)
                num = emit(r, data_text(api, rq, 1 if blocking_coll else 0, b, q, rb=(not is_w and not nb)), sn)
                ent = {"n": num, "r": r, "i": i, "elems": el, "rq": rq, "buf": b, "chk": None}
                (plan["puts"] if is_w else plan["gets"]).append(ent)
                if nb and not is_w:
                    pending.append(ent)
        if nb:
            sn = s.same_n() if coll else None
            for r in range(k):
                if qs[r]:
                    num = emit(r, "wait f=f0 coll=%d reqs=%s st=1" % (coll, ",".join(qs[r])), sn)
                elif coll:
                    num = emit(r, "wait f=f0 coll=1 reqs=ALL st=0", sn)
                else:
                    continue
                plan["waits"].append({"n": num, "r": r})
            for ent in pending:
                ent["chk"] = emit(ent["r"], "bufchk b=%s rb=1" % ent["buf"])
        if not coll:
            plan["setup"].append(s.op("end_indep", step=True, f="f0"))

    phase(True, case["wmode"], case["writes"])
    if case.get("reopen"):
        # read through a handle that learned the layout from the file header (saturated vsize, 64-bit begins)
        plan["setup"].append(s.op("close", step=True, f="f0"))
        kw = {} if case.get("ds") else {"info": "i1"}
        plan["setup"].append(s.op("open", step=True, f="f0", path=hx("t.nc"), mode=0, **kw))
    else:
        plan["setup"].append(s.op("fence", step=True, f="f0"))
    phase(False, case["rmode"], case["reads"])
    plan["setup"].append(s.op("close", step=True, f="f0"))
    return s, plan


def run_addr(ctx, case):
    fmt, k, tv = case["fmt"], case["k"], case["tv"]
    s, plan = build_addr(case)
    dims, vs, xsz = plan["dims"], plan["vs"], plan["xsz"]
    n = plan["n"]
    what = "%s (CDF-%d, k=%d, %s, write %s/%s, read %s/%s%s)" % (
        case.get("name", "?"), fmt, k, "pinned extent" if case.get("exact") else "default extent",
        "collective" if case["wmode"]["coll"] else "independent", "iput+wait" if case["wmode"]["nb"] else "blocking",
        "collective" if case["rmode"]["coll"] else "independent", "iget+wait" if case["rmode"]["nb"] else "blocking",
        (", peer reads" if case.get("swap") else "") + (", read after close+reopen" if case.get("reopen") else ""))
    pool = ctx.pool("plain", nprocs=1 if k == 1 else 2)
    res, d = pool.run(s, keepdir=True, timeout=60)
    try:
        P = []
        for r in range(k):
            if res.rc(n["create"], r) != 0:
                raise HarnessTrouble("create returned %s" % res.rc(n["create"], r))
            for j in n["dims"] + n["vars"]:
                if res.rc(j, r) != 0:
                    raise HarnessTrouble("definition statement %d returned %s" % (j, res.rc(j, r)))
        H = header_size(fmt, dims, vs)
        v = LM.enddef_rule(fmt, [(r_, S) for _n, _x, _i, r_, S in vs], *extent_band(case, H))
        if v.kind != LM.ACCEPT:
            raise HarnessTrouble("the addressing definition is not an accepted one per limits: %r" % v)
        rcs = [res.rc(n["enddef"], r) for r in range(k)]
        if any(rc != 0 for rc in rcs):
            return [prob("enddef_rc", "%s: enddef returned %s for a definition the rules accept (%s)" % (what, rcs, v.why), fmt=fmt, expect="accept", rc=rcs[0])]
        for j in plan["setup"]:
            for r in range(k):
                if res.rc(j, r) != 0:
                    P.append(prob("setup_rc", "%s: statement %d (%s) returned %s on rank %d" % (what, j, [l for l in s.lines if l.split()[0].rstrip("!") == str(j)][0].split()[2], res.rc(j, r), r), fmt=fmt))
        # ---- return codes of the requests
        for ent in plan["puts"] + plan["gets"]:
            e = res.get(ent["n"], ent["r"])
            rc = None if e is None else e.get("rc")
            if rc != 0:
                P.append(prob("data_rc", "%s: rank %d %s returned %s" % (what, ent["r"], fmt_rq(ent["rq"]), rc), fmt=fmt, form=ent["rq"]["form"], rc=rc))
            elif e.get("guards") == 0:
                P.append(prob("guard", "%s: rank %d %s damaged the guard zone of the buffer" % (what, ent["r"], fmt_rq(ent["rq"])), fmt=fmt))
        for w in plan["waits"]:
            e = res.get(w["n"], w["r"])
            if e is None or e.get("rc") != 0 or any(x != 0 for x in (e.get("st") or [])):
                P.append(prob("wait_rc", "%s: rank %d wait returned %s statuses %s" % (what, w["r"], None if e is None else e.get("rc"), None if e is None else e.get("st")), fmt=fmt))
        if P:
            if big_extent(case) and any(p["sig"].get("rc") == NC_EINTOVERFLOW or p["kind"] == "wait_rc" for p in P):
                for p in P:
                    p["sig"]["pattern"] = "header_extent_above_2g"
            return P                # what follows would only be consequences
        model = plan["model"]
        # ---- (1) read back through the API
        if not P:
            for ent in plan["gets"]:
                e = res.get(ent["n"] if ent["chk"] is None else ent["chk"], ent["r"])
                got = bytes.fromhex((e or {}).get("hex") or "")
                want = bytes(model[el] for el in ent["elems"] for _ in range(xsz))
                if ent["elems"] and got[:len(want)] != want:
                    j = next(i for i in range(len(want)) if got[i:i + 1] != want[i:i + 1]) // xsz
                    P.append(prob("readback", "%s: rank %d %s: element %s reads back as %s, written %s" % (
                        what, ent["r"], fmt_rq(ent["rq"]), list(ent["elems"][j]), got[j * xsz:(j + 1) * xsz].hex(), want[j * xsz:(j + 1) * xsz].hex()),
                        fmt=fmt, form=ent["rq"]["form"]))
        # ---- (2) the bytes at the file position computed from the decoded header
        path = os.path.join(d, "t.nc")
        raw = read_header(d, H + 64)
        try:
            hdr = cdfspec.decode(raw, strict=True)
        except cdfspec.CDFError as e:
            return P + [prob("decode", "%s: header does not decode: %s" % (what, e), fmt=fmt)]
        P += check_header(case, raw, dims, vs, H, what)
        hv = hdr.vars[tv]
        isrec = hdr.is_record(hv)
        inner = [hdr.dims[i].length for i in (hv.dimids[1:] if isrec else hv.dimids)]
        recsize = hdr.recsize() if isrec else 0
        top = -1
        hi = 0
        fd = os.open(path, os.O_RDONLY)
        try:
            fsize = os.fstat(fd).st_size
            bad = 0
            for el, b in sorted(model.items()):
                idx = el[1:] if isrec else el
                lin = 0
                for i_, l in zip(idx, inner):
                    lin = lin * l + i_
                off = hv.begin + lin * xsz + (el[0] * recsize if isrec else 0)
                hi = max(hi, off)
                if isrec:
                    top = max(top, el[0])
                got = os.pread(fd, xsz, off)
                if got != bytes([b]) * xsz:
                    bad += 1
                    if bad <= 3:
                        P.append(prob("filepos", "%s: element %s of variable %d: file offset %d (begin %d%s + %d*%d) holds %s, written %s (file size %d)" % (
                            what, list(el), tv, off, hv.begin, " + %d*%d" % (el[0], recsize) if isrec else "", lin, xsz, got.hex() or "nothing", (bytes([b]) * xsz).hex(), fsize),
                            fmt=fmt, above4g=bool(off >= T32)))
        finally:
            os.close(fd)
        if isrec and not P and hdr.numrecs != top + 1:
            P.append(prob("numrecs", "%s: header numrecs %s after writing record %d" % (what, hdr.numrecs, top), fmt=fmt))
        if case.get("restricted"):
            ctx.count("excluded_" + case["restricted"])
        ctx.count("addr_cases", "addr_read_after_reopen" if case.get("reopen") else "addr_read_same_handle", "addr_fmt%d" % fmt, "addr_k%d" % k, "addr_def_%s" % case.get("name", "?"),
                  "addr_write_%s_%s" % ("coll" if case["wmode"]["coll"] else "indep", "nb" if case["wmode"]["nb"] else "blocking"),
                  "addr_read_%s_%s" % ("coll" if case["rmode"]["coll"] else "indep", "nb" if case["rmode"]["nb"] else "blocking"))
        for ent in plan["puts"]:
            if ent["elems"]:
                ctx.count("addr_put_" + ent["rq"]["form"])
        ctx.stats["addr_elements"] += len(model)
        if hi >= T32:
            ctx.count("addr_offset_above_4g")
            ctx.nontrivial(runner.case_hash(case))
        elif hi >= T31:
            ctx.count("addr_offset_above_2g")
        if any(any(x >= T31 for x in el) for el in model):
            ctx.count("addr_index_above_2^31")
        st_ = os.stat(path)
        ctx.stats["addr_allocated_kib_total"] += st_.st_blocks // 2
        ctx.stats["addr_apparent_mib_total"] += st_.st_size >> 20
        if len(ctx.samples) < 4:
            ctx.sample({"case": case, "script": s.lines}, limit=4)
        return P
    finally:
        shutil.rmtree(d, ignore_errors=True)


def fmt_rq(rq):
    return "%s %s" % (rq["form"], {k: v for k, v in rq.items() if k != "form"})


def _mix(*xs):
    """deterministic 12 well-mixed integers from a few small ones (splitmix64 steps)"""
    x = 0x9E3779B97F4A7C15
    for v in xs:
        x = (x ^ (v + 0x9E3779B97F4A7C15 + (x << 6) + (x >> 2))) & 0xFFFFFFFFFFFFFFFF
    out = []
    for _ in range(12):
        x = (x + 0x9E3779B97F4A7C15) & 0xFFFFFFFFFFFFFFFF
        z = x
        z = ((z ^ (z >> 30)) * 0xBF58476D1CE4E5B9) & 0xFFFFFFFFFFFFFFFF
        z = ((z ^ (z >> 27)) * 0x94D049BB133111EB) & 0xFFFFFFFFFFFFFFFF
        out.append((z ^ (z >> 31)) >> 16)
    return out


def enumerate_addr(tier, seed):
    """(definition, k, picker integers) triples in a fixed order"""
    out = []
    per = 120 if tier != "thorough" else 800
    for di in range(len(ADDR_DEFS)):
        for j in range(per):
            out.append((di, 1 + (di + j) % 2, _mix(seed, di, j)))
    return out


@st.composite
def rand_addr(draw):
    di = draw(st.integers(0, len(ADDR_DEFS) - 1))
    ints = draw(st.lists(st.integers(0, 2 ** 20), min_size=8, max_size=60))
    return make_addr_case(di, Picker(ints))


# ====================================================================== contract
def run_case(ctx, case):
    kind = case.get("kind")
    if kind == "dim":
        return run_dim(ctx, case)
    if kind == "rule":
        return run_rule(ctx, case)
    return run_addr(ctx, case)


def case_script(case):
    kind = case.get("kind")
    if kind == "dim":
        return build_dim(case)[0].text("<dir>")[0]
    if kind == "rule":
        return build_rule(case)[0].text("<dir>")[0]
    return build_addr(case)[0].text("<dir>")[0]


def shrink_rule(ctx, case, probs, run):
    """drop variables of a failing definition while it keeps failing"""
    best, bp = case, probs
    changed = True
    while changed and len(best["vars"]) > 1:
        changed = False
        for i in range(len(best["vars"])):
            c2 = dict(best, vars=best["vars"][:i] + best["vars"][i + 1:])
            c2.pop("target", None)
            p2 = [p for p in run(ctx, c2) if not ctx.known.match(p)]
            if p2:
                best, bp, changed = c2, p2, True
                break
    return best, bp


def campaign(ctx):
    run = runner.guarded(run_case)
    nfail = 0

    def one(case, label):
        nonlocal nfail
        ctx.evaluations += 1
        try:
            probs = run(ctx, case)
        except HarnessTrouble as e:
            ctx.notes.append("harness trouble in %s: %s" % (case, e))
            ctx.stats["harness_exceptions"] += 1
            return
        real = []
        for p in probs:
            if ctx.known.match(p):
                ctx.excluded_known += 1
            else:
                real.append(p)
        if real:
            if case.get("kind") == "rule":
                case, real = shrink_rule(ctx, case, real, run)
            ctx.failures.append({"case": case, "problems": real, "label": label})
            nfail += 1

    # ---- rule table
    rules = enumerate_dims() + enumerate_rules(ctx.tier, ctx.seed)
    if ctx.widx == 0:
        ctx.stats["rule_table_expected"] = len(rules)
    for i, case in enumerate(rules):
        if i % ctx.nworkers != ctx.widx:
            continue
        if nfail >= 1:
            ctx.notes.append("worker %d stopped the rule-table enumeration after %d failing definitions" % (ctx.widx, nfail))
            ctx.stats["enum_aborted"] += 1
            break
        one(case, "rule")
        ctx.stats["rule_table_done"] += 1
    # ---- addressing: enumerated scenarios, then random positions
    nfail = 0
    for i, (di, k, ints) in enumerate(enumerate_addr(ctx.tier, ctx.seed)):
        if i % ctx.nworkers != ctx.widx:
            continue
        if nfail >= 1:
            break
        one(make_addr_case(di, Picker(ints), k=k), "addr")
    if ctx.failures:
        return              # the verdict is already red; triage of more failures only costs time
    n = {"quick": 200, "thorough": 2000}[ctx.tier]
    runner.run_hypothesis(ctx, rand_addr(), run_guard_trouble(run), n, label="addr")
    n = {"quick": 150, "thorough": 1500}[ctx.tier]
    runner.run_hypothesis(ctx, rand_rule(), run_guard_trouble(run), n, label="rule")


def run_guard_trouble(run):
    def f(ctx, case):
        try:
            return run(ctx, case)
        except HarnessTrouble as e:
            ctx.notes.append("harness trouble in %s: %s" % (str(case)[:300], e))
            ctx.stats["harness_exceptions"] += 1
            return []
    return f


def coverage_extra(stats, tier):
    total = stats.get("rule_table_expected", -1)
    done = stats.get("rule_table_done", 0)
    return {"exhaustive": bool(0 < total <= done and not stats.get("enum_aborted") and not stats.get("harness_exceptions")),
            "rule_table": {"expected": total, "completed": done,
                           "accept": stats.get("rule_accept", 0), "reject": stats.get("rule_reject", 0), "open_not_judged": stats.get("rule_open", 0)},
            "addressing": {"cases": stats.get("addr_cases", 0), "elements_checked": stats.get("addr_elements", 0),
                           "cases_with_offset_above_4GiB": stats.get("addr_offset_above_4g", 0),
                           "cases_with_index_above_2^31": stats.get("addr_index_above_2^31", 0),
                           "disk_KiB_allocated_by_all_sparse_files": stats.get("addr_allocated_kib_total", 0),
                           "apparent_MiB_of_all_sparse_files": stats.get("addr_apparent_mib_total", 0)},
            "generator_switches": dict(SWITCHES),
            "excluded": {k: v for k, v in stats.items() if k.startswith("excluded_")},
            "enumerated_domain": "both tiers: all def_dim length lists, all 1- and 2-variable definitions over the full size menu (3 formats), all "
                                 "CDF-5 63-bit cases, all CDF-1 begin-offset targets, all h_minfree cases; quick adds seed-dependent samples of the "
                                 "3- and 4-variable products over the reduced menu; thorough adds the full 3-variable product over the full menu "
                                 "(CDF-1/2; reduced menu for CDF-5) and the full 4-variable product over the reduced menu (CDF-5: 10000 sampled)"}


if __name__ == "__main__":
    runner.main("checks.c18", PROP, variants=VARIANTS, default_workers=8, nt_floor=50)
