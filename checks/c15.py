#!/usr/bin/env python3-vt
"""C15 - out-of-range requests are rejected and writes stay inside their target.

Every tested request is judged twice:
  * its return code against the reference predicate pv/argcheck.py (written from the documentation), and
  * byte by byte: the file is copied (`snapshot`) before and after the request.  Rejected requests, zero-length
    requests and reads must leave every byte unchanged; an accepted write may change only the bytes of the
    addressed elements of the addressed variable (offsets computed by the independent decoder pv/cdfspec.py from
    the header found in the file) and the numrecs field of the header, and every addressed element must hold the
    pattern the request carried.

Snapshot policy (the choice the design leaves open): one file per batch, written completely with pattern A (byte
0x41+varid) at setup; the tested requests carry pattern B (byte 0xB0|position in the caller's buffer).
  * A request that is predicted to be an accepted non-empty write has its own snapshot before and after; then the
    tested variable is rewritten with pattern A (or, when the write grew the record count, a fresh file is created
    and filled) and a new baseline snapshot is taken.
  * Requests without a predicted effect (rejected, zero-length, reads) are checked in runs of up to GROUP
    consecutive requests that share one snapshot (the snapshot after the run against the baseline before it); the
    return code of every request is still checked individually.  When a run changed the file the campaign re-runs
    its members one by one (`only`), so the reported case is the single offending tuple.  Replays (`only`) and the
    random part use runs of length 1.
  * Three quarters of the batches disable ROMIO's data sieving for writes (hint romio_ds_write=disable): then the
    bytes that appear when a write extends the file must be addressed elements or read as zero (holes).  With the
    default hints ROMIO's read-modify-write of a strided request stores arbitrary bytes into the never-written gaps
    beyond the old end of file (MPI-IO layer, outside PnetCDF), so there only the bytes inside the old file size
    are constrained.
"""
import os, sys, itertools, shutil, collections, tempfile
sys.path.insert(0, os.path.dirname(os.path.dirname(os.path.abspath(__file__))))
import numpy as np
from hypothesis import strategies as st
from pv import model as M, gen as G, argcheck as AC, cdfspec, runner
from pv.pool import Script, hx

PROP = "C15"
RULE = ("Deterministic enumeration (partitioned over workers) of (start,count,stride) tuples with start,count in [-1,len+1] and "
        "stride in {-1,0,1,2,len+1,absent} per dimension against fixed and record variables (numrecs 0..2) of 1-2 dimensions with "
        "lengths 1..3 (3 dimensions sampled), for put/get/iput/iget/bput x var1/vara/vars/varm/varn x strict/relaxed coordinate bound "
        "x CDF-1/2/5, plus Hypothesis-generated larger shapes with derived buffer datatypes, wrong bufcount and imap; oracle = "
        "documentation-derived reference predicate (pv/argcheck.py) for the return code + byte diff of file snapshots before/after "
        "every request against the element offsets an independent decoder derives from the header. Non-trivial = a batch (one "
        "script) containing a tuple on a boundary (start==len, start+count==len+1, last strided index==len) or an accepted write "
        "touching the first/last element of the variable's slab, i.e. bytes adjacent to another variable's data; distinct = "
        "distinct case hash. `evaluations` counts tested requests (tuples).  Peer part: blocking collective put/get (var1/vara/vars/varm) on a "
        "fixed-size variable by 2-3 ranks where rank 0 carries a valid request and the other ranks tuples from the boundary domain: "
        "return code per rank by the predicate, and only elements of accepted requests may change in the file.")
ASSUMPTIONS = ["enumeration and random part: single process (MPI singleton); peer part: 2-3 ranks, fixed-size variables only (a rejected rank in a collective put on a record variable is known finding F07 of C08); local POSIX file system, ROMIO as MPI-IO layer; data written through MPI-IO is visible "
               "to a POSIX copy of the file made by the same process right after the call returned",
               "no-fill mode (the default); bytes beyond the old end of file that a growing write does not address must read as zero "
               "only when ROMIO data sieving is disabled (romio_ds_write=disable, 3 of 4 batches): with sieving ROMIO itself stores arbitrary "
               "bytes into those never-written gaps",
               "scratch files (data file + snapshots) live on /dev/shm when it is writable (4x faster than the pool's ext4 /tmp), else in the pool's scratch directory",
               "NC_ENEGATIVECNT is ranked after NC_EINVALCOORDS (DESIGN appendix B); against NC_EEDGE/NC_ESTRIDE either code is accepted; "
               "for varn the error of any failing sub-request is accepted; start/count NULL accept NC_EINVALCOORDS|NC_ENULLSTART and "
               "NC_EEDGE|NC_ENULLCOUNT (see pv/argcheck.py for every open point and its source)",
               "memory type = the variable's native type, so no conversion or NC_ERANGE is involved (C09)",
               "imap values are positive and injective; nothing is asserted about zero/negative imap (undocumented)"]

FMT_MODE = {1: 0, 2: 0x200, 5: 0x20}
APIS = ["put", "get", "iput", "iget", "bput"]
FORMS = ["var1", "vara", "vars", "varm", "varn"]
XT_BY_FMT = {1: [1, 2, 3, 4, 5, 6], 2: [1, 2, 3, 4, 5, 6], 5: [1, 2, 3, 4, 5, 6, 7, 8, 9, 10, 11]}
GETFILL = 0xEE
TARGET_PER_CASE = 2500          # tuples per batch (one script)
GROUP = 16                      # requests without predicted effect sharing one snapshot in the enumerated batches


class HarnessTrouble(Exception):
    pass


# ====================================================================== schema
def schema(base):
    """dims [(name,len)], vars [(name, xt, dimids)], index of the tested variable, numrecs at setup.
    A fixed variable sits before the tested one, another variable after it, and there are always two or three
    record variables so that records interleave."""
    lens, rec, xt = base["lens"], base["rec"], base["xt"]
    dims = [("r", 0)]
    if rec:
        numrecs = lens[0]
        td = [0]
        for i, L in enumerate(lens[1:]):
            dims.append(("x%d" % (i + 1), L))
            td.append(len(dims) - 1)
    else:
        numrecs = 1
        td = []
        for i, L in enumerate(lens):
            dims.append(("x%d" % i, L))
            td.append(len(dims) - 1)
    dims.append(("e", 3))
    e = len(dims) - 1
    if rec:
        vs = [("fa", M.NC_BYTE, [e]), ("ra", M.NC_BYTE, [0, e]), ("t", xt, td), ("rb", M.NC_SHORT, [0])]
        tv = 2
    else:
        vs = [("fa", M.NC_BYTE, [e]), ("t", xt, td), ("fb", M.NC_SHORT, [e]), ("ra", M.NC_BYTE, [0, e]), ("rb", M.NC_SHORT, [0])]
        tv = 1
    return dims, vs, tv, numrecs


def _l(v):
    return "NULL" if v is None else ",".join(map(str, v))


def _ll(v):
    if v is None:
        return "NULL"
    return ";".join("NULL" if x is None else ",".join(map(str, x)) for x in v)


def bbyte(p):
    return 0xB0 | (p & 15)


# ====================================================================== request helpers
def verdict(base, rq):
    shape = list(base["lens"])
    is_read = rq["api"] in ("get", "iget")
    if rq["form"] == "varn":
        v = AC.check_varn(shape, base["rec"], is_read, base["strict"], rq["num"], rq["starts"], rq["counts"], base["fmt"])
    else:
        v = AC.check_box(shape, base["rec"], is_read, base["strict"], rq["form"], rq.get("start"), rq.get("count"),
                         rq.get("stride"), base["fmt"])
    fx = rq.get("flex")
    if fx:
        bt = fx.get("bt")
        n1 = 1 if bt is None else len(M.t_map(_tup(bt))[0])
        v = AC.check_flex(v, fx["bufcount"], n1, bt is not None)
    return v


def _tup(bt):
    from pv.prog import _tup as t
    return t(bt)


def geometry(rq, nd):
    """(idx (N,nd) in buffer order, mempos (N,)) of a request the predicate accepted"""
    form = rq["form"]
    if form == "varn":
        cs = rq["counts"]
        parts = [M.box_indices(s, ([1] * nd) if (cs is None or cs[i] is None) else cs[i]) for i, s in enumerate(rq["starts"])]
        idx = np.concatenate(parts) if parts else np.zeros((0, nd), dtype=np.int64)
        return idx, np.arange(len(idx), dtype=np.int64)
    if form == "var1":
        idx = M.box_indices(rq["start"], [1] * nd)
    elif form == "vara":
        idx = M.box_indices(rq["start"], rq["count"])
    else:
        idx = M.box_indices(rq["start"], rq["count"], rq.get("stride"))
    if form == "varm" and rq.get("imap") is not None and len(idx):
        return idx, M.imap_positions(rq["count"], rq["imap"])
    return idx, np.arange(len(idx), dtype=np.int64)


def imap_variant(iv, count):
    """a positive injective imap for the count box (counts <= 0 are treated as 1; such requests are rejected anyway)"""
    c = [max(int(x), 1) for x in count]
    nd = len(c)
    if iv == 0:
        return None
    if iv == 1:
        return M.canonical_imap(c)
    if iv == 2:                     # stretched: every second memory element, one more element of gap after every row
        im, stride = [0] * nd, 2
        for d in range(nd - 1, -1, -1):
            im[d] = stride
            stride = stride * c[d] + 1
        return im
    im, stride = [0] * nd, 1        # transposed: dimension 0 varies fastest in memory
    for d in range(nd):
        im[d] = stride
        stride *= c[d]
    return im


# ====================================================================== plan: requests -> script
class Plan:
    pass


def build(base, reqs, group_size=1, scratch=""):
    """base: fmt, strict, rec, lens, xt, coll, ds ; reqs: list of request dicts.  -> Plan (script + oracle data).
    Requests without a predicted effect on the file (rejected, zero-length, reads) share one snapshot per
    `group_size` consecutive requests; every predicted non-empty write has its own before/after snapshots."""
    dims, vs, tv, numrecs = schema(base)
    nd = len(base["lens"])
    xt = base["xt"]
    xsz = M.XT_SIZE[xt]
    mt = M.XT_NATIVE_MT[xt]
    prim = M.MT_PRIM[mt]
    coll = 1 if base["coll"] else 0
    ds = base.get("ds", 1)
    need_bput = any(r["api"] == "bput" for r in reqs)
    s = Script(k=1)
    lines = s.lines
    pl = Plan()
    pl.s, pl.base, pl.tv, pl.numrecs, pl.xsz, pl.nd = s, base, tv, numrecs, xsz, nd
    pl.setup = []        # (n, what) statements that must return NC_NOERR
    pl.items = []

    def emit(text):
        n = s.n
        lines.append("%d * %s" % (n, text))
        s.n = n + 1
        return n

    def must(text, what):
        pl.setup.append((emit(text), what))

    emit("env e.PNETCDF_RELAX_COORD_BOUND=%s" % hx("0" if base["strict"] else "1"))
    if not ds:
        emit("info i=i1 h.romio_ds_write=%s" % hx("disable"))
    dimlen = [l for _, l in dims]
    fills = []
    for i, (name, vxt, dd) in enumerate(vs):
        shp = [numrecs if dimlen[d] == 0 else dimlen[d] for d in dd]
        nb = int(np.prod(shp)) * M.XT_SIZE[vxt]
        if nb > 0:
            emit("buf b=b%d size=%d fill=%d" % (10 + i, nb, 0x41 + i))
            fills.append((i, vxt, shp))

    # ---- verdicts and buffer sizing
    vds, geos = [], []
    top = numrecs
    nput = nget = 16
    for rq in reqs:
        v = verdict(base, rq)
        g = None
        if v.accepted and v.nelems > 0:
            g = geometry(rq, nd)
            if "flex" not in rq or rq["flex"].get("bt") is None:
                n = int(g[1].max()) + 1
                if rq["api"] in ("get", "iget"):
                    nget = max(nget, n)
                else:
                    nput = max(nput, n)
            if base["rec"] and rq["api"] not in ("get", "iget"):
                top = max(top, int(g[0][:, 0].max()) + 1)
        vds.append(v)
        geos.append(g)
    pl.top = top
    bpat = np.repeat(np.array([bbyte(p) for p in range(nput)], dtype=np.uint8), xsz)
    emit("buf b=b0 size=%d hex=%s" % (len(bpat), bpat.tobytes().hex()))
    emit("buf b=b1 size=%d fill=%d" % (nget * xsz, GETFILL))
    pathno = [0]
    fill_lines = ["data api=put form=vara coll=%d mt=%s f=f0 v=%d start=%s count=%s buf=b%d" % (
        coll, M.XT_NATIVE_MT[vxt], i, _l([0] * len(shp)), _l(shp), 10 + i) for i, vxt, shp in fills]
    tfill = [fl for fl, f in zip(fill_lines, fills) if f[0] == tv]

    def setup():
        # every incarnation gets a fresh file name (clobbering an existing file costs an unlink on the slow path)
        pathno[0] += 1
        must("create f=f0 path=%s mode=%d%s" % (hx("%st%d.nc" % (scratch, pathno[0])), FMT_MODE[base["fmt"]], "" if ds else " info=i1"), "create")
        for name, l in dims:
            must("def_dim f=f0 name=%s len=%d" % (hx(name), l), "def_dim")
        for name, vxt, dd in vs:
            must("def_var f=f0 name=%s xt=%d dims=%s ndims=%d" % (hx(name), vxt, _l(dd), len(dd)), "def_var")
        must("enddef f=f0", "enddef")
        if not coll:
            must("begin_indep f=f0", "begin_indep")
        if need_bput:
            must("buffer_attach f=f0 size=%d" % max(4096, 4 * nput * xsz), "buffer_attach")
        for fl in fill_lines:
            must(fl, "fill")
        must("sync f=f0", "sync")

    def teardown():
        if need_bput:
            must("buffer_detach f=f0", "buffer_detach")
        must("close f=f0", "close")

    nsnap = [0]

    def snap():
        name = "s%d" % nsnap[0]
        nsnap[0] += 1
        must("snapshot path=%s to=%s%s" % (hx("%st%d.nc" % (scratch, pathno[0])), scratch, name), "snapshot")
        return name

    setup()
    cur = snap()
    ntype = 0
    nbuf = 1
    group = []

    def flush():
        if not group:
            return None
        name = snap()
        ids = [g["rq"].get("ti", g["k"]) for g in group]
        for g in group:
            g["after"] = name
            g["n_after"] = s.n - 1
            g["group"] = ids
        del group[:]
        return name

    for k, rq in enumerate(reqs):
        v, g = vds[k], geos[k]
        api, form = rq["api"], rq["form"]
        is_read = api in ("get", "iget")
        effect = (not is_read) and v.accepted and v.nelems > 0
        if effect:
            cur = flush() or cur
        it = {"k": k, "rq": rq, "v": v, "geo": g, "before": cur, "read": is_read, "own": None, "effect": effect}
        fx = rq.get("flex")
        bufname = "b1" if is_read else "b0"
        extra = ""
        if fx:
            bt = fx.get("bt")
            if bt is not None:
                bt = _tup(bt)
                ntype += 1
                tname = "t%d" % (ntype % 4000)
                emit("type t=%s spec=%s" % (tname, M.t_spec(bt)))
                offs, size = M.t_layout(bt, max(fx["bufcount"], 1))
                size = max(size, 1) + 8
                nbuf += 1
                bufname = "b%d" % (100 + nbuf % 3800)
                phys = np.full(size, GETFILL, dtype=np.uint8)
                if not is_read:
                    for p, o in enumerate(offs.tolist()):
                        phys[o:o + xsz] = bbyte(p)
                emit("buf b=%s size=%d hex=%s" % (bufname, size, phys.tobytes().hex()))
                extra += " buftype=%s" % tname
                it["own"] = offs
            else:
                extra += " buftype=%s" % prim
            extra += " bufcount=%d" % fx["bufcount"]
        if form == "varn":
            args = " num=%d starts=%s counts=%s" % (rq["num"], _ll(rq["starts"]), _ll(rq["counts"]))
        else:
            args = " start=%s" % _l(rq.get("start"))
            if form != "var1":
                args += " count=%s" % _l(rq.get("count"))
                if form != "vara":
                    args += " stride=%s" % _l(rq.get("stride"))
                    if form == "varm":
                        args += " imap=%s" % _l(rq.get("imap"))
        nb_api = api in ("iput", "iget", "bput")
        if nb_api:
            extra += " req=q1"
        it["n"] = emit("data api=%s form=%s coll=%d mt=%s f=f0 v=%d buf=%s%s%s" % (api, form, 0 if nb_api else coll, "flex" if fx else mt, tv, bufname, args, extra))
        it["nw"] = None
        if nb_api and AC.NOERR in v.allowed:
            it["nw"] = emit("wait f=f0 coll=%d reqs=q1 st=1" % coll)
        if effect:
            cur = snap()
            it["after"] = cur
            it["n_after"] = s.n - 1
            it["group"] = [rq.get("ti", k)]
            if base["rec"] and int(g[0][:, 0].max()) + 1 > numrecs:
                teardown()
                setup()
            else:
                for fl in tfill:
                    must(fl, "fill")
            cur = snap()
        else:
            group.append(it)
            if len(group) >= group_size:
                cur = flush()
        pl.items.append(it)
    flush()
    teardown()
    return pl


# ====================================================================== oracle on the results
# Generator switch for confirmed but still unfixed defects: when True, requests that run into one are left out by
# construction (counted as excluded_<name>) and the defect is probed through its replay in replays/C15 only.
# The one defect this check found so far (recvar1d_stride) was fixed in /repo (164e1ad4), so the switch is off and
# nothing is excluded; replays/C15/recvar1d-stride-wrong-offsets.json stays as a regression replay.
EXCLUDE_KNOWN = False


def known_defect(base, rq):
    """name of the confirmed defect a request runs into, or None (also added to the problem signature as `pattern`).
    recvar1d_stride: ncmpio_filetype.c:stride_flatten() computed the offsets of a strided request on a
    ONE-dimensional record variable with the element size instead of the record size, so put_vars/varm with
    count[0] > 1 and stride[0] > 1 wrote to the wrong file offsets (padding, other variables' data) whenever the
    file had more than one record variable."""
    if base["rec"] and len(base["lens"]) == 1 and rq["form"] in ("vars", "varm") and rq["api"] in ("put", "iput", "bput"):
        c, sd = rq.get("count"), rq.get("stride")
        if c is not None and sd is not None and c[0] > 1 and sd[0] > 1:
            return "recvar1d_stride"
    return None


def _prob(base, kind, msg, k, rq, group=None, **sig):
    sg = {"kind": kind, "api": rq["api"], "form": rq["form"]}
    kd = known_defect(base, rq)
    if kd:
        sg["pattern"] = kd
    sg.update(sig)
    return {"kind": kind, "msg": msg, "sig": sg, "tuple": rq.get("ti", k), "group": group or [rq.get("ti", k)]}


def describe(base, rq):
    a = {k: rq[k] for k in ("start", "count", "stride", "imap", "num", "starts", "counts", "flex") if k in rq}
    return "%s_%s%s %s on %s var shape %s fmt %d %s %s" % (
        rq["api"], rq["form"], "_all" if base["coll"] and rq["api"] in ("put", "get") else "", a,
        "record" if base["rec"] else "fixed", base["lens"], base["fmt"], "strict" if base["strict"] else "relaxed",
        M.XT_NAME[base["xt"]])


def evaluate(pl, res, d, stats):
    base = pl.base
    setup_iter = iter(pl.setup)
    pending = [next(setup_iter, None)]

    def setup_ok(upto, probs):
        """check the harness statements (create, fill, snapshot, ...) numbered below `upto`.  A failure after a tested
        request already misbehaved is a consequence of that (e.g. NC_EPENDING at close): stop evaluating, report what
        was found; a failure out of the blue is harness trouble, not a verdict."""
        while pending[0] is not None and pending[0][0] < upto:
            n, what = pending[0]
            rc = res.rc(n)
            if rc != 0:
                if probs:
                    return False
                raise HarnessTrouble("harness statement %d (%s) returned %s" % (n, what, rc))
            pending[0] = next(setup_iter, None)
        return True
    cache = {}

    def snap(name):
        b = cache.get(name)
        if b is None:
            with open(os.path.join(d, name), "rb") as f:
                b = f.read()
            if len(cache) > 3:
                cache.clear()
            cache[name] = b
        return b

    setup_ok(pl.items[0]["n"] if pl.items else 1 << 60, [])
    first = snap("s0")
    try:
        hdr = cdfspec.decode(first, strict=True)
    except cdfspec.CDFError as e:
        raise HarnessTrouble("cannot decode the header of the freshly created file: %s" % e)
    if hdr.version != base["fmt"]:
        raise HarnessTrouble("format %s, wanted %s" % (hdr.version, base["fmt"]))
    hsize = hdr.header_size
    nrw = 8 if base["fmt"] == 5 else 4
    hdr.numrecs = max(pl.top, pl.numrecs, 1) if base["rec"] else hdr.numrecs
    OFF = cdfspec.var_element_offsets(hdr, pl.tv)
    xsz = pl.xsz
    rows = OFF.reshape(OFF.shape[0], -1) if base["rec"] else OFF.reshape(1, -1)
    edge_offs = np.unique(np.concatenate([rows[:, 0], rows[:, -1]])) if rows.size else np.zeros(0, dtype=np.int64)
    strict_ext = not base.get("ds", 1)
    lens = base["lens"]
    probs = []
    nt = False
    unchanged = {}      # (before, after) -> bool
    reported = set()
    for it in pl.items:
        rq, v, k = it["rq"], it["v"], it["k"]
        form = rq["form"]
        if not setup_ok(it["n"], probs):
            return probs, nt
        e = res.get(it["n"])
        rc = None if e is None else e.get("rc")
        stats["tuples"] += 1
        if form != "varn":
            for c in AC.boundary_classes(lens, rq.get("start"), rq.get("count") if form != "var1" else None,
                                         rq.get("stride") if form in ("vars", "varm") else None):
                stats[c] += 1
                if c != "b_last_index_is_last_element":
                    nt = True
        if v.accepted:
            stats["pred_accept_zero" if v.nelems == 0 else ("pred_accept_read" if it["read"] else "pred_accept_write")] += 1
        else:
            stats[v.allowed] += 1
        if rc not in v.allowed:
            probs.append(_prob(base, "rc", "%s returned %s, documented: %s (%s)" % (describe(base, rq), rc, sorted(v.allowed), v.why),
                               k, rq, rc=rc, expect=sorted(v.allowed)))
        elif form == "varn" and rc not in v.first:
            stats["varn_error_of_later_subrequest"] += 1
        if e is not None and e.get("guards") == 0:
            probs.append(_prob(base, "guard", "%s damaged the guard zone of the caller's buffer" % describe(base, rq), k, rq))
        done = rc == 0
        if it["nw"] is not None and rc == 0:
            w = res.get(it["nw"])
            wrc = None if w is None else w.get("rc")
            wst = None if w is None else w.get("st")
            if wrc != 0 or (wst and wst[0] != 0):
                done = False
                if v.accepted:
                    probs.append(_prob(base, "wait", "%s: wait returned %s status %s for an accepted request" % (describe(base, rq), wrc, wst),
                                       k, rq, rc=wrc))
        if not it["effect"]:
            if not setup_ok(it["n_after"] + 1, probs):
                return probs, nt
            key = (it["before"], it["after"])
            same = unchanged.get(key)
            if same is None:
                same = unchanged[key] = snap(it["before"]) == snap(it["after"])
            if not same and key not in reported:
                reported.add(key)
                after, before = snap(it["after"]), snap(it["before"])
                a, b = np.frombuffer(after, np.uint8), np.frombuffer(before, np.uint8)
                m = min(len(a), len(b))
                ch = np.flatnonzero(a[:m] != b[:m])
                grp = it["group"]
                if len(grp) == 1:
                    what = "read" if it["read"] else ("zero-length request" if AC.NOERR in v.allowed else "rejected request")
                    who = "%s (rc %s): %s" % (describe(base, rq), rc, what)
                else:
                    what = "noeffect-group"
                    who = "one of the %d requests #%d..#%d (%s %s, all rejected, zero-length or reads; first: %s)" % (
                        len(grp), grp[0], grp[-1], rq["api"], form, describe(base, rq))
                probs.append(_prob(base, "changed", "%s changed the file: size %d -> %d, %d bytes differ, first at offset %s (header size %d)" % (
                    who, len(b), len(a), len(ch), ch[0] if len(ch) else None, hsize), k, rq, group=grp, what=what))
            continue
        if not done:
            continue        # already reported through the return code / wait
        # ---- accepted, non-empty write
        if not setup_ok(it["n_after"] + 1, probs):
            return probs, nt
        before, after = snap(it["before"]), snap(it["after"])
        idx, mempos = it["geo"]
        a, b = np.frombuffer(after, np.uint8), np.frombuffer(before, np.uint8)
        if len(a) < len(b):
            probs.append(_prob(base, "shrunk", "%s: file shrank from %d to %d bytes" % (describe(base, rq), len(b), len(a)), k, rq))
            continue
        offs = OFF[tuple(idx.T)].reshape(-1)
        pos = (offs[:, None] + np.arange(xsz)[None, :]).reshape(-1)
        allowed = np.zeros(max(len(a), int(pos.max()) + 1), dtype=bool)
        allowed[pos] = True
        allowed[4:4 + nrw] = True
        n = len(b)
        ch = np.flatnonzero(a[:n] != b)
        bad = ch[~allowed[ch]]
        # bytes beyond the old end of file were never written before: with ROMIO data sieving enabled (default hints)
        # the MPI-IO layer fills the holes of a strided write there with arbitrary bytes, so they are only constrained
        # (to read as zero, i.e. to be holes) in the batches that run with romio_ds_write=disable
        ext = (np.flatnonzero((a[n:] != 0) & ~allowed[n:len(a)]) + n) if strict_ext else np.zeros(0, dtype=np.int64)
        if len(bad) or len(ext):
            o = int(bad[0]) if len(bad) else int(ext[0])
            where = "header" if o < hsize else "data section"
            probs.append(_prob(base, "outside", "%s: byte at offset %d (%s) changed (0x%02x -> 0x%02x) although it belongs to no addressed element "
                               "(%d such bytes; target elements at %s, old file size %d)" % (
                                   describe(base, rq), o, where, int(b[o]) if o < n else 0, int(a[o]), len(bad) + len(ext),
                                   sorted(offs.tolist())[:8], n), k, rq, where=where))
        if len(pos) and pos.max() >= len(a):
            probs.append(_prob(base, "missing", "%s: addressed element at offset %d lies beyond the end of the file (%d bytes): not written" % (
                describe(base, rq), int(offs.max()), len(a)), k, rq))
            continue
        want = np.repeat(np.array([bbyte(int(p)) for p in mempos], dtype=np.uint8), xsz)
        got = a[pos]
        if len(np.unique(offs)) == len(offs) and (got != want).any():
            j = int(np.flatnonzero(got != want)[0]) // xsz
            probs.append(_prob(base, "notwritten", "%s: addressed element %s (offset %d) holds 0x%02x, the request carried 0x%02x" % (
                describe(base, rq), idx[j].tolist(), int(offs[j]), int(got[j * xsz]), int(want[j * xsz])), k, rq))
        if base["rec"]:
            old = int.from_bytes(before[4:4 + nrw], "big")
            new = int.from_bytes(after[4:4 + nrw], "big")
            want_nr = max(old, int(idx[:, 0].max()) + 1)
            if new not in (old, want_nr):
                probs.append(_prob(base, "numrecs", "%s: numrecs field went from %d to %d, expected %d" % (describe(base, rq), old, new, want_nr), k, rq))
        if np.isin(offs, edge_offs).any():
            stats["accepted_write_adjacent_to_other_variable"] += 1
            nt = True
        if len(probs) > 12:
            return probs, nt
    setup_ok(1 << 60, probs)
    return probs, nt


# scratch space for the data file and its snapshots: tmpfs when there is one (file creation on the ext4 /tmp of the pool
# costs 4x more), otherwise the per-script directory of the pool
SCRATCH_ROOT = "/dev/shm" if (os.path.isdir("/dev/shm") and os.access("/dev/shm", os.W_OK)) else None


def run_requests(ctx, base, reqs, stats, group_size=1):
    pool = ctx.pool("asan", nprocs=1)
    if SCRATCH_ROOT is None:
        pl = build(base, reqs, group_size)
        res, d = pool.run(pl.s, keepdir=True)
    else:
        d = tempfile.mkdtemp(prefix="pncv15.%d." % os.getpid(), dir=SCRATCH_ROOT)
        try:
            pl = build(base, reqs, group_size, d + "/")
            res, _ = pool.run(pl.s, keepdir=False)
        except BaseException:
            shutil.rmtree(d, ignore_errors=True)
            raise
    try:
        return evaluate(pl, res, d, stats)
    finally:
        shutil.rmtree(d, ignore_errors=True)


# ====================================================================== enumerated domain
def dim_tuples(L, with_stride):
    vals = range(-1, L + 2)
    if not with_stride:
        return [(s, c) for s in vals for c in vals]
    return [(s, c, sd) for s in vals for c in vals for sd in sorted({-1, 0, 1, 2, L + 1})]


def context(L, small=False):
    """context tuples (start, count, stride) for the dimensions that are not enumerated in the 'cross' domains: full extent,
    zero count at the boundary, start beyond, edge violation, negative count, bad stride"""
    if small:
        return [(0, L, 1), (L, 0, 1), (0, L + 1, 1)]
    return [(0, L, 1), (L, 0, 1), (L + 1, 1, 1), (0, L + 1, 1), (0, -1, 1), (0, 1, 0)]


def boxes(lens, form, dom):
    """yield (start, count, stride) tuples (tuples of ints / None) of the enumerated domain in a fixed order"""
    nd = len(lens)
    if form == "var1":
        if dom == "full" or nd == 1:
            for p in itertools.product(*[range(-1, L + 2) for L in lens]):
                yield (p, None, None)
        else:
            seen = set()
            for i in range(nd):
                lists = [list(range(-1, L + 2)) if j == i else sorted({x[0] for x in context(L, dom == "cross3")}) for j, L in enumerate(lens)]
                for p in itertools.product(*lists):
                    if p not in seen:
                        seen.add(p)
                        yield (p, None, None)
        yield (None, None, None)
        return
    strided = form in ("vars", "varm")
    variants = [True, False] if strided else [False]
    for ws in variants:
        if dom == "full" or nd == 1:
            for p in itertools.product(*[dim_tuples(L, ws) for L in lens]):
                yield (tuple(x[0] for x in p), tuple(x[1] for x in p), tuple(x[2] for x in p) if ws else None)
        else:
            seen = set()
            for i in range(nd):
                lists = []
                for j, L in enumerate(lens):
                    if j == i:
                        lists.append(dim_tuples(L, ws))
                    else:
                        cx = context(L, dom == "cross3")
                        lists.append(cx if ws else sorted({(x[0], x[1]) for x in cx}))
                for p in itertools.product(*lists):
                    if p not in seen:
                        seen.add(p)
                        yield (tuple(x[0] for x in p), tuple(x[1] for x in p), tuple(x[2] for x in p) if ws else None)
    # NULL pointers
    yield (None, tuple(lens), None)
    yield (tuple([0] * nd), None, None)
    yield (tuple(lens), None, None)


def count_boxes(lens, form, dom):
    nd = len(lens)
    if dom == "full" or nd == 1:
        if form == "var1":
            return int(np.prod([L + 3 for L in lens])) + 1
        n = int(np.prod([(L + 3) ** 2 for L in lens]))
        if form in ("vars", "varm"):
            n += int(np.prod([(L + 3) ** 2 * len({-1, 0, 1, 2, L + 1}) for L in lens]))
        return n + 3
    return sum(1 for _ in boxes(lens, form, dom))


def varn_reps(lens):
    nd = len(lens)
    z = [0] * nd
    reps = [(z, list(lens)), ([-1] + z[1:], [1] * nd), (z[:-1] + [lens[-1] + 1], [1] * nd), (z, list(lens[:-1]) + [lens[-1] + 1]),
            (z, [-1] + [1] * (nd - 1)), (z[:-1] + [lens[-1]], [1] * (nd - 1) + [0]), (z, [0] * nd)]
    return reps


def enum_requests(case):
    """the (index, request) pairs of one enumerated batch, after the part / only filters"""
    lens, form, api, dom = case["lens"], case["form"], case["api"], case.get("dom", "full")
    nd = len(lens)
    is_read = api in ("get", "iget")
    rec, strict, fmt = case["rec"], case["strict"], case["fmt"]
    j, m = case.get("part", [0, 1])
    only = case.get("only")
    only = None if only is None else set(only)
    flexsel = case.get("flex", 0)

    def ok(s, c):
        return AC.check_box(list(lens), rec, is_read, strict, "vara", list(s), list(c), None, fmt).accepted

    def wrap(ti, rq):
        rq["api"] = api
        rq["form"] = form
        rq["ti"] = ti
        if flexsel and ti % 2 == 0:
            rq["flex"] = {"bt": None, "bufcount": -1}
        return ti, rq

    def want(ti):
        return ti % m == j and (only is None or ti in only)

    if form != "varn":
        nv = 3 if nd == 1 else 4
        for ti, (s, c, sd) in enumerate(boxes(lens, form, dom)):
            if not want(ti):
                continue
            rq = {"start": None if s is None else list(s)}
            if form != "var1":
                rq["count"] = None if c is None else list(c)
            if form in ("vars", "varm"):
                rq["stride"] = None if sd is None else list(sd)
            if form == "varm":
                rq["imap"] = imap_variant(ti % nv, c) if c is not None else None
            yield wrap(ti, rq)
        return

    # ---- varn
    ti = -1
    zero = ([0] * nd, [0] * nd)
    zero_ok = ok(*zero)

    def fillers(s, c, k):
        """k valid sub-requests that do not touch the elements of (s, c): free single elements and zero-length ones"""
        taken = set()
        if ok(s, c) and all(x > 0 for x in c):
            taken = {tuple(r) for r in M.box_indices(list(s), list(c)).tolist()}
        shape = list(lens)
        if rec and not is_read:
            shape[0] = max(shape[0], 1)
        free = []
        if all(x > 0 for x in shape):
            for p in itertools.product(*[range(x) for x in shape]):
                if p not in taken:
                    free.append((list(p), [1] * nd))
                    if len(free) >= k:
                        break
        out = []
        for q in range(k):
            if q % 2 == 0 and free:
                out.append(free.pop(0))
            elif zero_ok:
                out.append(zero)
            elif free:
                out.append(free.pop(0))
            else:
                return None
        return out

    bi = -1
    for (s, c, _sd) in boxes(lens, "vara", dom):
        if s is None or c is None:
            continue
        # num = 1 with counts
        ti += 1
        if want(ti):
            yield wrap(ti, {"num": 1, "starts": [list(s)], "counts": [list(c)]})
        # every third tuple also at position 0, 1 or 2 of three sub-requests
        bi += 1
        if bi % 3:
            continue
        ti += 1
        if want(ti):
            f = fillers(s, c, 2)
            if f is None:
                yield wrap(ti, {"num": 1, "starts": [list(s)], "counts": [list(c)]})
            else:
                p = (bi // 3) % 3
                subs = [f[0], f[1]]
                subs.insert(p, (list(s), list(c)))
                yield wrap(ti, {"num": 3, "starts": [list(x[0]) for x in subs], "counts": [list(x[1]) for x in subs]})
    for (s, _c, _sd) in boxes(lens, "var1", dom):
        if s is None:
            continue
        ti += 1
        if want(ti):
            yield wrap(ti, {"num": 1, "starts": [list(s)], "counts": None})
    reps = varn_reps(lens)
    for a in reps:
        for b in reps:
            if a is b:
                continue
            ti += 1
            if not want(ti):
                continue
            if not is_read and ok(*a) and ok(*b) and all(x > 0 for x in a[1]) and all(x > 0 for x in b[1]):
                continue        # two overlapping valid writes: outcome undefined, not generated
            yield wrap(ti, {"num": 2, "starts": [list(a[0]), list(b[0])], "counts": [list(a[1]), list(b[1])]})
    z = [0] * nd
    last = [max(L - 1, 0) for L in lens]
    specials = [{"num": 1, "starts": None, "counts": None}, {"num": 0, "starts": None, "counts": None},
                {"num": 2, "starts": [z, None], "counts": [[0] * nd, [0] * nd]},
                {"num": 2, "starts": [None, z], "counts": None},
                {"num": 0, "starts": [[-1] * nd], "counts": [[-1] * nd]}]
    if last != z:
        specials.append({"num": 2, "starts": [z, last], "counts": [[1] * nd, None]})
        specials.append({"num": 2, "starts": [z, last], "counts": [None, [1] * nd]})
    for sp in specials:
        ti += 1
        if want(ti):
            yield wrap(ti, dict(sp))


_count_cache = {}


def count_enum(lens, form, dom):
    key = (tuple(lens), form, dom)
    if key not in _count_cache:
        if form != "varn":
            _count_cache[key] = count_boxes(lens, form, dom)
        else:
            _count_cache[key] = (4 * count_boxes(lens, "vara", dom)) // 3 + count_boxes(lens, "var1", dom) + 50
    return _count_cache[key]


def shapes(nd):
    """(rec, lens): fixed lengths 1..3; record variables numrecs 0..2 x fixed lengths 1..3"""
    out = []
    for lens in itertools.product(*[range(1, 4)] * nd):
        out.append((False, list(lens)))
    for lens in itertools.product(range(0, 3), *[range(1, 4)] * (nd - 1)):
        out.append((True, list(lens)))
    return out


def enum_plan(tier):
    """(ndims, domain, forms, k): the batches of every k-th (shape, api, format, mode) combination are enumerated"""
    if tier == "thorough":
        return [(1, "full", FORMS, 1), (2, "full", FORMS, 1), (3, "full", ["var1", "vara"], 1),
                (3, "cross", ["vars"], 1), (3, "cross", ["varm", "varn"], 2)]
    return [(1, "full", FORMS, 1), (2, "full", ["var1", "vara", "varn"], 1), (2, "cross", ["vars"], 1), (2, "cross", ["varm"], 2),
            (3, "cross3", ["vara"], 6), (3, "cross3", ["vars"], 10)]


def enumerate_cases(tier):
    """the complete list of enumerated batches of a tier, in a fixed order"""
    cases = []
    ctr = 0
    for nd, dom, forms, keep in enum_plan(tier):
        for si, (rec, lens) in enumerate(shapes(nd)):
            for form in forms:
                total = count_enum(lens, form, dom)
                m = max(1, int(round(total / TARGET_PER_CASE)))
                for fmt in (1, 2, 5):
                    for strict in (False, True):
                        for ai, api in enumerate(APIS):
                            if (si * 7 + ai * 3 + fmt + (5 if strict else 0)) % keep:
                                continue
                            xts = XT_BY_FMT[fmt]
                            for coll in ((0, 1) if nd == 1 else (None,)):
                                ctr += 1
                                for j in range(m):
                                    cases.append({"kind": "enum", "fmt": fmt, "strict": strict, "rec": rec, "lens": lens, "api": api,
                                                  "form": form, "dom": dom, "coll": (ctr + j) % 2 if coll is None else coll,
                                                  "xt": xts[(ctr * 5 + j) % len(xts)], "flex": 1 if (ctr + j) % 3 == 0 else 0,
                                                  "ds": 1 if (ctr + j) % 4 == 0 else 0, "part": [j, m]})
    return cases


# ====================================================================== random part
@st.composite
def rand_case(draw, tier="quick"):
    big = tier == "thorough"
    fmt = draw(st.sampled_from([1, 2, 5]))
    rec = G.chance(draw, 50)
    nd = draw(st.integers(1, 4))
    lens = [draw(st.integers(1, 6 if big else 5)) for _ in range(nd)]
    while int(np.prod(lens)) > 300:
        lens[lens.index(max(lens))] -= 1
    if rec:
        lens[0] = draw(st.integers(0, 4))
    xt = draw(st.sampled_from(XT_BY_FMT[fmt]))
    base = {"kind": "rand", "fmt": fmt, "strict": G.chance(draw, 50), "rec": rec, "lens": lens, "xt": xt, "coll": draw(st.integers(0, 1)),
            "ds": draw(st.integers(0, 1))}
    prim = M.MT_PRIM[M.XT_NATIVE_MT[xt]]
    reqs = []
    for _ in range(draw(st.integers(1, 10))):
        api = draw(st.sampled_from(APIS))
        form = draw(st.sampled_from(FORMS))
        is_read = api in ("get", "iget")
        valid = G.chance(draw, 55)

        def one_box(stride_ok):
            s, c, sd = [], [], []
            for i, L in enumerate(lens):
                Lw = L
                if rec and i == 0 and not is_read:
                    Lw = L + 3              # writes may append
                if valid and Lw > 0:
                    cc = draw(st.integers(0 if G.chance(draw, 10) else 1, Lw))
                    if cc == 0:
                        ss = draw(st.integers(0, Lw if not base["strict"] else Lw - 1))
                        dd = 1
                    else:
                        smax = (Lw - 1) // (cc - 1) if cc > 1 else 3
                        dd = draw(st.integers(1, max(1, min(3, smax)))) if stride_ok else 1
                        ss = draw(st.integers(0, Lw - ((cc - 1) * dd + 1)))
                else:
                    ss = draw(st.integers(-1, L + 2))
                    cc = draw(st.integers(-1, L + 2))
                    dd = draw(st.sampled_from([-1, 0, 1, 1, 2, 3, L + 1])) if stride_ok else 1
                s.append(ss)
                c.append(cc)
                sd.append(dd)
            return s, c, sd
        rq = {"api": api, "form": form}
        if form == "varn":
            k = draw(st.integers(0, 4))
            subs = []
            used = set()
            for _i in range(k):
                s, c, _ = one_box(False)
                if not is_read and all(x > 0 for x in c) and all(x >= 0 for x in s):
                    cells = {tuple(r) for r in M.box_indices(s, c).tolist()}
                    if cells & used:
                        c = [0] * nd            # keep sub-requests disjoint: turn the later one into a zero-length request
                    else:
                        used |= cells
                subs.append((s, c))
            single = k > 0 and all(all(x == 1 for x in c) for _, c in subs) and G.chance(draw, 40)
            rq.update({"num": k, "starts": [x[0] for x in subs] if (k or G.chance(draw, 50)) else None,
                       "counts": None if single else [x[1] for x in subs]})
            if k and G.chance(draw, 5):
                rq["starts"] = None
        else:
            s, c, sd = one_box(form in ("vars", "varm"))
            rq["start"] = s
            if form != "var1":
                rq["count"] = c
            if form in ("vars", "varm"):
                rq["stride"] = None if (all(x == 1 for x in sd) and G.chance(draw, 40)) else sd
            if form == "varm":
                rq["imap"] = imap_variant(draw(st.integers(0, 3)), c)
        v = verdict(base, rq)
        # flexible buffer description
        if G.chance(draw, 60) and not (form == "varm" and rq.get("imap") is not None):
            n = v.nelems if v.accepted else draw(st.integers(0, 6))
            kind = draw(st.sampled_from(["exact", "exact", "exact", "prim", "ignore", "ignore_derived", "more", "less", "zero"]))
            if kind == "prim":
                rq["flex"] = {"bt": None, "bufcount": n}
            elif kind == "ignore":
                rq["flex"] = {"bt": None, "bufcount": -1}
            else:
                bt, bc = draw(G.buftype(n, prim))
                if kind == "ignore_derived":
                    bc = -1
                elif kind == "more":
                    bc = bc + draw(st.integers(1, 2))
                elif kind == "less":
                    bc = max(bc - 1, 0)
                elif kind == "zero":
                    bc = 0
                rq["flex"] = {"bt": bt, "bufcount": bc}
        reqs.append(rq)
    base["reqs"] = reqs
    return base


# ====================================================================== contract
def case_requests(case, stats=None):
    """(base, requests) of a case after the part / only filters and the known-defect exclusion"""
    if case.get("kind") == "rand":
        base = {k: case[k] for k in ("fmt", "strict", "rec", "lens", "xt", "coll")}
        base["ds"] = case.get("ds", 1)
        reqs = [dict(r, ti=i) for i, r in enumerate(case["reqs"])]
        if case.get("only") is not None:
            only = set(case["only"])
            reqs = [r for r in reqs if r["ti"] in only]
    else:
        base = case
        reqs = [rq for _, rq in enum_requests(case)]
    if EXCLUDE_KNOWN and not case.get("noexclude"):
        keep = []
        for r in reqs:
            kd = known_defect(base, r)
            if kd and verdict(base, r).accepted:
                if stats is not None:
                    stats["excluded_" + kd] += 1
            else:
                keep.append(r)
        reqs = keep
    return base, reqs



# ====================================================================== peer part: collective calls on 2-3 ranks
# One rank carries a valid write, another rank a tuple from the same boundary domain (valid or not) in the SAME
# collective call on a fixed-size variable.  Return code per rank by the reference predicate; byte diff of the file:
# only the elements of accepted requests may change.  (Record variables are left to C08: known finding F07.)
@st.composite
def peer_case(draw, tier="quick"):
    nd = draw(st.sampled_from([1, 1, 2]))
    lens = [draw(st.integers(2, 4)) for _ in range(nd)]
    k = draw(st.sampled_from([2, 2, 3]))
    form = draw(st.sampled_from(["var1", "vara", "vars", "varm"]))
    api = draw(st.sampled_from(["put", "put", "put", "get"]))
    reqs = []
    for r in range(k):
        if r == 0:
            s, c, sd = draw(G.box(lens, allow_zero=False, stride=form in ("vars", "varm")))
        else:
            s = [draw(st.integers(-1, L + 1)) for L in lens]
            c = [draw(st.integers(-1, L + 1)) for L in lens]
            sd = [draw(st.sampled_from([1, 1, 1, 2, 0, -1, L + 1])) for L in lens]
        rq = {"start": list(s)}
        if form != "var1":
            rq["count"] = list(c)
        if form in ("vars", "varm"):
            rq["stride"] = list(sd)
        reqs.append(rq)
    return {"kind": "peer", "fmt": draw(st.sampled_from([1, 2, 5])), "k": k, "lens": lens, "form": form, "api": api,
            "strict": draw(st.sampled_from([0, 1])), "safe": 0, "reqs": reqs}


def _peer_elems(lens, form, rq):
    """index tuples (C order) addressed by an accepted request"""
    nd = len(lens)
    start = rq["start"]
    count = rq.get("count") if form != "var1" else [1] * nd
    stride = rq.get("stride") if form in ("vars", "varm") else None
    return M.box_indices(start, count, stride)


def peer_build(case):
    k, lens, form, api = case["k"], case["lens"], case["form"], case["api"]
    s = Script(k=k)
    s.op("env", **{"e__PNETCDF_RELAX_COORD_BOUND": hx("0" if case["strict"] else "1"), "e__PNETCDF_SAFE_MODE": hx("0")})
    s.op("create", step=True, f="f0", path=hx("t.nc"), mode=FMT_MODE[case["fmt"]])
    s.op("def_dim", step=True, f="f0", name=hx("e"), len=3)
    for i, L in enumerate(lens):
        s.op("def_dim", step=True, f="f0", name=hx("x%d" % i), len=L)
    s.op("def_var", step=True, f="f0", name=hx("fa"), xt=M.NC_BYTE, dims=[0], ndims=1)
    s.op("def_var", step=True, f="f0", name=hx("t"), xt=M.NC_INT, dims=list(range(1, len(lens) + 1)), ndims=len(lens))
    s.op("def_var", step=True, f="f0", name=hx("fb"), xt=M.NC_SHORT, dims=[0], ndims=1)
    s.op("enddef", step=True, f="f0")
    n = int(np.prod(lens))
    # pattern A everywhere (rank 0 writes, the others take part with zero-length requests)
    for v, cnt, mt, raw in ((0, [3], "schar", b"\x41" * 3), (1, list(lens), "int", np.full(n, 0x41414141, dtype=np.int32).tobytes()), (2, [3], "short", b"\x42" * 6)):
        sn = s.same_n()
        for r in range(k):
            b = "b%d" % (10 * v + r + 1)
            s.op("buf", ranks=[r], b=b, size=max(1, len(raw)), hex=raw)
            s.op("data", ranks=[r], sn=sn, step=True, api="put", form="vara", coll=1, mt=mt, f="f0", v=v, buf=b,
                 start=[0] * len(cnt), count=cnt if r == 0 else [0] * len(cnt))
    s.op("fence", step=True, f="f0")
    s.op("snapshot", path=hx("t.nc"), to="pre")
    sn = s.same_n()
    for r in range(k):
        rq = case["reqs"][r]
        b = "b%d" % (50 + r)
        raw = np.full(n + 8, 0x10101010 * (r + 2) // 1 & 0x7fffffff, dtype=np.int32).tobytes()
        s.op("buf", ranks=[r], b=b, size=len(raw), hex=raw)
        kw = {"start": rq["start"]}
        if form != "var1":
            kw["count"] = rq["count"]
        if form in ("vars", "varm"):
            kw["stride"] = rq["stride"]
        if form == "varm":
            kw["imap"] = M.canonical_imap([max(c, 1) for c in rq["count"]])
        s.op("data", ranks=[r], sn=sn, step=True, api=api, form=form, coll=1, mt="int", f="f0", v=1, buf=b, rb=0, **kw)
    s.op("fence", step=True, f="f0")
    s.op("snapshot", path=hx("t.nc"), to="post")
    s.op("close", step=True, f="f0")
    return s, sn


def peer_run_case(ctx, case):
    k, lens, form, api = case["k"], case["lens"], case["form"], case["api"]
    s, sn = peer_build(case)
    pool = ctx.pool("asan", nprocs=4)
    res, d = pool.run(s, keepdir=True)
    probs = []
    try:
        pre = open(os.path.join(d, "pre"), "rb").read()
        post = open(os.path.join(d, "post"), "rb").read()
    finally:
        shutil.rmtree(d, ignore_errors=True)
    may_change = set()
    must_hold = {}
    f = cdfspec.decode(pre)
    tv = f.vars[1]
    st_ = [int(np.prod(lens[i + 1:])) for i in range(len(lens))]
    rejected_some = False
    for r in range(k):
        rq = case["reqs"][r]
        v = AC.check_box(list(lens), False, api == "get", bool(case["strict"]), form, rq["start"], rq.get("count"), rq.get("stride"), case["fmt"])
        rc = res.rc(sn, r)
        ctx.stats["peer_pred_rc_" + "|".join(str(c) for c in sorted(v.allowed, reverse=True))] += 1
        if rc not in v.allowed:
            probs.append(_peerprob(case, "rc", "rank %d of a collective %s_%s_all on %d ranks: request %s returned %s, allowed %s (%s)" % (
                r, api, form, k, rq, rc, sorted(v.allowed), v.why), r))
        if v.rejected:
            rejected_some = True
        if api == "put" and not v.rejected and rc == 0 and v.nelems > 0:
            val = 0x10101010 * (r + 2) & 0x7fffffff
            for ix in _peer_elems(lens, form, rq).tolist():
                off = tv.begin + 4 * sum(a * b for a, b in zip(ix, st_))
                for j in range(4):
                    may_change.add(off + j)
                must_hold.setdefault(off, set()).add(val)
    if len(pre) != len(post):
        probs.append(_peerprob(case, "size", "the file size changed from %d to %d" % (len(pre), len(post)), -1))
    else:
        a, b = np.frombuffer(pre, dtype=np.uint8), np.frombuffer(post, dtype=np.uint8)
        diff = np.nonzero(a != b)[0].tolist()
        bad = [o for o in diff if o not in may_change]
        if bad:
            probs.append(_peerprob(case, "spill", "collective %s_%s_all on %d ranks (requests %s): %d bytes outside the elements of the accepted requests changed, first at offset %d (variable t spans %d..%d)" % (
                api, form, k, case["reqs"], len(bad), bad[0], tv.begin, tv.begin + 4 * int(np.prod(lens)) - 1), -1))
        for off, vals in must_hold.items():
            got = int.from_bytes(post[off:off + 4], "big")
            if got not in vals:
                probs.append(_peerprob(case, "lost", "element at offset %d of an accepted request holds %#x, expected one of %s" % (off, got, [hex(x) for x in sorted(vals)]), -1))
                break
    ctx.stats["peer_cases"] += 1
    ctx.stats["peer_%s_%s" % (api, form)] += 1
    ctx.stats["peer_k%d" % k] += 1
    if rejected_some:
        ctx.stats["peer_with_rejected_rank"] += 1
        ctx.nontrivial(runner.case_hash(case))
    return probs


def _peerprob(case, kind, msg, rank):
    return {"kind": "peer_" + kind, "msg": msg, "sig": {"kind": "peer_" + kind, "api": case["api"], "form": case["form"]}}


def run_case(ctx, case):
    if case.get("kind") == "peer":
        return peer_run_case(ctx, case)
    stats = collections.Counter()
    base, reqs = case_requests(case, stats)
    label = "rand" if case.get("kind") == "rand" else "enum"
    gs = 1 if (label == "rand" or case.get("only") is not None) else GROUP
    probs, nt = run_requests(ctx, base, reqs, stats, gs)
    for r in reqs:
        stats["api_%s_%s" % (r["api"], r["form"])] += 1
    stats["%s_batches_done" % label] += 1
    stats["%s_fmt%d" % (label, base["fmt"])] += 1
    stats["%s_%s" % (label, "strict" if base["strict"] else "relaxed")] += 1
    stats["%s_%s_%dd" % (label, "record" if base["rec"] else "fixed", len(base["lens"]))] += 1
    stats["%s_%s" % (label, "collective" if base["coll"] else "independent")] += 1
    stats["%s_%s" % (label, "default_hints" if base.get("ds", 1) else "romio_ds_write_disable")] += 1
    if label == "rand":
        stats["rand_requests"] += len(reqs)
        for r in reqs:
            fx = r.get("flex")
            if fx and fx.get("bt") is not None:
                stats["rand_derived_buftype"] += 1
            if r.get("imap") is not None:
                stats["rand_imap"] += 1
        nt = nt or any(r.get("flex") and r["flex"].get("bt") is not None for r in reqs)
    else:
        ctx.evaluations += len(reqs)
    for k in [k for k in stats if isinstance(k, frozenset)]:
        stats["pred_rc_" + "|".join(str(c) for c in sorted(k, reverse=True))] += stats.pop(k)
    ctx.stats.update(stats)
    if nt:
        ctx.nontrivial(runner.case_hash(case))
    if len(ctx.samples) < 2:
        ctx.sample({"case": {k: v for k, v in case.items() if k != "reqs"}, "script_head": build(base, reqs[:3]).s.lines[:30]}, limit=2)
    return probs


def case_script(case):
    if case.get("kind") == "peer":
        return peer_build(case)[0].text("<dir>")[0]
    base, reqs = case_requests(case)
    return build(base, reqs).s.text("<dir>")[0]


def _indices(case):
    if case.get("kind") == "rand":
        ids = list(range(len(case["reqs"])))
        return ids if case.get("only") is None else [i for i in ids if i in set(case["only"])]
    return [ti for ti, _ in enum_requests(case)]


def reduce_case(ctx, case, probs, budget=60):
    """shrink a failing batch to (ideally) the single failing tuple: first try every reported tuple alone, then
    remove chunks of the preceding tuples (ddmin) for failures that depend on earlier requests or crash the pool"""
    run = runner.guarded(run_case)

    def fails(c):
        p = [x for x in run(ctx, c) if not ctx.known.match(x)]
        return p
    cand = []
    for p in probs:
        for t in (p.get("group") or [p.get("tuple")]):
            if t is not None and t not in cand:
                cand.append(t)
    for t in cand[:2 * GROUP + 4]:
        c2 = dict(case, only=[t])
        c2.pop("part", None)
        budget -= 1
        p2 = fails(c2)
        if p2:
            return c2, p2
    ids = _indices(case)
    if cand:
        ids = [i for i in ids if i <= max(cand[:GROUP])]
    best, bestp = dict(case, only=ids), probs
    best.pop("part", None)
    chunk = max(1, len(ids) // 2)
    while chunk >= 1 and budget > 0 and len(ids) > 1:
        i = 0
        progressed = False
        while i < len(ids) and budget > 0:
            trial = ids[:i] + ids[i + chunk:]
            if not trial:
                i += chunk
                continue
            c2 = dict(best, only=trial)
            budget -= 1
            p2 = fails(c2)
            if p2:
                ids, best, bestp = trial, c2, p2
                progressed = True
            else:
                i += chunk
        if chunk == 1 and not progressed:
            break
        chunk = chunk // 2 if chunk > 1 else (1 if progressed else 0)
    return best, bestp


def campaign(ctx):
    cases = enumerate_cases(ctx.tier)
    run = runner.guarded(run_case)
    nfail = 0
    for i, case in enumerate(cases):
        if i % ctx.nworkers != ctx.widx:
            continue
        try:
            probs = run(ctx, case)
        except HarnessTrouble as e:
            ctx.notes.append("harness trouble in batch %d %s: %s" % (i, {k: v for k, v in case.items() if k != "reqs"}, e))
            ctx.stats["harness_exceptions"] += 1
            continue
        real = []
        for p in probs:
            if ctx.known.match(p):
                ctx.excluded_known += 1
            else:
                real.append(p)
        if real:
            small, sp = reduce_case(ctx, case, real)
            ctx.failures.append({"case": small, "problems": sp, "label": "enum"})
            nfail += 1
            if nfail >= 2:
                ctx.notes.append("worker %d stopped the enumeration after %d failing batches" % (ctx.widx, nfail))
                ctx.stats["enum_aborted"] += 1
                break
    n = {"quick": 250, "thorough": 6500}[ctx.tier]

    runner.run_hypothesis(ctx, rand_case(ctx.tier), run, n, label="rand")
    runner.run_hypothesis(ctx, peer_case(ctx.tier), run, {"quick": 400, "thorough": 5000}[ctx.tier], label="peer")


def coverage_extra(stats, tier):
    total = len(enumerate_cases(tier))
    done = stats.get("enum_batches_done", 0)
    return {"exhaustive": bool(done >= total and not stats.get("enum_aborted") and not stats.get("harness_exceptions")),
            "enumerated_batches": {"expected": total, "completed": done},
            "enumerated_tuples": stats.get("tuples", 0) - stats.get("rand_requests", 0),
            "random_cases": stats.get("rand_batches_done", 0),
            "random_requests": stats.get("rand_requests", 0),
            "boundary_tuples": {k: v for k, v in stats.items() if k.startswith("b_")},
            "accepted_writes_adjacent_to_other_variable": stats.get("accepted_write_adjacent_to_other_variable", 0),
            "enumerated_domain": {"plan (ndims, domain, forms, every k-th (shape,api,format,mode) combination)": enum_plan(tier),
                                  "domains": "full = full cross product of the per-dimension tuples (start,count in [-1,len+1], stride in {-1,0,1,2,len+1} "
                                             "or absent) plus NULL start/count; cross = every dimension in turn takes all its tuples while the "
                                             "others take the 6 context tuples (full, zero count at boundary, start beyond, edge, negative "
                                             "count, zero stride); cross3 = same with 3 context tuples",
                                  "round_robin": "data mode (collective/independent; both for 1-D), external type, typed vs flexible(NC_COUNT_IGNORE), "
                                                 "romio_ds_write hint over the batches; imap variant and varn position over the tuples"}}


if __name__ == "__main__":
    runner.main("checks.c15", PROP, default_workers=8, nt_floor=50)
