#!/usr/bin/env python3-vt
"""C01 - blocking put/get round-trip fidelity for every access pattern."""
import os, sys
sys.path.insert(0, os.path.dirname(os.path.dirname(os.path.abspath(__file__))))
import numpy as np
from hypothesis import strategies as st
from pv import model as M, gen as G
from pv.prog import Prog, define_schema, req_geometry
from pv.pool import hx
from pv import runner
from pv.common import compare_dump, decode_compare

PROP = "C01"
RULE = ("Hypothesis-generated programs: random schema (CDF-1/2/5, 0-4 dims, fixed+record vars, all external types), "
        "3-14 steps of collective/independent blocking writes and reads through var/var1/vara/vars/varm/varn/vard, typed and "
        "flexible (derived MPI buffer datatypes), decomposed over k=1..4 ranks, with close/reopen; oracle = numpy reference model "
        "+ independent CDF decoder on the closed file. Non-trivial = k>=2 with a split write, or a derived buftype/imap, or an "
        "element read through a different API form than it was written with; distinct = distinct case hash.")
ASSUMPTIONS = ["single node, local POSIX file system, OpenMPI 4.1.4/ompio as MPI-IO layer",
               "values are drawn inside the common range of memory and external type (range errors belong to C09)",
               "reads of another rank's writes happen after ncmpi_sync/barrier/ncmpi_sync (doc/README.consistency.md)"]


@st.composite
def case_strategy(draw, tier="quick"):
    big = tier == "thorough"
    sch = draw(G.schema(max_dims=4 if not big else 5, max_len=5 if not big else 6, max_vars=4, max_ndims=4 if not big else 5))
    for v in sch["vars"]:
        xt = v["xt"]
        signed = xt in (M.NC_BYTE, M.NC_SHORT, M.NC_INT, M.NC_FLOAT, M.NC_DOUBLE, M.NC_INT64)
        v["vclass"] = draw(st.sampled_from(["wild", "pos", "neg"] if signed else ["wild", "pos"])) if xt != M.NC_CHAR else "wild"
    k = draw(st.sampled_from([1, 2, 2, 3, 4] if not big else [1, 2, 3, 4, 5, 8]))
    dims = sch["dims"]
    numrecs = 0
    steps = []
    writable = True
    indep = False
    nsteps = draw(st.integers(3, 14 if not big else 24))
    for _ in range(nsteps):
        kind = draw(st.sampled_from(["write", "write", "write", "read", "read", "reopen", "mode"]))
        if kind == "mode":
            indep = not indep
            steps.append({"op": "indep" if indep else "coll"})
            continue
        if kind == "reopen":
            if not G.chance(draw, 40):
                continue
            writable = G.chance(draw, 75)
            indep = False
            steps.append({"op": "reopen", "rw": writable, "k": draw(st.sampled_from([1, k]))})
            continue
        if kind == "write" and not writable:
            kind = "read"
        vi = draw(st.integers(0, len(sch["vars"]) - 1))
        v = sch["vars"][vi]
        is_rec = bool(v["dims"]) and dims[v["dims"][0]] == 0
        kk = steps_k(steps, k)
        if kind == "write":
            shape = [dims[d] for d in v["dims"]]
            if is_rec:
                shape[0] = max(1, numrecs + draw(st.integers(0, 2)))
            start, count, stride = draw(G.box(shape))
            reqs = {}
            if not indep:
                parts = G.split_box(draw, start, count, stride, kk)
                if any(pt is None for pt in parts):
                    # scalar variable written collectively by k>1 ranks: peers need a zero-length varn request; on this tree
                    # that combination is the C08 finding "varn_all on a scalar variable with num=0 on a peer" - excluded
                    # here by construction, probed by C08
                    continue
                if False:
                    # scalar variable and k>1: the other ranks would need a zero-length request of the same API,
                    # which only the varn form can express
                    forms = ["varn"]
                else:
                    forms = None
                    for (s, c, sd) in parts:
                        fs = set(G.forms_for(shape, s, c, sd, is_rec, numrecs, len(c)))
                        forms = fs if forms is None else (forms & fs)
                    forms = sorted(forms)
                form = draw(st.sampled_from(forms))
                mtsel = draw(mtsel_for(v))
                for r in range(kk):
                    if parts[r] is None:
                        reqs[str(r)] = {"var": vi, "form": "varn", "starts": [], "counts": [], "seed": 0, "zero": True,
                                        **({"mt": mtsel} if mtsel != "flex" else {"mt": "flex", "prim": M.MT_PRIM[M.XT_NATIVE_MT[v["xt"]]], "bt": None, "bufcount": 0})}
                        continue
                    s, c, sd = parts[r]
                    reqs[str(r)] = draw(req_for(v, vi, shape, s, c, sd, is_rec, numrecs, form=form, mtsel=mtsel))
            else:
                writers = draw(st.lists(st.integers(0, kk - 1), min_size=1, max_size=kk, unique=True))
                parts = G.split_box(draw, start, count, stride, len(writers))
                for r, part in zip(writers, parts):
                    if part is None:
                        continue
                    s, c, sd = part
                    reqs[str(r)] = draw(req_for(v, vi, shape, s, c, sd, is_rec, numrecs))
            top = 0
            for rq in reqs.values():
                if rq is None:
                    continue
                top = max(top, req_top_record(rq, is_rec, numrecs))
            steps.append({"op": "write", "indep": indep, "reqs": reqs})
            numrecs = max(numrecs, top)
        else:
            shape = [dims[d] for d in v["dims"]]
            if is_rec:
                shape[0] = numrecs
            if any(s == 0 for s in shape):
                continue
            reqs = {}
            readers = list(range(kk)) if not indep else draw(st.lists(st.integers(0, kk - 1), min_size=1, max_size=kk, unique=True))
            form = mtsel = None
            if not indep:
                # one API function per collective call: same form and same typed/flexible kind on every rank
                form = draw(st.sampled_from(["var", "var1", "vara", "vars", "varm", "varn", "vard"]))
                if len(shape) == 0 and form == "vard":
                    form = "vara"
                mtsel = draw(mtsel_for(v)) if form != "vard" else "flex"
            for r in readers:
                if form == "var":
                    start, count, stride = [0] * len(shape), list(shape), [1] * len(shape)
                elif form == "var1":
                    start, count, stride = draw(G.box(shape, allow_zero=False))
                    count = [1] * len(shape)
                else:
                    start, count, stride = draw(G.box(shape, stride=form not in ("vara", "varn")))
                reqs[str(r)] = draw(req_for(v, vi, shape, start, count, stride, is_rec, numrecs, form=form, mtsel=mtsel))
            steps.append({"op": "read", "indep": indep, "reqs": reqs})
    # intra-node write aggregation for collective writes (hint nc_num_aggrs_per_node): 0 = off
    return {"schema": sch, "k": k, "steps": steps, "aggr": min(k, draw(st.sampled_from([0, 0, 0, 0, 1, 2])))}


def steps_k(steps, k):
    for s in reversed(steps):
        if s["op"] == "reopen":
            return s["k"]
    return k


def req_top_record(rq, is_rec, numrecs):
    if not is_rec:
        return 0
    f = rq["form"]
    if f == "var":
        return numrecs
    if f == "varn":
        top = 0
        for i, s in enumerate(rq["starts"]):
            c = rq["counts"][i] if rq["counts"] is not None else [1] * len(s)
            if all(x > 0 for x in c):
                top = max(top, s[0] + c[0])
        return top
    if f == "var1":
        return rq["start"][0] + 1
    c = rq["count"]
    if any(x == 0 for x in c):
        return 0
    sd = rq.get("stride") or [1] * len(c)
    return rq["start"][0] + (c[0] - 1) * sd[0] + 1


@st.composite
def mtsel_for(draw, v):
    """typed API name or 'flex', respecting the variable's value class"""
    if G.chance(draw, 35):
        return "flex"
    native = M.XT_NATIVE_MT[v["xt"]]
    cls = v.get("vclass", "pos")
    if v["xt"] == M.NC_CHAR or cls == "wild":
        return native
    mts = [m for m in M.MT_NUMERIC if cls == "pos" or np.dtype(M.MT_DTYPE[m]).kind != "u"]
    return draw(st.sampled_from(mts))


@st.composite
def req_for(draw, v, vi, shape, s, c, sd, is_rec, numrecs, form=None, mtsel=None):
    rq = draw(G.request(v, shape, s, c, sd, is_rec, numrecs, vi, forms=[form] if form else None, mtsel=mtsel))
    cls = v.get("vclass", "pos")
    native = M.XT_NATIVE_MT[v["xt"]]
    if cls == "wild":
        fix_mt(rq, native)
    elif cls == "neg":
        cur = M.mt_key(rq)
        if np.dtype(M.MT_DTYPE[cur]).kind == "u":
            fix_mt(rq, native)
    rq["vclass"] = cls
    return rq


def fix_mt(rq, mt):
    if rq["mt"] == "flex":
        rq["prim"] = M.MT_PRIM[mt]
        if rq.get("bt") is not None:
            rq["bt"] = retarget(rq["bt"], M.MT_PRIM[mt])
    else:
        rq["mt"] = mt


def retarget(bt, prim):
    """replace the primitive of a datatype description; byte displacements are rescaled"""
    old = M.t_prim(_t(bt))
    ro, rn = M.PRIM_SIZE[old], M.PRIM_SIZE[prim]

    def rec(t):
        k = t[0]
        if k == "prim":
            return ("prim", prim)
        if k in ("hidx", "struct"):
            return (k, [(b, d // ro * rn) for b, d in t[1]], rec(t[2]))
        if k == "hvec":
            return (k, t[1], t[2], t[3] // ro * rn, rec(t[4]))
        if k == "rsz":
            return (k, t[1] // ro * rn, t[2] // ro * rn, rec(t[3]))
        return tuple(list(t[:-1]) + [rec(t[-1])])
    return rec(_t(bt))


def _t(bt):
    from pv.prog import _tup
    return _tup(bt)


def build(case):
    """case -> (Prog, info)"""
    sch, k = case["schema"], case["k"]
    p = Prog(k=k)
    ikw = {}
    if case.get("aggr"):
        p.s.op("info", i="i1", **{"h__nc_num_aggrs_per_node": hx(str(case["aggr"]))})
        ikw = {"info": "i1"}
    fm = define_schema(p, sch, info=ikw.get("info"))
    labels = set(["aggregators_per_node_%d" % case.get("aggr", 0)])
    written_form = {}     # (var) -> set of forms used to write
    nontrivial = False
    curk = k
    indep = False
    writable = True
    path = "t.nc"
    for stp in case["steps"]:
        op = stp["op"]
        if op == "indep":
            p.op("begin_indep", ranks=range(curk), step=(curk == p.k), f="f0")
            indep = True
            continue
        if op == "coll":
            p.op("end_indep", ranks=range(curk), step=(curk == p.k), f="f0")
            indep = False
            continue
        if op == "reopen":
            p.op("close", ranks=range(curk), step=(curk == p.k), f="f0")
            # reopen on the first k' ranks: pncx runs a script on a fixed communicator, so a smaller
            # rank set is modelled by opening with comm=self on rank 0 only when k'==1, else all ranks
            curk = p.k if stp["k"] > 1 else 1
            kw = {"comm": "self"} if curk == 1 and p.k > 1 else {}
            kw.update(ikw)
            p.op("open", ranks=range(curk), step=(curk == p.k), f="f0", path=hx(path), mode=1 if stp["rw"] else 0, **kw)
            writable = stp["rw"]
            indep = False
            labels.add("reopen")
            continue
        reqs = stp["reqs"]
        if op == "write":
            sn = p.s.same_n() if not stp["indep"] else None
            nview = fm.numrecs
            applied = []
            for r in range(curk):
                rq = reqs.get(str(r))
                if rq is None:
                    continue
                rq = dict(rq)
                if stp["indep"]:
                    p.put(fm, r, rq, nview, coll=False, apply=False)
                    if curk > 1:
                        p.op("barrier", ranks=range(curk), expect=None)
                else:
                    p.put(fm, r, rq, nview, coll=True, sn=sn, step=(curk == p.k), apply=False)
                applied.append((r, rq))
                labels.add("w_" + rq["form"])
                labels.add("mt_flex" if rq["mt"] == "flex" else "mt_typed")
                if rq.get("bt") is not None:
                    labels.add("derived_buftype")
                    nontrivial = True
                if rq.get("imap"):
                    labels.add("imap")
                    nontrivial = True
                written_form.setdefault(rq["var"], set()).add(rq["form"])
            # apply to the model after all ranks' requests were generated against the same view
            for r, rq in applied:
                apply_write(fm, rq, nview, sch)
            nw = sum(1 for r, rq in applied if len(req_geometry_safe(fm, rq, nview)))
            if nw >= 2:
                nontrivial = True
                labels.add("split_write")
            p.op("fence" if curk == p.k else "sync", ranks=range(curk), step=(curk == p.k), f="f0")
        else:
            sn = p.s.same_n() if not stp["indep"] else None
            for r in range(curk):
                rq = reqs.get(str(r))
                if rq is None:
                    continue
                gi = req_geometry_safe(fm, rq, fm.numrecs)
                unknown = len(gi) > 0 and bool((fm.read(rq["var"], gi)[1] == 0).any())
                # never-written elements hold arbitrary bytes: a converting read may legitimately report NC_ERANGE
                p.get(fm, r, rq, fm.numrecs, coll=not stp["indep"], sn=sn, step=(not stp["indep"] and curk == p.k),
                      expect=[0, M.E["ERANGE"]] if unknown else 0)
                labels.add("r_" + rq["form"])
                wf = written_form.get(rq["var"], set())
                if wf and (wf - {rq["form"]}):
                    nontrivial = True
                    labels.add("cross_form_read")
            if curk > 1 and curk == p.k:
                # reads of this step must be complete on every rank before a later step may write
                p.op("barrier", ranks=range(curk), expect=None)
    if indep:
        p.op("end_indep", ranks=range(curk), step=(curk == p.k), f="f0")
    nd = p.op("dumpall", ranks=range(curk), step=(curk == p.k), f="f0", data=1, coll=1)
    p.check(lambda res: sum([compare_dump(res.get(nd, r), fm, "dumpall before close rank %d" % r) for r in range(curk)], []))
    p.op("close", ranks=range(curk), step=(curk == p.k), f="f0")
    # reopen read-only on all ranks and dump again
    p.op("open", step=True, f="f0", path=hx(path), mode=0)
    nd2 = p.op("dumpall", step=True, f="f0", data=1, coll=1)
    p.check(lambda res: sum([compare_dump(res.get(nd2, r), fm, "dumpall after reopen rank %d" % r) for r in range(p.k)], []))
    p.op("close", step=True, f="f0")
    p.op("snapshot", path=hx(path), to="final", expect=None)
    labels.add("k%d" % k)
    labels.add("fmt%d" % sch["fmt"])
    if any(fm.is_rec(v) for v in fm.vars):
        labels.add("has_record_var")
    return p, fm, labels, nontrivial


def req_geometry_safe(fm, rq, nview):
    try:
        return req_geometry(fm, rq, nview)[0]
    except Exception:
        return []


def apply_write(fm, rq, nview, sch):
    v = fm.vars[rq["var"]]
    idx, mempos, nlog = req_geometry(fm, rq, nview)
    vals = M.value_pattern(rq["seed"], len(idx), v.xt, M.mt_key(rq), rq.get("vclass", "pos"))
    fm.write(rq["var"], idx, vals)


def run_case(ctx, case):
    p, fm, labels, nontrivial = build(case)
    pool = ctx.pool("asan", nprocs=4 if case["k"] <= 4 else 8)
    res, d = pool.run(p.s, keepdir=True)
    try:
        probs = p.evaluate(res)
        if not probs:
            probs += decode_compare(os.path.join(d, "final"), fm, "independent decode of closed file")
    finally:
        import shutil
        shutil.rmtree(d, ignore_errors=True)
    ctx.count(*labels)
    if nontrivial:
        ctx.nontrivial(runner.case_hash(case))
    ctx.sample({"k": case["k"], "schema": case["schema"], "script_head": p.s.lines[:40]})
    return probs


def case_script(case):
    return build(case)[0].s.text("<dir>")[0]


def campaign(ctx):
    n = {"quick": 700, "thorough": 6000}[ctx.tier]
    runner.run_hypothesis(ctx, case_strategy(ctx.tier), runner.guarded(run_case), n)


if __name__ == "__main__":
    runner.main("checks.c01", PROP, default_workers=6, nt_floor=20)
