#!/usr/bin/env python3-vt
"""C04 - any specification-valid classic file (CDF-1/2/5) is read back exactly.

The file is produced by the independent codec pv/cdfspec.py from a random logical content and a random
LEGAL layout, then opened by the library under two drawn configurations; the complete inquiry dump of every
rank must equal the encoded content."""
import os, sys, hashlib, shutil, tempfile, unicodedata
sys.path.insert(0, os.path.dirname(os.path.dirname(os.path.abspath(__file__))))
import numpy as np
from hypothesis import strategies as st
from pv import cdfspec as C
from pv.pool import Script, hx
from pv import runner

PROP = "C04"
CHUNK = 262144          # PNC_DEFAULT_CHUNKSIZE (src/drivers/ncmpio/ncmpio_NC.h): default header read chunk
BIG_FILE = 200 * 1024   # larger files are written from Python, smaller ones with the `writefile` statement
RULE = ("Hypothesis-generated files encoded with the independent codec cdfspec (CDF-1/2/5): 0-5 dimensions (optional record "
        "dimension), global/variable attributes of every legal type incl. zero length, scalar/fixed/record variables in any "
        "definition order, data = arbitrary bit patterns (finite floats), numrecs 0..5; layout features a netCDF writer may "
        "legally produce but PnetCDF does not: arbitrary gaps between header and data, between fixed variables and before the "
        "record section filled with random bytes, stale/zero/saturated vsize fields, empty lists as (tag,0) instead of ABSENT, "
        "file truncated inside the data area, the 32/48-byte minimal header; 5% of the files have headers of 0.25-1.3 MiB (bulk "
        "dimensions / attributes / variables with long names and values; each a pure function of one drawn integer) in which a "
        "chosen field kind (list tag/nelems, name length/bytes/padding, dim length, attribute type/nelems/values/padding, ndims, "
        "dimid, type, vsize, begin) is placed so that it ends at / is cut by / starts at the simulated end of the 1st-3rd 256 KiB "
        "read window (+-1 word), a third of them with an 8-byte CDF-5 field cut by the window end and more than one further "
        "window behind it. Each file is opened "
        "under 2 drawn configurations (k=1..4 ranks, romio_no_indep_rw, nc_header_read_chunk_size default/64/1024/65536, hash "
        "size / in-place-swap hints, safe mode unset/0/1, read-only/read-write, collective/independent reads); oracle: open "
        "== NC_NOERR and the dumpall record of every rank equals the encoded content (counts, ids, names, types, lengths, "
        "attribute bytes, dim lengths, numrecs, unlimited dim, header size, record size, begin offsets, every data element that "
        "lies inside the file), all dumps identical, read-only leaves the file bytes untouched, read-write + close leaves the "
        "cdfspec-decoded content and data untouched. Non-trivial = header longer than one read chunk, or a gap, or a non-"
        "computed vsize, or a fixed variable defined after a record variable, or a (tag,0) empty list; distinct = case hash.")
ASSUMPTIONS = ["variable begins increase in definition order within the fixed and within the record section, are multiples of 4, and "
               "record variables are contiguous (a gap between record variables would make records overlap)",
               "STREAMING numrecs (all ones) is outside the domain (PnetCDF documents no support)",
               "names are unique per name space, valid UTF-8 in NFC (code points assigned before Unicode 5.0), <= 256 bytes, no "
               "trailing blank, no '/', not _FillValue; header padding bytes are zero",
               "elements beyond the end of a truncated file are unconstrained (only compared for 'read succeeds')",
               "the hint nc_header_read_chunk_size is parsed but never stored on this tree: chunk boundary coverage comes from "
               "headers > 256 KiB; the chunk-end simulation used for placement and labels assumes the default chunk",
               "single node, local POSIX file system, OpenMPI 4.1.4 + ROMIO"]

# ------------------------------------------------------------------------------------------------ deterministic bytes


def rbytes(seed, tag, n):
    """n bytes, a pure function of (seed, tag)"""
    if n <= 0:
        return b""
    return hashlib.shake_256(repr((seed, tag)).encode()).digest(n)


def rint(seed, *tag):
    return int.from_bytes(hashlib.blake2b(repr((seed,) + tag).encode(), digest_size=8).digest(), "big")


def values(xt, n, seed, tag):
    """external (big-endian) bytes of n values of type xt: arbitrary bit patterns, floats forced finite"""
    raw = rbytes(seed, tag, n * C.TYPE_SIZE[xt])
    if xt == C.NC_FLOAT and n:
        a = np.frombuffer(raw, ">u4").copy()
        a[((a >> 23) & 0xFF) == 0xFF] ^= np.uint32(1 << 23)
        raw = a.tobytes()
    elif xt == C.NC_DOUBLE and n:
        a = np.frombuffer(raw, ">u8").copy()
        a[((a >> np.uint64(52)) & np.uint64(0x7FF)) == np.uint64(0x7FF)] ^= np.uint64(1 << 52)
        raw = a.tobytes()
    return raw


def att_from(name, xt, n, seed, tag):
    raw = values(xt, n, seed, tag)
    return C.Att(name, xt, raw if xt == C.NC_CHAR else np.frombuffer(raw, dtype=C.NP_DTYPE[xt]))


# ------------------------------------------------------------------------------------------------ names
FIRST = list("abcxyzABCXYZ_0159") + ["é", "Ω", "я", "水", "한"]
REST = FIRST + list("_.@+-") + list(" !#$%&()*,:;<=>?[]^{|}~")
BULK_ALPHA = b"abcdefghijklmnopqrstuvwxyz0123456789_.+-@"
BULK_TABLE = bytes(BULK_ALPHA[c % len(BULK_ALPHA)] for c in range(256))


class HypDraw:
    """choices come from Hypothesis (small cases: shrinkable)"""

    def __init__(self, draw):
        self.draw = draw

    def int(self, lo, hi):
        return self.draw(st.integers(lo, hi))

    def pick(self, seq):
        return self.draw(st.sampled_from(list(seq)))

    def bool(self):
        return self.draw(st.booleans())


class PureDraw:
    """choices are a pure function of one drawn integer (large-header cases: Hypothesis' example mutation would otherwise spend
    the expensive cases on near-duplicates of one header)"""

    def __init__(self, x):
        self.x = x
        self.n = 0

    def int(self, lo, hi):
        self.n += 1
        return lo + rint(self.x, self.n) % (hi - lo + 1)

    def pick(self, seq):
        seq = list(seq)
        return seq[self.int(0, len(seq) - 1)]

    def bool(self):
        return self.int(0, 1) == 1


def gen_name(d, used):
    kind = d.int(0, 19)
    if kind == 0:
        n = d.int(200, 256)
    elif kind <= 2:
        n = d.int(9, 40)
    else:
        n = d.int(1, 8)
    s = d.pick(FIRST)
    for _ in range(d.int(0, min(n - 1, 12))):
        s += d.pick(REST)
    b = s.encode("utf-8")
    if len(b) < n and n > 8:
        b = b + (b"q" * (n - len(b)))
    b = b[:256].decode("utf-8", "ignore").rstrip(" ").encode("utf-8") or b"q"
    i = 0
    base = b
    while b in used or b == b"_FillValue":
        i += 1
        suf = b"_%d" % i
        b = base[:256 - len(suf)].decode("utf-8", "ignore").encode("utf-8") + suf
    used.add(b)
    return b.hex()


def bulk_name(letter, idx, lo, hi, seed):
    pre = b"%s%x_" % (letter, idx)
    h = rint(seed, "nl", letter, idx)
    n = max(len(pre) + 1, lo + h % (hi - lo + 1))
    body = rbytes(seed, ("nm", letter, idx), n - len(pre)).translate(BULK_TABLE)
    if (h >> 20) % 4 == 0 and len(body) >= 2:
        body = body[:-2] + "é".encode("utf-8")
    return pre + body


# ------------------------------------------------------------------------------------------------ generator
def gen_att(d, version, used):
    name = gen_name(d, used)
    xt = d.pick(C.legal_types(version))
    k = d.int(0, 19)
    n = 0 if k <= 2 else (d.int(13, 300) if k == 3 else d.int(1, 12))
    return [name, xt, n, d.int(0, 2 ** 32 - 1)]


def gen_config(d):
    cfg = {"k": d.pick([1, 1, 2, 3, 4]), "hcoll": d.bool(), "chunk": d.pick([None, 64, 1024, 65536]),
           "safe": d.pick([None, "0", "1"]), "rw": d.bool(), "indep": d.int(0, 3) == 0}
    hints = {}
    if d.int(0, 2) == 0:
        for key in ("nc_hash_size_dim", "nc_hash_size_var", "nc_hash_size_gattr", "nc_hash_size_vattr"):
            if d.bool():
                hints[key] = str(d.pick([1, 2, 7, 256, 4096]))
    if d.int(0, 3) == 0:
        hints["nc_in_place_swap"] = d.pick(["enable", "disable", "auto"])
    cfg["hints"] = hints
    return cfg


REGION_KINDS = {"dims": ["name_len", "name_bytes", "name_pad", "dim_len"],
                "gatts": ["name_len", "name_bytes", "name_pad", "att_type", "att_nelems", "att_values", "att_pad"],
                "vars": ["list_tag", "list_nelems", "name_len", "name_bytes", "name_pad", "att_type", "att_nelems", "att_values", "att_pad",
                         "var_ndims", "var_dimid", "var_type", "var_vsize", "var_begin"]}


WIDE_KINDS = ["list_nelems", "name_len", "dim_len", "att_nelems", "var_ndims", "var_dimid", "var_vsize", "var_begin"]   # 8 bytes in CDF-5


def gen_bulk(d, tier):
    region = d.pick(["dims", "gatts", "vars", "vars"])
    j = d.pick([1, 1, 1, 2, 3] if tier == "quick" else [1, 1, 2, 2, 3])
    lo = d.int(1, 120)
    long_tail = d.int(0, 2) == 0       # the header continues for more than one further read window behind the chosen window end
    b = {"region": region, "boundary": j, "bytes": j * CHUNK + d.int(2000, 60000) + (CHUNK if long_tail else 0),
         "lo": lo, "hi": d.int(lo, 200), "vlo": d.int(0, 40), "seed": d.int(0, 2 ** 32 - 1)}
    b["vhi"] = b["vlo"] + (d.pick([0, 30, 400, 3000]) if region != "dims" else 0)
    if region == "gatts" and d.int(0, 3) == 0:
        b["vhi"] = 150000       # a few huge attributes: values cross several chunk ends
    if d.int(0, 5) > 0:
        b["target"] = d.pick(REGION_KINDS[region])
        b["where"] = d.pick(["before", "ends", "ends", "inside", "inside", "inside", "starts", "starts", "after"])
        b["inside"] = d.int(0, 63)
    else:
        b["target"] = None
    if long_tail and d.int(0, 2) > 0:
        # an 8-byte field cut by the window end: its first half is carried over into the next window, and the file offset of
        # the window after that depends on it
        b["target"] = d.pick([k for k in REGION_KINDS[region] if k in WIDE_KINDS])
        b["where"] = "inside"
        b["inside"] = 0
        b["wide"] = True
    return b


def gen_case(d, tier, bulk=False):
    b = gen_bulk(d, tier) if bulk else None
    version = d.pick([1, 2, 5, 5] if bulk else [1, 2, 5])
    if b and b.get("wide"):
        version = 5
    minimal = not bulk and d.int(0, 39) == 0            # the 32-byte (48-byte for CDF-5) header
    # ---- dimensions
    used = set()
    dims = []
    ndims = 0 if minimal else d.int(0, 5)
    # now and then a file dominated by its dimension list: many dimensions with short names and little else
    manydims = not bulk and not minimal and d.int(0, 11) == 0
    if manydims:
        for i in range(d.int(13, 120)):
            nm = (d.pick("abcdexyz") + "%d" % i)[:4].encode()
            used.add(nm)
            dims.append([nm.hex(), d.int(1, 3) if i != 5 else 0])
        ndims = 0
    has_rec = any(dm[1] == 0 for dm in dims)
    for i in range(ndims):
        k = d.int(0, 11)
        if k <= 3 and not has_rec:
            ln, has_rec = 0, True
        elif k == 4:
            ln = d.pick([7, 17, 64, 300])
        else:
            ln = d.int(1, 4)
        dims.append([gen_name(d, used), ln])
    numrecs = d.int(0, 5) if has_rec else 0
    # ---- global attributes
    used = set()
    gatts = [gen_att(d, version, used) for _ in range(0 if minimal else (d.int(0, 1) if manydims else d.int(0, 3)))]
    # ---- variables
    used = set()
    vars_ = []
    fixed_dims = [i for i, dm in enumerate(dims) if dm[1] != 0]
    rec_dim = [i for i, dm in enumerate(dims) if dm[1] == 0]
    nvars = 0 if minimal else (d.int(0, 1) if manydims else d.int(0, 4))
    seen_rec = False
    for vi in range(nvars):
        nd = d.pick([0, 1, 1, 2, 2, 3, 5])
        dimids = []
        nel = 1
        for j in range(nd):
            if j == 0 and rec_dim and d.bool():
                dimids.append(rec_dim[0])
                continue
            pool = [x for x in fixed_dims if nel * dims[x][1] <= 1500]
            if not pool:
                break
            x = d.pick(pool)
            dimids.append(x)
            nel *= dims[x][1]
        xt = d.pick(C.legal_types(version))
        vused = set()
        atts = [gen_att(d, version, vused) for _ in range(d.pick([0, 0, 1, 2]))]
        vmode = d.pick(["ok", "ok", "ok", "zero", "sat", "stale"])
        if vmode == "sat" and version == 5:
            vmode = "stale"
        v = {"name": gen_name(d, used), "xt": xt, "dimids": dimids, "atts": atts, "vsize": vmode, "seed": d.int(0, 2 ** 32 - 1)}
        if vmode == "stale":
            # NON_NEG: below 2^31 (CDF-1/2) / 2^63 (CDF-5)
            v["stale"] = d.int(0, 2 ** 31 - 1) if version != 5 else (d.int(0, 2 ** 33) if d.bool() else d.int(0, 2 ** 63 - 1))
        is_rec = bool(dimids) and dimids[0] in rec_dim
        # a gap is legal before every fixed-size variable and before the FIRST record variable only
        if (not is_rec or not seen_rec) and d.int(0, 2) == 0:
            v["gap"] = 4 * d.pick([1, 2, 3, 16, 129, 1000])
        else:
            v["gap"] = 0
        seen_rec = seen_rec or is_rec
        vars_.append(v)
    return {"version": version, "numrecs": numrecs, "dims": dims, "gatts": gatts, "vars": vars_,
            "tag0": {"dims": d.bool(), "gatts": d.bool(), "vars": d.bool(), "vatts": d.bool()},
            "header_pad": d.pick([0, 0, 1, 3, 4, 37, 512, 5000]),
            "var_align": d.pick([4, 4, 8, 512, 4096]), "rec_align": d.pick([4, 4, 8, 512, 4096]),
            "gapseed": d.int(0, 2 ** 32 - 1), "gapfill": d.pick(["random", "random", "zero", "ff"]),
            "cut": d.pick([0, 0, 0, 1, 2, 3, 4, 5, 7, 8, 13, 50, 400, 10 ** 9]),
            "bulk": b, "configs": [gen_config(d), gen_config(d)]}


@st.composite
def small_strategy(draw, tier="quick"):
    return gen_case(HypDraw(draw), tier)


def bulk_strategy(tier="quick", salt=0):
    """0.25-1.3 MiB headers; every case is a pure function of (salt, one drawn small integer): a failing case costs the shrinker
    a dozen evaluations (seconds each) instead of hundreds"""
    return st.integers(0, 1023).map(lambda x: gen_case(PureDraw((salt, x)), tier, bulk=True))


def case_strategy(tier="quick"):
    """the mixture the campaign runs (campaign() runs the two parts separately to control the share of expensive cases)"""
    return st.one_of(small_strategy(tier), small_strategy(tier), small_strategy(tier), bulk_strategy(tier))


# ------------------------------------------------------------------------------------------------ case -> CDFFile
def field_map(f):
    """[(region, kind, start, length)] of every header field in file order, written from the grammar (cdfspec docstring);
    checked against len(header_bytes(f)) by the caller"""
    w, ow = f.nonneg_width, f.offset_width
    out = []
    pos = [0]

    def add(region, kind, n):
        if n:
            out.append((region, kind, pos[0], n))
            pos[0] += n

    def name(region, nm):
        add(region, "name_len", w)
        add(region, "name_bytes", len(nm))
        add(region, "name_pad", -len(nm) % 4)

    def attlist(region, atts):
        add(region, "list_tag", 4)
        add(region, "list_nelems", w)
        for a in atts:
            name(region, a.name)
            add(region, "att_type", 4)
            add(region, "att_nelems", w)
            nb = a.nelems * C.TYPE_SIZE[a.xtype]
            add(region, "att_values", nb)
            add(region, "att_pad", -nb % 4)

    add("hdr", "magic", 4)
    add("hdr", "numrecs", w)
    add("dims", "list_tag", 4)
    add("dims", "list_nelems", w)
    for d in f.dims:
        name("dims", d.name)
        add("dims", "dim_len", w)
    attlist("gatts", f.gatts)
    add("vars", "list_tag", 4)
    add("vars", "list_nelems", w)
    for v in f.vars:
        name("vars", v.name)
        add("vars", "var_ndims", w)
        for _ in v.dimids:
            add("vars", "var_dimid", w)
        attlist("vars", v.atts)
        add("vars", "var_type", 4)
        add("vars", "var_vsize", w)
        add("vars", "var_begin", ow)
    return out, pos[0]


def chunk_ends(fields, chunk=CHUNK):
    """file offsets at which the library's header window ends, simulating hdr_fetch as documented in its comments: fixed-size
    fields are refetched with the unread tail moved to the front, byte strings are consumed across windows"""
    ends = []
    end = chunk
    for (_, kind, start, n) in fields:
        if kind in ("name_bytes", "att_values"):
            while start + n > end:
                ends.append(end)
                end += chunk
        elif start + n > end:
            ends.append(end)
            end = start + chunk
    return ends


def boundary_labels(fields, ends):
    lab = set()
    for E in ends:
        for (_, kind, start, n) in fields:
            if start + n < E - 8:
                continue
            if start > E + 8:
                break
            if start < E < start + n:
                lab.add("straddle_" + kind)
            elif start == E:
                lab.add("starts_at_end_" + kind)
            elif start + n == E:
                lab.add("ends_at_end_" + kind)
    return lab


class File(C.CDFFile):
    """CDFFile whose header size is computed once after the content is final (it does not depend on vsize/begin values)"""
    _hs = None

    @property
    def header_size(self):
        return self._hs if self._hs is not None else len(C.header_bytes(self))


def _att(a, tag):
    return att_from(bytes.fromhex(a[0]), a[1], a[2], a[3], tag)


def expand_bulk(f, b):
    """append the bulk part (a pure function of the integers in b) to f"""
    seed, lo, hi = b["seed"], b["lo"], b["hi"]
    types = list(C.legal_types(f.version))
    w = f.nonneg_width
    f.gatts.insert(0, C.Att(b"pad", C.NC_CHAR, b"pad."))    # the knob that moves everything behind it in steps of 4 bytes
    region = b["region"]
    want = b["bytes"]
    size = 0
    i = 0
    if region == "dims":
        while size < want:
            nm = bulk_name(b"d", i, lo, hi, seed)
            f.dims.append(C.Dim(nm, 1 + rint(seed, "dl", i) % 3))
            size += 2 * w + len(nm) + (-len(nm) % 4)
            i += 1
    elif region == "gatts":
        while size < want:
            nm = bulk_name(b"g", i, lo, hi, seed)
            xt = types[rint(seed, "gt", i) % len(types)]
            nb = b["vlo"] + rint(seed, "gn", i) % (b["vhi"] - b["vlo"] + 1)
            a = att_from(nm, xt, nb // C.TYPE_SIZE[xt], seed, ("gv", i))
            f.gatts.append(a)
            size += 2 * w + 4 + len(nm) + (-len(nm) % 4) + a.nelems * C.TYPE_SIZE[xt] + (-(a.nelems * C.TYPE_SIZE[xt]) % 4)
            i += 1
    else:
        ones = [k for k, d in enumerate(f.dims) if d.length == 1]
        if not ones:
            f.dims.append(C.Dim(b"one", 1))
            ones = [len(f.dims) - 1]
        small = [k for k, d in enumerate(f.dims) if 1 <= d.length <= 3]
        rec = f.rec_dimid()
        while size < want:
            nm = bulk_name(b"v", i, lo, hi, seed)
            h = rint(seed, "vh", i)
            dimids = []
            if rec >= 0 and h % 3 == 0:
                dimids.append(rec)
            for t in range((h >> 4) % 3):
                dimids.append(small[(h >> (8 + 4 * t)) % len(small)])
            dimids += [ones[(h >> 24) % len(ones)]] * ((h >> 28) % 5 if (h >> 40) % 4 else (h >> 28) % 28)     # numpy arrays: <= 32 dimensions
            xt = types[(h >> 44) % len(types)]
            atts = []
            for t in range((h >> 50) % 4):
                an = bulk_name(b"a", t, lo, hi, seed ^ i)
                axt = types[rint(seed, "at", i, t) % len(types)]
                nb = b["vlo"] + rint(seed, "an", i, t) % (b["vhi"] - b["vlo"] + 1)
                atts.append(att_from(an, axt, nb // C.TYPE_SIZE[axt], seed, ("av", i, t)))
            f.vars.append(C.Var(nm, xt, dimids, atts))
            f._c04_vseed.append(rint(seed, "vd", i) % 2 ** 32)
            f._c04_vmode.append(("ok", 0))
            f._c04_gap.append(0)
            size += w + len(nm) + (-len(nm) % 4) + w + w * len(dimids) + 4 + w + 4 + w + f.offset_width
            for a in atts:
                nb = a.nelems * C.TYPE_SIZE[a.xtype]
                size += w + len(a.name) + (-len(a.name) % 4) + 4 + w + nb + (-nb % 4)
            i += 1


def place_target(f, b):
    """move the last field of the wanted kind that lies before the simulated end of read window number `boundary` so that the
    4-byte word it starts in lies at that end + delta (the end may fall inside a byte string); returns a label"""
    kind, region, j = b["target"], b["region"], b["boundary"]
    idx = None

    def delta(fld):
        """offset of the word the field starts in, relative to the window end"""
        words = -(-(fld[2] % 4 + fld[3]) // 4)
        where = b["where"]
        if where == "inside" and words == 1:
            where = "ends"
        return {"before": -4 * words - 4, "ends": -4 * words, "inside": -4 * (1 + b["inside"] % max(words - 1, 1)), "starts": 0, "after": 4}[where]
    for it in range(4):
        fields, total = field_map(f)
        ends = chunk_ends(fields)
        if len(ends) < j:
            return "target_no_boundary"
        E = ends[j - 1]
        if idx is None:
            for n, fld in enumerate(fields):
                if fld[0] != region or fld[1] != kind:
                    continue
                if fld[2] - fld[2] % 4 > E + delta(fld):
                    if fld[3] < 5000:
                        break
                    continue
                if region != "dims" and fld[2] < 400:
                    continue            # a field of the pad attribute itself
                idx = n
            if idx is None:
                return "target_none"
        fld = fields[idx]
        shift = E + delta(fld) - (fld[2] - fld[2] % 4)
        if shift == 0:
            return "target_placed"
        if region == "dims":
            if shift < 0:
                return "target_short"
            w = f.nonneg_width
            off = 4 + w + 4 + w
            for dm in f.dims:
                entry = 2 * w + len(dm.name) + (-len(dm.name) % 4)
                if off + entry > fld[2] or shift == 0:
                    break
                if dm.name.startswith(b"d") and b"_" in dm.name:
                    add = min((256 - len(dm.name)) // 4 * 4, shift)      # multiples of 4: the name's padding is unchanged
                    dm.name = dm.name + b"x" * add
                    shift -= add
                off += entry
            if shift:
                return "target_short"
        else:
            pad = f.gatts[0]
            n = len(pad.values) + shift
            if n < 4:
                return "target_short"
            pad.values = rbytes(b["seed"], "pad", n)
    return "target_unstable"


def build_file(case):
    """case -> (CDFFile with layout, {var: external bytes}, file bytes, info)"""
    ver = case["version"]
    f = File(version=ver, numrecs=case["numrecs"])
    f.dims = [C.Dim(bytes.fromhex(n), l) for n, l in case["dims"]]
    f.gatts = [_att(a, ("g", i)) for i, a in enumerate(case["gatts"])]
    f._c04_vseed, f._c04_vmode, f._c04_gap = [], [], []
    for vi, v in enumerate(case["vars"]):
        f.vars.append(C.Var(bytes.fromhex(v["name"]), v["xt"], v["dimids"], [_att(a, ("v", vi, i)) for i, a in enumerate(v["atts"])]))
        f._c04_vseed.append(v["seed"])
        f._c04_vmode.append((v["vsize"], v.get("stale", 0)))
        f._c04_gap.append(v.get("gap", 0))
    for nm in [d.name for d in f.dims] + [a.name for a in f.gatts] + [v.name for v in f.vars] + [a.name for v in f.vars for a in v.atts]:
        t = nm.decode("utf-8")
        if unicodedata.normalize("NFC", t) != t or not 1 <= len(nm) <= 256:
            raise RuntimeError("generator produced a name outside the domain: %r" % nm)
    info = {"labels": set(), "nontrivial": False}
    b = case.get("bulk")
    if b:
        expand_bulk(f, b)
        info["labels"].add("bulk_" + b["region"])
        if b.get("target"):
            lab = place_target(f, b)
            info["labels"].add(lab)
    # ---- empty lists: ABSENT or (tag, 0)
    t0 = case["tag0"]
    for key, lst in (("dims", f.dims), ("gatts", f.gatts), ("vars", f.vars)):
        if not lst and t0[key]:
            f.list_style[key] = "tag0"
            info["labels"].add("tag0_" + key)
            info["nontrivial"] = True
    if t0["vatts"]:
        for i, v in enumerate(f.vars):
            if not v.atts and (i % 2 == 0 or len(f.vars) < 3):
                f.list_style[("vatts", i)] = "tag0"
                info["labels"].add("tag0_vatts")
                info["nontrivial"] = True
    # ---- layout
    f._hs = len(C.header_bytes(f))
    gaps = {i: g for i, g in enumerate(f._c04_gap) if g}
    C.assign_layout(f, header_pad=case["header_pad"], var_align=case["var_align"], rec_align=case["rec_align"], gaps=gaps)
    problems = C.layout_problems(f)
    if problems:
        raise RuntimeError("generator produced an illegal layout: %s" % problems[:2])
    for i, v in enumerate(f.vars):
        mode, stale = f._c04_vmode[i]
        good = v.vsize
        if mode == "zero":
            v.vsize = 0
        elif mode == "sat":
            v.vsize = C.VSIZE_SATURATED
        elif mode == "stale":
            v.vsize = stale
        if v.vsize != good:
            info["labels"].add("vsize_" + mode)
            info["nontrivial"] = True
    hs = f.header_size
    fixed, rec = f.fixed_vars(), f.record_vars()
    if f.vars:
        first = min(v.begin for v in f.vars)
        if first > hs:
            info["labels"].add("gap_after_header")
        if gaps:
            info["labels"].add("gap_between_vars")
        if first > hs or gaps:
            info["nontrivial"] = True
    if fixed and rec and max(fixed) > min(rec):
        info["labels"].add("fixed_after_record")
        info["nontrivial"] = True
    if hs > CHUNK:
        info["nontrivial"] = True
        info["labels"].add("header_chunks_%d" % min(-(-hs // CHUNK), 5))
        fields, total = field_map(f)
        if total != hs:
            raise RuntimeError("field_map disagrees with header_bytes: %d != %d" % (total, hs))
        info["labels"] |= boundary_labels(fields, chunk_ends(fields))
    if hs == (48 if ver == 5 else 32):
        info["labels"].add("minimal_header")
    # ---- data
    data = {}
    for i, v in enumerate(f.vars):
        n = 1
        for s in f.var_shape(v):
            n *= s
        data[i] = values(v.xtype, n, f._c04_vseed[i], "data")
    gs = case["gapseed"]
    ctr = [0]

    def gapfill(n):
        ctr[0] += 1
        return rbytes(gs, ctr[0], n)
    fill = {"random": gapfill, "zero": None, "ff": b"\xff"}[case["gapfill"]]
    full = C.encode(f, data, fill_gap=fill)
    if len(full) < hs:
        raise RuntimeError("encode/header_bytes disagree")
    raw = full
    if f.vars and case["cut"]:
        first = min(v.begin for v in f.vars)
        cut = min(case["cut"], len(full) - first) if len(full) > first else 0
        if cut > 0:
            raw = full[:len(full) - cut]
            info["labels"].add("truncated")
    # self check of the trusted base: the codec decodes its own output to the same content
    back = C.decode(raw)
    if back.logical() != f.logical() or [(v.vsize, v.begin) for v in back.vars] != [(v.vsize, v.begin) for v in f.vars]:
        raise RuntimeError("cdfspec round trip mismatch")
    info["labels"].add("fmt%d" % ver)
    info["labels"].add("numrecs_%d" % f.numrecs if f.rec_dimid() >= 0 else "no_record_dim")
    if rec:
        info["labels"].add("record_vars_%s" % ("1" if len(rec) == 1 else "many"))
    if any(a.nelems == 0 for a in f.gatts[1 if b else 0:]) or any(a.nelems == 0 for v in f.vars for a in v.atts):
        info["labels"].add("zero_length_attribute")
    if any(not v.dimids for v in f.vars):
        info["labels"].add("scalar_var")
    info["hs"] = hs
    return f, data, raw, info


# ------------------------------------------------------------------------------------------------ script
def config_script(cfg, path, raw=None):
    k = cfg["k"]
    s = Script(k=k)
    if raw is not None:
        s.op("writefile", ranks=[0], path=hx(path), hex=raw)
        s.op("barrier")
    s.op("env", **{"e__PNETCDF_SAFE_MODE": "UNSET" if cfg["safe"] is None else hx(cfg["safe"])})
    hints = dict(cfg["hints"])
    if cfg["hcoll"]:
        hints["romio_no_indep_rw"] = "true"
    if cfg["chunk"] is not None:
        hints["nc_header_read_chunk_size"] = str(cfg["chunk"])
    kw = {}
    if hints:
        s.op("info", i="i1", **{"h__" + a: hx(b) for a, b in hints.items()})
        kw["info"] = "i1"
    ns = {}
    ns["open"] = s.op("open", step=True, f="f0", path=hx(path), mode=1 if cfg["rw"] else 0, **kw)
    if cfg["indep"]:
        ns["bi"] = s.op("begin_indep", step=True, f="f0")
    ns["dump"] = s.op("dumpall", step=not cfg["indep"], f="f0", data=1, coll=0 if cfg["indep"] else 1)
    if cfg["indep"]:
        ns["ei"] = s.op("end_indep", step=True, f="f0")
    ns["close"] = s.op("close", step=True, f="f0")
    return s, ns


# ------------------------------------------------------------------------------------------------ oracle
def swap(raw, sz):
    """external big-endian bytes -> native (little-endian) bytes"""
    if sz == 1 or sys.byteorder == "big":
        return raw
    return np.frombuffer(raw, np.uint8).reshape(-1, sz)[:, ::-1].tobytes()


class Expect:
    """everything the dump must show, derived from the file bytes with cdfspec only"""

    def __init__(self, f, raw):
        self.f = f
        self.raw = raw
        self.var = []
        for i, v in enumerate(f.vars):
            sz = C.TYPE_SIZE[v.xtype]
            a = C.read_var(raw, f, i)
            ext = np.ascontiguousarray(a).reshape(-1).view(np.uint8).tobytes() if a.size else b""
            mask = C.read_var_mask(raw, f, i).reshape(-1)
            self.var.append((swap(ext, sz), mask, sz))


def cmp_atts(bad, where, got, atts):
    if len(got) != len(atts):
        bad("meta", "%s: %d attributes reported, %d encoded" % (where, len(got), len(atts)), "natts")
        return
    for i, a in enumerate(atts):
        g = got[i]
        w = "%s attribute %d (%r)" % (where, i, a.name[:40])
        if any(g["e"]) or g.get("ge") != 0:
            bad("rc", "%s: inquiry errors %s get_att %s" % (w, g["e"], g.get("ge")), "att_rc")
            continue
        if bytes.fromhex(g["name"]) != a.name:
            bad("meta", "%s: name is %r" % (w, bytes.fromhex(g["name"])[:60]), "att_name")
        if g["id"] != i:
            bad("meta", "%s: inq_attid gives %s" % (w, g["id"]), "att_id")
        if g["xt"] != a.xtype or g["len"] != a.nelems:
            bad("meta", "%s: type/length %s/%s encoded %s/%s" % (w, g["xt"], g["len"], a.xtype, a.nelems), "att_type_len")
            continue
        want = swap(a.value_bytes(), C.TYPE_SIZE[a.xtype])
        if bytes.fromhex(g["val"]) != want:
            gv = bytes.fromhex(g["val"])
            k = next((j for j in range(min(len(gv), len(want))) if gv[j] != want[j]), min(len(gv), len(want)))
            bad("value", "%s: values differ from byte %d on: %s encoded %s" % (w, k, gv[k:k + 8].hex(), want[k:k + 8].hex()), "att_value")


def compare(d, ex, what):
    """dumpall record of one rank against the encoded content"""
    out = []
    f = ex.f

    def bad(kind, msg, sub):
        if len(out) < 6:
            out.append({"kind": kind, "msg": "%s: %s" % (what, msg), "sig": {"kind": kind, "what": sub}})
    if d is None:
        bad("nodump", "no dump record", "nodump")
        return out
    if d.get("rc") != 0:
        bad("rc", "ncmpi_inq failed rc=%s" % d.get("rc"), "inq")
        return out
    recdim = f.rec_dimid()
    if (d["ndims"], d["nvars"], d["ngatts"], d["unlim"]) != (len(f.dims), len(f.vars), len(f.gatts), recdim):
        bad("meta", "ndims/nvars/ngatts/unlimdim %s encoded %s" % ((d["ndims"], d["nvars"], d["ngatts"], d["unlim"]),
                                                                  (len(f.dims), len(f.vars), len(f.gatts), recdim)), "counts")
        return out
    if d["fmt"] != f.version:
        bad("meta", "inq_format %s, file is CDF-%d" % (d["fmt"], f.version), "format")
    if any(d["he"]):
        bad("rc", "inq_header_size/extent/recsize errors %s" % d["he"], "inq_header")
    if d["hsize"] != f.header_size:
        bad("meta", "inq_header_size %s, header occupies %d bytes" % (d["hsize"], f.header_size), "header_size")
    if d["recsize"] != (f.recsize() if f.record_vars() else 0):
        bad("meta", "inq_recsize %s, record size by the format rules %d" % (d["recsize"], f.recsize() if f.record_vars() else 0), "recsize")
    if (d["nrecvars"], d["nfixvars"]) != (len(f.record_vars()), len(f.fixed_vars())):
        bad("meta", "num_rec_vars/num_fix_vars %s/%s" % (d["nrecvars"], d["nfixvars"]), "nrecvars")
    if recdim >= 0 and d["numrecs"] != f.numrecs:
        bad("numrecs", "record dimension length %s, header holds %d" % (d["numrecs"], f.numrecs), "numrecs")
    for i, dm in enumerate(f.dims):
        g = d["dims"][i]
        want = dm.length if dm.length else f.numrecs
        if any(g["e"]):
            bad("rc", "dim %d: inquiry errors %s" % (i, g["e"]), "dim_rc")
        elif bytes.fromhex(g["name"]) != dm.name or g["len"] != want or g["id"] != i:
            bad("meta", "dim %d is %r len %s id-by-name %s; encoded %r len %d" % (i, bytes.fromhex(g["name"])[:60], g["len"], g["id"], dm.name[:60], want), "dim")
    cmp_atts(bad, "global", d["gatts"], f.gatts)
    for i, v in enumerate(f.vars):
        g = d["vars"][i]
        w = "var %d (%r)" % (i, v.name[:40])
        if any(g["e"]):
            bad("rc", "%s: inquiry errors %s" % (w, g["e"]), "var_rc")
            continue
        if bytes.fromhex(g["name"]) != v.name or g["id"] != i:
            bad("meta", "%s: name %r id-by-name %s" % (w, bytes.fromhex(g["name"])[:60], g["id"]), "var_name")
        if g["xt"] != v.xtype or g["dimids"] != v.dimids:
            bad("meta", "%s: type %s dimids %s encoded %s %s" % (w, g["xt"], g["dimids"][:12], v.xtype, v.dimids[:12]), "var_shape")
            continue
        if g["off"] != v.begin:
            bad("meta", "%s: inq_varoffset %s, begin field %d" % (w, g["off"], v.begin), "var_begin")
        cmp_atts(bad, w, g["atts"], v.atts)
        if g.get("de") != 0:
            bad("rc", "%s: get_var failed rc=%s" % (w, g.get("de")), "get_var_rc")
            continue
        want, mask, sz = ex.var[i]
        got = bytes.fromhex(g["data"])
        if len(got) != len(want):
            bad("value", "%s: %d data bytes returned, %d expected" % (w, len(got), len(want)), "data_size")
            continue
        if got != want and len(want):
            ga = np.frombuffer(got, np.uint8).reshape(-1, sz)
            wa = np.frombuffer(want, np.uint8).reshape(-1, sz)
            wrong = (ga != wa).any(axis=1) & mask
            if wrong.any():
                k = int(np.flatnonzero(wrong)[0])
                bad("value", "%s: element %d (of %d, %d wrong) is %s, file holds %s" % (w, k, len(mask), int(wrong.sum()), ga[k].tobytes().hex(), wa[k].tobytes().hex()), "data")
    return out


def canon(d, ex):
    """dump record reduced to what must be identical on every rank and in every configuration"""
    c = {k: v for k, v in d.items() if k not in ("n", "vars")}
    vs = []
    for i, g in enumerate(d.get("vars", [])):
        g = dict(g)
        if g.get("data") and i < len(ex.var):
            want, mask, sz = ex.var[i]
            got = bytes.fromhex(g["data"])
            if len(got) == len(want) and len(want):
                ga = np.frombuffer(got, np.uint8).reshape(-1, sz).copy()
                ga[~mask] = 0
                g["data"] = ga.tobytes().hex()
        vs.append(g)
    c["vars"] = vs
    return c


def after_close(path, f, ex, raw, cfg, what):
    out = []

    def bad(kind, msg, sub):
        out.append({"kind": kind, "msg": "%s: %s" % (what, msg), "sig": {"kind": kind, "what": sub}})
    try:
        now = open(path, "rb").read()
    except OSError as e:
        bad("nofile", "file vanished: %s" % e, "nofile")
        return out
    if not cfg["rw"]:
        if now != raw:
            k = next((j for j in range(min(len(now), len(raw))) if now[j] != raw[j]), min(len(now), len(raw)))
            bad("modified", "read-only open changed the file (size %d -> %d, first difference at byte %d)" % (len(raw), len(now), k), "ro_modified")
        return out
    if now == raw:
        return out
    try:
        g = C.decode(now)
    except C.CDFError as e:
        bad("modified", "after read-write open + close the file no longer decodes: %s" % e, "rw_grammar")
        return out
    if g.logical() != f.logical():
        bad("modified", "read-write open + close changed the logical content (numrecs %s -> %s)" % (f.numrecs, g.numrecs), "rw_logical")
        return out
    for i, v in enumerate(f.vars):
        want, mask, sz = ex.var[i]
        if not len(want):
            continue
        a = C.read_var(now, g, i)
        m2 = C.read_var_mask(now, g, i).reshape(-1)
        ga = np.frombuffer(swap(np.ascontiguousarray(a).reshape(-1).view(np.uint8).tobytes(), sz), np.uint8).reshape(-1, sz)
        wa = np.frombuffer(want, np.uint8).reshape(-1, sz)
        if (mask & ~m2).any() or ((ga != wa).any(axis=1) & mask).any():
            bad("modified", "read-write open + close changed data of var %d" % i, "rw_data")
            break
    return out


# ------------------------------------------------------------------------------------------------ run
def cfg_label(cfg):
    return ["k%d" % cfg["k"], "hcoll" if cfg["hcoll"] else "hindep", "chunkhint_%s" % cfg["chunk"], "safe_%s" % cfg["safe"],
            "rw" if cfg["rw"] else "ro", "indep_read" if cfg["indep"] else "coll_read"] + ["hint_" + h for h in cfg["hints"]]


def run_case(ctx, case):
    f, data, raw, info = build_file(case)
    ex = Expect(f, raw)
    probs = []
    big = len(raw) > BIG_FILE
    mydir = None
    canon0 = None
    labels = set(info["labels"])
    labels.add("file_big" if big else "file_small")
    try:
        if big:
            mydir = tempfile.mkdtemp(prefix="c04.%d." % os.getpid(), dir="/tmp")
        for ci, cfg in enumerate(case["configs"]):
            what0 = "config %d (%s)" % (ci, " ".join(cfg_label(cfg)))
            if big:
                path = os.path.join(mydir, "t.nc")
                with open(path, "wb") as fh:
                    fh.write(raw)
                s, ns = config_script(cfg, path)
            else:
                s, ns = config_script(cfg, "t.nc", raw)
            k = cfg["k"]
            pool = ctx.pool("asan", nprocs=1 if k == 1 else 4)
            res, d = pool.run(s, keepdir=True)
            try:
                for r in range(k):
                    what = "%s rank %d" % (what0, r)
                    for key in ("open", "bi", "ei", "close"):
                        if key in ns:
                            e = res.get(ns[key], r)
                            if (e is None or e.get("rc") != 0) and not probs:       # later calls only echo the first failure
                                probs.append({"kind": "rc", "msg": "%s: %s returned %s on a specification-valid file" % (what, key, None if e is None else e.get("rc")),
                                              "sig": {"kind": "rc", "what": key}})
                    if probs:
                        break
                    dump = res.get(ns["dump"], r)
                    probs += compare(dump, ex, what)
                    if probs:
                        break
                    cn = canon(dump, ex)
                    if canon0 is None:
                        canon0 = (cn, what)
                    elif cn != canon0[0]:
                        keys = [kk for kk in cn if cn[kk] != canon0[0].get(kk)]
                        probs.append({"kind": "differs", "msg": "dump of %s differs from dump of %s in %s" % (what, canon0[1], keys[:4]),
                                      "sig": {"kind": "differs", "what": keys[0] if keys else "?"}})
                        break
                if not probs:
                    probs += after_close(path if big else os.path.join(d, "t.nc"), f, ex, raw, cfg, what0)
            finally:
                shutil.rmtree(d, ignore_errors=True)
            labels.update(cfg_label(cfg))
            if probs:
                break
    finally:
        if mydir:
            shutil.rmtree(mydir, ignore_errors=True)
    ctx.count(*labels)
    if info["nontrivial"]:
        ctx.nontrivial(runner.case_hash(case))
    if not case.get("bulk"):
        ctx.sample({"case": case, "header_size": info["hs"], "file_size": len(raw), "labels": sorted(info["labels"])})
    return probs


def case_script(case):
    f, data, raw, info = build_file(case)
    big = len(raw) > BIG_FILE
    out = []
    for cfg in case["configs"]:
        s, ns = config_script(cfg, "/tmp/<dir>/t.nc" if big else "t.nc", None if big else raw)
        out.append(s.text("<dir>")[0][:6000])
    return "\n".join(out)


def campaign(ctx):
    n_small, n_bulk = {"quick": (200, 11), "thorough": (1800, 95)}[ctx.tier]
    runner.run_hypothesis(ctx, small_strategy(ctx.tier), runner.guarded(run_case), n_small)
    runner.run_hypothesis(ctx, bulk_strategy(ctx.tier, salt=ctx.seed * 1000 + ctx.widx), runner.guarded(run_case), n_bulk, label="bulk")


if __name__ == "__main__":
    runner.main("checks.c04", PROP, default_workers=8, nt_floor=40)
