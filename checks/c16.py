#!/usr/bin/env python3-vt
"""C16 - fill-value semantics.

What the documentation establishes (sources in brackets) and what this check therefore asserts:

  * default dataset mode is NC_NOFILL; fill modes can only be changed in define mode; fixed-size variables in fill
    mode are filled when ncmpi_enddef is called; record variables are never prefilled, one record of one variable is
    filled by ncmpi_fill_var_rec  [man/pnetcdf.m4 "VARIABLE PREFILLING", RELEASE_NOTES 1.6.1]
  * ncmpi_set_fill changes the mode of every variable defined in the CURRENT define-mode scope, before and after the
    call, and ncmpi_def_var_fill afterwards overrides it for one variable  [RELEASE_NOTES 1.10.0 "Discrepancy from
    NetCDF library"]; the old mode is returned  [pnetcdf.h prototype, examples/C/fill_mode.c]
  * the fill value is the variable's _FillValue attribute (same type, one element) if present, else the NC_FILL_*
    default of the type; ncmpi_def_var_fill with a value defines that value; putting or deleting the attribute does
    not change the variable's fill MODE  [pnetcdf.h comments, man page, RELEASE_NOTES 1.9.0, examples/C/fill_mode.c]
  * ncmpi_inq_var_fill reports no_fill and the user-defined or default value  [dispatcher comment, fill_mode.c]
  * ncmpi_fill_var_rec on a variable whose fill mode is off: NC_ENOTFILL  [pnetcdf.h]
  * _FillValue can only be set in the define scope that defines the variable, later: NC_ELATEFILL  [RELEASE_NOTES 1.9.0]
  * variables added by a redefinition are filled including their share of the existing records  [property statement,
    fill_added_recs/fillerup_aggregate]

Deliberately NOT asserted (the code is the only source):
  * the mode of a variable after close/reopen (the mode is not stored in the file) - the model marks it unknown;
  * ncmpi_fill_var_rec on a no-fill variable that carries a _FillValue attribute (fill_mode.c shows success, the
    NC_ENOTFILL text says error) - never generated;
  * ncmpi_def_var_fill with no_fill=1 AND a value, and def_var_fill / _FillValue on variables of an earlier define
    scope - never generated;
  * any element that was neither written nor filled (unknown; ROMIO data sieving may store arbitrary bytes into
    never-written gaps beyond the old end of file).

No-fill variables.  Asserted: (1) every element written through the API keeps its value across later enddef /
fill_var_rec / redefinitions; (2) for a variable ADDED BY A REDEFINITION in no-fill mode: those of its elements whose
bytes lie inside the file as it was before the enddef (snapshot) must not all turn into the variable's fill pattern
when they were not all that pattern before (stale bytes of the previous layout that nobody may overwrite with fill
values; the element offsets come from the independent decoder applied to the snapshot after the enddef).  Nothing
is asserted about unwritten elements of no-fill variables otherwise (in particular not for variables of a freshly
created file: everything beyond the header is then beyond the end of file).
"""
import os, sys, shutil
sys.path.insert(0, os.path.dirname(os.path.dirname(os.path.abspath(__file__))))
import numpy as np
from hypothesis import strategies as st
from pv import model as M, gen as G
from pv.prog import Prog
from pv.pool import hx
from pv import runner
from pv.common import compare_dump, decode_compare

PROP = "C16"
RULE = ("Hypothesis-generated histories on CDF-1/2/5 files, k=1..4 ranks, dimension lengths 1,2,3,5,7 (element counts mostly not "
        "divisible by k), 1-3 define scopes (create, redef, close+reopen+redef; thorough: up to 4, lengths also 4 and 11) defining 1-4 "
        "(later scopes 0-3) variables of any external type "
        "with set_fill(NC_FILL/NC_NOFILL) before/between/after the definitions, def_var_fill(no_fill 0/1, with/without value), "
        "_FillValue attributes (put_att, type of the variable, one element; del_att), enddef or _enddef with alignments; data phases with "
        "collective put_vara of sub-blocks split over the ranks, fill_var_rec on existing and new records (numrecs 0..5), "
        "fill_var_rec on no-fill variables (NC_ENOTFILL), _FillValue put on a variable of an earlier scope (NC_ELATEFILL). "
        "Oracle: FileM model with masks (unknown/written/fill): after every enddef, on request and at the end every rank reads every variable (dumpall) and written and filled elements must match, "
        "inq_var_fill must report the modelled mode and fill value, set_fill must return the previous mode; the closed file is "
        "decoded by pv/cdfspec.py and compared again; snapshot comparison around enddef for no-fill variables added by a "
        "redefinition. Non-trivial = a scope that adds a fill-mode record variable to a file with numrecs>=2 and k>=2, or "
        "defines a fill-mode fixed variable whose element count is not divisible by k (k>=2); distinct = distinct case hash.")
ASSUMPTIONS = ["single node, local POSIX file system, OpenMPI 4.1.4 + ROMIO; a POSIX copy of the file made by rank 0 after a barrier sees what "
               "the preceding collective calls wrote",
               "the dataset fill mode set by ncmpi_set_fill stays in force for later define scopes of the same open file (it is what the "
               "old_mode argument reports) and is NC_NOFILL after ncmpi_open",
               "the fill mode of a variable is unknown to the model after close/reopen, and after a set_fill issued in a later "
               "define scope while the switch set_fill_redef_keeps_old_modes is off (see SWITCHES)",
               "no-fill variables: only written elements, and the snapshot rule for variables added by a redefinition (module docstring), are asserted",
               "memory type = native type of the variable (no conversion); floating-point fill values are finite"]

MODE = {1: 0, 2: 0x200, 5: 0x20}
NC_FILL_MODE, NC_NOFILL_MODE = 0, 0x100
NC_ELATEFILL = -122
MAXREC = 5
DIMLENS = [1, 2, 3, 5, 7]

# ---- generator switches (True = the sub-domain is generated / asserted).  A switch is turned off only for a confirmed
# ---- discrepancy that is kept as a replay under replays/C16/, so that the search continues past it.
SWITCHES = {
    # RELEASE_NOTES: "this API [ncmpi_set_fill] has no effect on the already existing variables created in the previous
    # define mode".  True: the model keeps the mode of variables of earlier scopes across a set_fill in a later scope and
    # asserts it (inq_var_fill, fill_var_rec).  False: their mode becomes unknown to the model.
    # Confirmed discrepancy on the unchanged tree (ncmpio_set_fill overwrites no_fill of ALL variables), replay
    # replays/C16/set-fill-in-redef-changes-old-variable-mode.json (which forces the switch on).
    "set_fill_redef_keeps_old_modes": True,
}


def sw(case, name):
    return bool((case.get("sw") or {}).get(name, SWITCHES[name]))


# ------------------------------------------------------------------ fill values
def default_fill(xt):
    return np.dtype(M.XT_DTYPE[xt]).type(M.NC_FILL[xt])


def user_fill(xt, seed):
    """user fill value of external type xt: a pure function of (xt, seed); seeds 0..3 are special values"""
    dt = np.dtype(M.XT_DTYPE[xt])
    if seed == 0:
        return dt.type(0)
    if seed == 1:
        return default_fill(xt)
    if seed == 2:
        return dt.type(1)
    if seed == 3 and dt.kind in "iu":
        return dt.type(np.iinfo(dt).max)
    return M.value_pattern(seed, 1, xt, M.XT_NATIVE_MT[xt], "wild")[0]


def native_bytes(val, xt):
    return np.array([val], dtype=M.XT_DTYPE[xt]).tobytes()


def external_bytes(val, xt):
    return np.array([val], dtype=np.dtype(M.XT_DTYPE[xt]).newbyteorder(">")).tobytes()


# ------------------------------------------------------------------ mode model (shared by generator and builder)
class Modes:
    """fill modes and fill values by the documented rules; mode: 0 fill, 1 no-fill, None unknown"""

    def __init__(self, dims, keep_old=True):
        self.dims = dims
        self.vars = []          # dicts: xt, dims, rec, mode, att (value or None), scope
        self.ds = 1             # dataset mode: default NC_NOFILL
        self.scope = 0
        self.first_new = 0
        self.keep_old = keep_old

    def begin_scope(self, reopen):
        self.scope += 1
        self.first_new = len(self.vars)
        if reopen:
            self.ds = 1
            for v in self.vars:
                v["mode"] = None

    def set_fill(self, nofill):
        old = self.ds
        self.ds = nofill
        for i, v in enumerate(self.vars):
            if i >= self.first_new:
                v["mode"] = nofill
            elif not self.keep_old:
                v["mode"] = None
        return old

    def def_var(self, xt, dimids):
        rec = bool(dimids) and self.dims[dimids[0]] == 0
        self.vars.append({"xt": xt, "dims": list(dimids), "rec": rec, "mode": self.ds, "att": None, "scope": self.scope})
        return len(self.vars) - 1

    def is_new(self, v):
        return self.first_new <= v < len(self.vars)

    def var_fill(self, v, nofill, val):
        self.vars[v]["mode"] = nofill
        if val is not None and not nofill:
            self.vars[v]["att"] = val

    def att_fv(self, v, val):
        self.vars[v]["att"] = val

    def fv(self, v):
        d = self.vars[v]
        return d["att"] if d["att"] is not None else default_fill(d["xt"])

    def nelems(self, v):
        n = 1
        for d in self.vars[v]["dims"]:
            if self.dims[d] != 0:
                n *= self.dims[d]
        return n


# ------------------------------------------------------------------ generator
@st.composite
def case_strategy(draw, tier="quick"):
    big = tier == "thorough"
    fmt = draw(st.sampled_from([1, 2, 5]))
    k = draw(st.sampled_from([1, 2, 2, 3, 3, 4, 4] if not big else [1, 2, 3, 4, 4, 3, 2]))
    types = M.XT_CDF12 if fmt != 5 else M.XT_ALL
    lens = DIMLENS if not big else DIMLENS + [4, 11]
    dims = [draw(st.sampled_from(lens)) for _ in range(draw(st.integers(1, 3)))]
    has_rec = G.chance(draw, 85)
    recdim = -1
    if has_rec:
        recdim = draw(st.integers(0, len(dims)))
        dims.insert(recdim, 0)
    fixed_ids = [i for i, l in enumerate(dims) if l != 0]
    mo = Modes(dims, keep_old=SWITCHES["set_fill_redef_keeps_old_modes"])
    numrecs = 0
    scopes = []
    nscopes = draw(st.integers(1, 3 if not big else 4))
    for si in range(nscopes):
        sc = {"reopen": False, "defs": [], "enddef": None, "data": []}
        if si > 0:
            sc["reopen"] = G.chance(draw, 25) and not scopes[-1].get("leave_indep")
            mo.begin_scope(sc["reopen"])
        n_new = draw(st.integers(1, 4)) if si == 0 else draw(st.sampled_from([0, 1, 1, 2, 2, 3]))
        extras = draw(st.integers(0, 4))
        todo = n_new
        while todo > 0 or extras > 0:
            choices = []
            if todo > 0:
                choices += ["def_var", "def_var"]
            if extras > 0:
                choices += ["set_fill"]
                if len(mo.vars) > mo.first_new:
                    choices += ["var_fill", "var_fill", "att_fv"]
                    if any(v["att"] is not None for v in mo.vars) and len(mo.vars) - mo.first_new >= 1:
                        choices += ["copy_fv"]
                    if any(v["att"] is not None for v in mo.vars[mo.first_new:]) and G.chance(draw, 30):
                        choices += ["del_fv"]
                if G.chance(draw, 10):
                    choices += ["gatt"]
                if mo.first_new > 0 and G.chance(draw, 15):
                    choices += ["late_fv"]
            a = draw(st.sampled_from(choices))
            if a == "def_var":
                todo -= 1
                xt = draw(st.sampled_from(types))
                isrec = has_rec and G.chance(draw, 50)
                nd = draw(st.integers(0, 2 if isrec else 3))
                vd = [draw(st.sampled_from(fixed_ids)) for _ in range(nd)]
                if isrec:
                    vd = [recdim] + vd
                mo.def_var(xt, vd)
                sc["defs"].append({"a": "def_var", "xt": xt, "dims": vd})
                continue
            extras -= 1
            if a == "set_fill":
                nofill = draw(st.sampled_from([0, 0, 1]))
                mo.set_fill(nofill)
                sc["defs"].append({"a": "set_fill", "nofill": nofill})
            elif a == "var_fill":
                v = draw(st.integers(mo.first_new, len(mo.vars) - 1))
                nofill = draw(st.sampled_from([0, 0, 0, 1]))
                fvs = draw(st.integers(0, 10 ** 6)) if (nofill == 0 and G.chance(draw, 50)) else None
                mo.var_fill(v, nofill, None if fvs is None else user_fill(mo.vars[v]["xt"], fvs))
                sc["defs"].append({"a": "var_fill", "v": v, "nofill": nofill, "fv": fvs})
            elif a == "att_fv":
                v = draw(st.integers(mo.first_new, len(mo.vars) - 1))
                fvs = draw(st.integers(0, 10 ** 6))
                mo.att_fv(v, user_fill(mo.vars[v]["xt"], fvs))
                sc["defs"].append({"a": "att_fv", "v": v, "fv": fvs})
            elif a == "copy_fv":
                # _FillValue copied from another variable: legal only between variables of the same type
                srcs = [i for i, v in enumerate(mo.vars) if v["att"] is not None]
                src = draw(st.sampled_from(srcs))
                dst = draw(st.integers(mo.first_new, len(mo.vars) - 1))
                if src != dst:
                    if mo.vars[src]["xt"] == mo.vars[dst]["xt"]:
                        mo.att_fv(dst, mo.vars[src]["att"])
                    sc["defs"].append({"a": "copy_fv", "src": src, "dst": dst})
            elif a == "late_fv":
                sc["defs"].append({"a": "late_fv", "v": draw(st.integers(0, mo.first_new - 1)), "fv": draw(st.integers(0, 10 ** 6))})
            elif a == "del_fv":
                v = draw(st.sampled_from([i for i in range(mo.first_new, len(mo.vars)) if mo.vars[i]["att"] is not None]))
                mo.att_fv(v, None)
                sc["defs"].append({"a": "del_fv", "v": v})
            else:
                sc["defs"].append({"a": "gatt", "n": draw(st.sampled_from([3, 40, 600]))})
        if G.chance(draw, 25):
            sc["enddef"] = [draw(st.sampled_from([0, 32])), draw(st.sampled_from([0, 4, 8, 512])), 0, draw(st.sampled_from([0, 4, 8, 512]))]
        # ---- data phase
        nops = draw(st.integers(0, 5 if not big else 8))
        for _ in range(nops):
            kinds = ["write", "write", "write", "check"]
            fillable = [i for i, v in enumerate(mo.vars) if v["rec"] and v["mode"] == 0]
            notfill = [i for i, v in enumerate(mo.vars) if v["rec"] and v["mode"] == 1 and v["att"] is None]
            if fillable:
                kinds += ["fill", "fill", "fill"]
            if notfill:
                kinds += ["enotfill"]
            kind = draw(st.sampled_from(kinds))
            if kind == "check":
                sc["data"].append({"a": "check"})
            elif kind == "fill":
                v = draw(st.sampled_from(fillable))
                rec = draw(st.integers(0, min(MAXREC - 1, numrecs + 1)))
                numrecs = max(numrecs, rec + 1)
                sc["data"].append({"a": "fill", "v": v, "rec": rec})
            elif kind == "enotfill":
                v = draw(st.sampled_from(notfill))
                sc["data"].append({"a": "enotfill", "v": v, "rec": draw(st.integers(0, MAXREC - 1))})
            else:
                recs = [i for i, x in enumerate(mo.vars) if x["rec"]]
                if recs and si < nscopes - 1 and G.chance(draw, 40):
                    v = draw(st.sampled_from(recs))      # grow the record count before the next redefinition
                else:
                    v = draw(st.integers(0, len(mo.vars) - 1))
                d = mo.vars[v]
                if not d["dims"] and k > 1:
                    continue        # a scalar has no zero-length vara request for the peers; written only when k == 1
                shape = [dims[x] for x in d["dims"]]
                if d["rec"]:
                    shape[0] = max(1, min(MAXREC, numrecs + draw(st.integers(0, 3))))
                start, count, stride = draw(G.box(shape, allow_zero=False, stride=False))
                parts = G.split_box(draw, start, count, stride, k)
                if d["rec"]:
                    numrecs = max(numrecs, start[0] + count[0])
                sc["data"].append({"a": "write", "v": v, "seed": draw(st.integers(0, 10 ** 6)), "indep": G.chance(draw, 25),
                                   "parts": [None if pt is None else [pt[0], pt[1]] for pt in parts]})
        # the next redefinition may be entered straight from independent data mode (ncmpi_redef leaves it implicitly)
        if si < nscopes - 1 and sc["data"] and sc["data"][-1].get("indep") and G.chance(draw, 70):
            sc["leave_indep"] = True
        scopes.append(sc)
    return {"fmt": fmt, "k": k, "dims": dims, "scopes": scopes, "aggr": min(k, draw(st.sampled_from([0, 0, 0, 1, 2])))}


# ------------------------------------------------------------------ builder
def prob(kind, msg, **sig):
    s = {"kind": kind}
    s.update(sig)
    return {"kind": kind, "msg": msg, "sig": s}


def check_fillinfo(d, mo_vars, what, modes_known=True):
    """nofill / fill value reported by inq_var_fill (dumpall) against the model snapshot mo_vars [(xt, mode, fv)]"""
    out = []
    if d is None or d.get("rc") != 0 or d.get("nvars") != len(mo_vars):
        return out      # compare_dump reports that
    for vi, (xt, mode, fv) in enumerate(mo_vars):
        dv = d["vars"][vi]
        if dv["e"][3] != 0:
            out.append(prob("inq_var_fill_rc", "%s: inq_var_fill of var %d failed rc=%s" % (what, vi, dv["e"][3])))
            continue
        if modes_known and mode is not None and dv["nofill"] != mode:
            out.append(prob("inq_mode", "%s: inq_var_fill reports no_fill=%s for var %d, model %d" % (what, dv["nofill"], vi, mode), want=mode))
        if bytes.fromhex(dv["fv"]) != native_bytes(fv, xt):
            out.append(prob("inq_value", "%s: inq_var_fill reports fill value %s for var %d (type %s), model %s" % (
                what, dv["fv"], vi, M.XT_NAME[xt], native_bytes(fv, xt).hex()), xt=xt))
    return out


def build(case):
    """case -> (Prog, FileM, labels, nontrivial, snapshot checks)"""
    k, fmt, dims = case["k"], case["fmt"], case["dims"]
    p = Prog(k=k)
    keep_old = sw(case, "set_fill_redef_keeps_old_modes")
    mo = Modes(dims, keep_old=keep_old)
    fm = M.FileM(fmt)
    labels = set(["k%d" % k, "fmt%d" % fmt])
    nontrivial = False
    snapchecks = []
    path = "t.nc"
    ikw = {}
    if case.get("aggr"):
        p.s.op("info", i="i1", **{"h__nc_num_aggrs_per_node": hx(str(case["aggr"]))})
        ikw = {"info": "i1"}
        labels.add("intra_node_aggregation")
    p.op("create", step=True, f="f0", path=hx(path), mode=MODE[fmt], **ikw)
    for i, l in enumerate(dims):
        p.op("def_dim", step=True, f="f0", name=hx("d%d" % i), len=l)
        fm.dims.append(("d%d" % i, l))
    ngatt = 0

    def dump(what, modes_known=True):
        nd = p.op("dumpall", step=True, f="f0", data=1, coll=1)
        snap = [(v["xt"], v["mode"], mo.fv(i)) for i, v in enumerate(mo.vars)]
        # compare_dump looks at the model when the checks run (after the whole program was built): freeze a copy
        fz = freeze(fm)
        p.check(lambda res: sum([compare_dump(res.get(nd, r), fz, "%s rank %d" % (what, r)) +
                                 check_fillinfo(res.get(nd, r), snap, "%s rank %d" % (what, r), modes_known) for r in range(k)], []))

    for si, sc in enumerate(case["scopes"]):
        if si > 0:
            if sc.get("reopen"):
                p.op("close", step=True, f="f0")
                p.op("open", step=True, f="f0", path=hx(path), mode=1, **ikw)
                labels.add("reopen")
            p.op("redef", step=True, f="f0")
            mo.begin_scope(bool(sc.get("reopen")))
        # ---- definitions
        for a in sc["defs"]:
            kind = a["a"]
            if kind == "def_var":
                vi = mo.def_var(a["xt"], a["dims"])
                n = p.op("def_var", step=True, f="f0", name=hx("v%d" % vi), xt=a["xt"], dims=a["dims"], ndims=len(a["dims"]))
                _expect_field(p, n, "id", vi, "def_var")
                fm.add_var("v%d" % vi, a["xt"], a["dims"])
            elif kind == "set_fill":
                if si > 0 and mo.first_new > 0:
                    labels.add("set_fill_in_redef_with_old_vars")
                    if not keep_old:
                        labels.add("excluded_set_fill_redef_keeps_old_modes")
                old = mo.set_fill(a["nofill"])
                n = p.op("set_fill", step=True, f="f0", mode=NC_NOFILL_MODE if a["nofill"] else NC_FILL_MODE)
                _expect_field(p, n, "old", NC_NOFILL_MODE if old else NC_FILL_MODE, "set_fill")
                labels.add("set_fill_nofill" if a["nofill"] else "set_fill_fill")
            elif kind == "var_fill":
                v = a["v"]
                if not mo.is_new(v):
                    continue
                xt = mo.vars[v]["xt"]
                val = None if (a.get("fv") is None or a["nofill"]) else user_fill(xt, a["fv"])
                mo.var_fill(v, a["nofill"], val)
                kw = {} if val is None else {"fv": native_bytes(val, xt)}
                p.op("def_var_fill", step=True, f="f0", v=v, nofill=a["nofill"], **kw)
                labels.add("def_var_fill_nofill" if a["nofill"] else ("def_var_fill_value" if val is not None else "def_var_fill_default"))
            elif kind == "att_fv":
                v = a["v"]
                if not mo.is_new(v):
                    continue
                xt = mo.vars[v]["xt"]
                val = user_fill(xt, a["fv"])
                mo.att_fv(v, val)
                p.op("put_att", step=True, f="f0", v=v, name=hx("_FillValue"), xt=xt, mt=M.XT_NATIVE_MT[xt], n=1, hex=native_bytes(val, xt))
                labels.add("att_FillValue")
            elif kind == "copy_fv":
                src, dst = a["src"], a["dst"]
                if src >= len(mo.vars) or dst >= len(mo.vars) or mo.vars[src]["att"] is None or not mo.is_new(dst) or src == dst:
                    continue
                same = mo.vars[src]["xt"] == mo.vars[dst]["xt"]
                p.op("copy_att", step=True, f="f0", v=src, name=hx("_FillValue"), f2="f0", v2=dst, expect=0 if same else M.E["EBADTYPE"],
                     what="copy_att _FillValue between variables of %s type" % ("the same" if same else "different"))
                if same:
                    mo.att_fv(dst, mo.vars[src]["att"])
                labels.add("copy_att_FillValue_same_type" if same else "copy_att_FillValue_other_type_EBADTYPE")
            elif kind == "late_fv":
                v = a["v"]
                if si == 0 or v >= mo.first_new:
                    continue
                xt = mo.vars[v]["xt"]
                p.op("put_att", step=True, f="f0", v=v, name=hx("_FillValue"), xt=xt, mt=M.XT_NATIVE_MT[xt], n=1,
                     hex=native_bytes(user_fill(xt, a["fv"]), xt), expect=NC_ELATEFILL, what="put_att _FillValue on a variable of an earlier scope")
                labels.add("att_FillValue_late_ELATEFILL")
            elif kind == "del_fv":
                v = a["v"]
                if not mo.is_new(v) or mo.vars[v]["att"] is None:
                    continue
                mo.att_fv(v, None)
                p.op("del_att", step=True, f="f0", v=v, name=hx("_FillValue"))
                labels.add("del_att_FillValue")
            elif kind == "gatt":
                p.op("put_att", step=True, f="f0", v=-1, name=hx("g%d" % ngatt), xt=M.NC_CHAR, mt="text", n=a["n"], hex=b"z" * a["n"])
                ngatt += 1
                labels.add("header_grows")
        # ---- enddef (with snapshots around it when a no-fill variable is added to an existing file)
        new = list(range(mo.first_new, len(mo.vars)))
        new_nofill = [v for v in new if mo.vars[v]["mode"] == 1]
        snap = si > 0 and bool(new_nofill)
        if snap:
            p.op("snapshot", path=hx(path), to="pre%d" % si, expect=None)
        if sc.get("enddef"):
            h, va, vm, ra = sc["enddef"]
            p.op("_enddef", step=True, f="f0", h_minfree=h, v_align=va, v_minfree=vm, r_align=ra)
            labels.add("_enddef_aligned")
        else:
            p.op("enddef", step=True, f="f0")
        if snap:
            p.op("snapshot", path=hx(path), to="post%d" % si, expect=None)
            snapchecks.append({"pre": "pre%d" % si, "post": "post%d" % si, "scope": si,
                               "vars": [(v, mo.vars[v]["xt"], external_bytes(mo.fv(v), mo.vars[v]["xt"])) for v in new_nofill]})
        # ---- the documented effect of leaving define mode
        for v in new:
            d = mo.vars[v]
            var = fm.vars[v]
            cls = ("rec" if d["rec"] else "fix") + ("_new" if si == 0 else "_added")
            if d["mode"] == 0:
                var.vals[...] = mo.fv(v)        # fixed: whole variable; record: its share of all existing records
                var.mask[...] = 2
                labels.add("filled_" + cls)
                labels.add("filled_xt_%s" % M.XT_NAME[d["xt"]])
                labels.add("fill_value_user" if d["att"] is not None else "fill_value_default")
                n = mo.nelems(v)
                if not d["rec"] and k >= 2 and n % k != 0:
                    nontrivial = True
                    labels.add("nt_fixed_not_divisible")
                if not d["rec"] and n < k:
                    labels.add("filled_fewer_elems_than_ranks")
                if d["rec"] and si > 0 and fm.numrecs >= 1:
                    labels.add("filled_rec_added_numrecs%d" % min(fm.numrecs, 3))
                    if fm.numrecs >= 2 and k >= 2:
                        nontrivial = True
                        labels.add("nt_rec_added_numrecs_ge2")
            elif d["mode"] == 1:
                labels.add("nofill_" + cls + ("_with_att" if d["att"] is not None else ""))
        dump("dumpall after enddef of scope %d" % si)
        # ---- data phase
        for a in sc["data"]:
            kind = a["a"]
            if kind == "check":
                dump("dumpall in data phase of scope %d" % si)
            elif kind == "fill":
                v = a["v"]
                if v >= len(mo.vars) or not mo.vars[v]["rec"] or mo.vars[v]["mode"] != 0:
                    continue
                rec = a["rec"]
                labels.add("fill_var_rec_new_record" if rec >= fm.numrecs else "fill_var_rec_existing_record")
                if rec < fm.numrecs and bool((fm.vars[v].mask[rec] == 1).any()):
                    labels.add("fill_var_rec_over_written_data")
                p.op("fill_var_rec", step=True, f="f0", v=v, rec=rec)
                fm.grow(rec + 1)
                fm.vars[v].vals[rec] = mo.fv(v)
                fm.vars[v].mask[rec] = 2
                p.op("fence", step=True, f="f0")
            elif kind == "enotfill":
                v = a["v"]
                if v >= len(mo.vars) or not mo.vars[v]["rec"] or mo.vars[v]["mode"] != 1 or mo.vars[v]["att"] is not None:
                    continue
                p.op("fill_var_rec", step=True, f="f0", v=v, rec=a["rec"], expect=M.E["ENOTFILL"])
                labels.add("fill_var_rec_ENOTFILL")
            elif kind == "write":
                v = a["v"]
                if v >= len(mo.vars):
                    continue
                d = mo.vars[v]
                parts = a["parts"]
                if len(parts) != k or (not d["dims"] and k > 1):
                    continue
                indep = bool(a.get("indep"))
                sn = p.s.same_n() if not indep else None
                nview = fm.numrecs
                applied = []
                if indep:
                    p.op("begin_indep", step=True, f="f0")
                    labels.add("write_indep")
                for r in range(k):
                    if parts[r] is None:
                        continue
                    s, c = parts[r]
                    rq = {"var": v, "form": "vara", "start": list(s), "count": list(c), "seed": a["seed"] + 17 * r,
                          "mt": M.XT_NATIVE_MT[d["xt"]], "vclass": "wild"}
                    _, _, values, idx = p.put(fm, r, rq, nview, coll=not indep, sn=sn, step=not indep, apply=False)
                    if indep and k > 1:
                        p.op("barrier", expect=None)
                    applied.append((idx, values))
                stay = False
                if indep:
                    if a is sc["data"][-1] and sc.get("leave_indep") and si < len(case["scopes"]) - 1 and not case["scopes"][si + 1].get("reopen"):
                        # no end_indep, no sync: ncmpi_redef itself has to leave independent mode and agree on the record count
                        stay = True
                        labels.add("redef_from_indep_mode")
                        if d["rec"] and k > 1:
                            nontrivial = True
                    else:
                        p.op("end_indep", step=True, f="f0")
                before = int((fm.vars[v].mask == 2).sum())
                for idx, values in applied:
                    fm.write(v, idx, values)
                if before and int((fm.vars[v].mask == 2).sum()) not in (0, before):
                    labels.add("partial_write_into_filled")
                labels.add("write_rec" if d["rec"] else "write_fix")
                if stay:
                    p.op("barrier", expect=None)
                else:
                    p.op("fence", step=True, f="f0")
    # ---- wrap up
    dump("final dumpall")
    p.op("close", step=True, f="f0")
    p.op("open", step=True, f="f0", path=hx(path), mode=0)
    dump("dumpall after reopen", modes_known=False)
    p.op("close", step=True, f="f0")
    p.op("snapshot", path=hx(path), to="final", expect=None)
    labels.add("scopes%d" % len(case["scopes"]))
    labels.add("numrecs%d" % fm.numrecs)
    return p, fm, labels, nontrivial, snapchecks


def freeze(fm):
    """copy of the data model as it is now (compare_dump reads dims, vars[].vals/mask/name/xt/dimids, numrecs)"""
    c = M.FileM(fm.fmt)
    c.dims = list(fm.dims)
    c.numrecs = fm.numrecs
    for v in fm.vars:
        w = M.VarM(v.name, v.xt, v.dimids)
        w.vals = v.vals.copy()
        w.mask = v.mask.copy()
        c.vars.append(w)
    return c


def _expect_field(p, n, field, want, what):
    def chk(res):
        out = []
        for r in range(p.k):
            e = res.get(n, r)
            if e is not None and e.get("rc") == 0 and e.get(field) != want:
                out.append(prob("field_" + field, "stmt %d (%s) rank %d: %s is %s, expected %s" % (n, what, r, field, e.get(field), want), op=what))
        return out
    p.check(chk)


# ------------------------------------------------------------------ snapshot rule for added no-fill variables
def nofill_snapshot_check(d, sc, stats):
    from pv import cdfspec
    try:
        pre = open(os.path.join(d, sc["pre"]), "rb").read()
        post = open(os.path.join(d, sc["post"]), "rb").read()
    except OSError:
        return []
    try:
        f = cdfspec.decode(post, strict=True)
    except cdfspec.CDFError as e:
        return [prob("decode_grammar", "file after enddef of scope %d violates the format grammar: %s" % (sc["scope"], e))]
    out = []
    pb = np.frombuffer(pre, dtype=np.uint8)
    qb = np.frombuffer(post, dtype=np.uint8)
    for v, xt, pat in sc["vars"]:
        if v >= len(f.vars):
            continue
        sz = M.XT_SIZE[xt]
        off = cdfspec.var_element_offsets(f, v).reshape(-1)
        inside = (off + sz <= len(pre)) & (off + sz <= len(post))
        if not inside.any():
            stats.add("nofill_added_beyond_old_eof")
            continue
        pos = off[inside][:, None] + np.arange(sz)[None, :]
        patb = np.frombuffer(pat, dtype=np.uint8)[None, :]
        pre_fill = (pb[pos] == patb).all(axis=1)
        post_fill = (qb[pos] == patb).all(axis=1)
        if pre_fill.all():
            stats.add("nofill_added_old_bytes_already_fill_pattern")
            continue
        stats.add("nofill_added_checked_on_bytes")
        if post_fill.all():
            out.append(prob("nofill_filled", "scope %d: variable %d was added in no-fill mode, but its %d elements that lie inside the old file "
                            "extent all hold its fill pattern %s after enddef (%d of them did before)" % (
                                sc["scope"], v, int(inside.sum()), pat.hex(), int(pre_fill.sum())), xt=xt))
    return out


def run_case(ctx, case):
    p, fm, labels, nontrivial, snapchecks = build(case)
    pool = ctx.pool("asan", nprocs=4)
    res, d = pool.run(p.s, keepdir=True)
    try:
        probs = p.evaluate(res)
        if not probs:
            extra = set()
            for sc in snapchecks:
                probs += nofill_snapshot_check(d, sc, extra)
            labels |= extra
        if not probs:
            probs += decode_compare(os.path.join(d, "final"), fm, "independent decode of closed file")
    finally:
        shutil.rmtree(d, ignore_errors=True)
    ctx.count(*labels)
    if nontrivial:
        ctx.nontrivial(runner.case_hash(case))
    ctx.sample({"case": case, "script_head": p.s.lines[:40]})
    return probs


def case_script(case):
    return build(case)[0].s.text("<dir>")[0]


def coverage_extra(stats, tier):
    return {"generator_switches": dict(SWITCHES)}


def campaign(ctx):
    n = {"quick": 450, "thorough": 2500}[ctx.tier]     # per worker
    runner.run_hypothesis(ctx, case_strategy(ctx.tier), runner.guarded(run_case), n)


if __name__ == "__main__":
    runner.main("checks.c16", PROP, default_workers=8, nt_floor=20)
