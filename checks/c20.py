#!/usr/bin/env python3-vt
"""C20 - offline utilities (ncvalidator, cdfdiff, ncmpidiff, ncmpidump, ncoffsets, ncmpigen) agree with the library
and the format.

Base files: written by the library (pncx pool, C03-style programs, different alignments) or by the independent encoder
pv/cdfspec.py (random legal layouts).  Derived files by decode -> edit -> re-encode: (a) single logical edits, (b) pure
layout changes, (c) byte-level specification violations of the header.  Every tool comparison is one *unit*
{"base": {"hex"}, "derived": {...}, "tool": ...}; run_case() re-runs one unit from JSON.

Own main() (interface of runner.main: --tier, --seed / VERIF_SEED, --replay, known findings, regression replays,
evidence): tools are separate processes, the campaign runs them from 16 worker processes.
"""
import os, sys, json, time, argparse, subprocess, shutil, hashlib, re, collections, tempfile, signal, struct, traceback, zlib
import multiprocessing
sys.path.insert(0, os.path.dirname(os.path.dirname(os.path.abspath(__file__))))
import numpy as np
from pv import runner
from pv import cdfspec as C
from pv import cdl as CDL
from pv.pool import BASE_ENV, Script, hx, PoolError
from pv.c19seeds import field_map

PROP = "C20"
VERIF = runner.VERIF
RULE = ("Hypothesis-generated groups: one base file (library-written through pncx with enddef/_enddef/alignment hints, k=1..2, "
        "or cdfspec-encoded with random header pad / alignments / gaps / gap bytes / (tag,0) lists; CDF-1/2/5; 0-5 dims, 0-4 "
        "fixed+record variables of every legal type, global and variable attributes of every legal type; CDL-safe ASCII or "
        "UTF-8 names) x 4 derived files: (a) single logical edit (data value incl. last record, attribute value/type/length/"
        "deletion, dim/var/att name, dimension length, numrecs, format version), (b) pure layout change, (c) header violation "
        "(bad tag, name/value padding, nelems+1, begins, type code, truncation, negative length, dimid, magic, second/"
        "misplaced record dimension).  Units: ncvalidator -q on every file; cdfdiff -q / ncmpidiff -q (k=1..3) on identical, "
        "(a), (b) pairs in both argument orders; ncmpidump -p 9,17 parsed by pv/cdl.py vs the decoder; ncoffsets -sg[r] vs "
        "decoded begins/sizes/gaps; ncmpigen -v fmt -o of the dump vs the original logical content.  Non-trivial = an (a) "
        "pair differing in exactly one element of a variable with >1 record, or a (b) pair whose variable offsets all "
        "differ; distinct = distinct (base, derived, tool, k, order) hash.")
ASSUMPTIONS = [
    "single node, local POSIX/tmpfs files, OpenMPI 4.1.4 with ROMIO (OMPI_MCA_io=romio321); MPI tools run as singletons or under mpiexec -n k",
    "floating-point values are finite (no NaN/Inf: ncmpidiff compares with C '!=', ncmpidump prints platform text for them) and every "
    "value edit changes the numeric value (not only the sign of zero)",
    "every element of every variable is written (no reliance on fill mode); gaps may hold arbitrary bytes",
    "ncmpidump/ncmpigen parts use CDL-safe content: ASCII identifier names that are not CDL keywords, character data without NUL "
    "(documented BUG: C-string treatment) and, in variables, without newline (documented BUG: multidimensional character arrays)",
    "CDL round trip (ncmpigen) only for files whose attributes have the six classic types and non-zero length (ncmpidump prints "
    "zero-length attributes as \"\"; ncmpigen man page: CDL has no unsigned / 64-bit constants) and whose 64-bit integer data fit in 2^53",
    "a floating-point value within machine epsilon of the fill value may be printed as '_' (deliberate in vardata.c, inherited from ncdump); "
    "the generator produces exact fill values only",
    "a printed decimal is compared after parsing it back to binary32/binary64 (9 / 17 significant digits round-trip exactly)",
    "validator classes asserted are those ncvalidator.c checks or the man page names; the tag of an EMPTY list is documented there as not checked and is not asserted",
    "the serial tools run with RLIMIT_AS = 1 GiB and RLIMIT_CPU = 30 s (count fields of malformed headers are used by ncvalidator as allocation sizes "
    "without bound; resource exhaustion on malformed input belongs to C19)",
    "an MPI_Init failure of a tool process (OpenMPI run-time, recognised by its message) is retried, never judged",
]

TOOLS = ("ncvalidator", "cdfdiff", "ncmpidiff", "ncmpidump", "ncoffsets", "ncmpigen")

# ---------------------------------------------------------------------------------------------------------------
# exclusion machinery (helpers of the match functions)
def _target(unit):
    d = unit.get("derived") or None
    return bytes.fromhex(d["hex"] if d else unit["base"]["hex"])


def _has_tag0(unit, info, fb):
    try:
        return bool(C.decode(_target(unit)).list_style)
    except C.CDFError:
        return False


def dbl_eq_not_fill(v, fill):
    """64-bit integer value that differs from the fill value but equals it after conversion to double"""
    return int(v) != int(fill) and float(int(v)) == float(int(fill))


def _dump64(unit, info, fb, what):
    try:
        f, data = load(_target(unit))
    except C.CDFError:
        return False
    if what == "att":
        return any(a.xtype in (10, 11) and any(abs(int(x)) > 2 ** 53 for x in a.values) for _, lst, i in all_atts(f) for a in [lst[i]])
    for v, d in zip(f.vars, data):
        if v.xtype in (10, 11) and not (f.is_record(v) and not f.numrecs):
            has, fv = fill_of(f, v)
            if has and any(dbl_eq_not_fill(x, fv) for x in d.reshape(-1)):
                return True
    return False


def _att_trailing_nl(unit):
    try:
        f = C.decode(_target(unit))
    except C.CDFError:
        return False
    return any(a.xtype == C.NC_CHAR and a.values.endswith(b"\n") for _, lst, i in all_atts(f) for a in [lst[i]])


def _ext_fill(unit):
    try:
        f, data = load(_target(unit))
    except C.CDFError:
        return False
    for v, d in zip(f.vars, data):
        if v.xtype > 6 and not (f.is_record(v) and not f.numrecs):
            has, fv = fill_of(f, v)
            if has and bool((d == fv).any()):
                return True
    return False


# Named exclusions: confirmed findings that are NOT fixed in /repo; the campaign skips exactly the unit / generator class named
# here and counts it as excluded_<name>; the saved replay under /verif/replays/C20 runs WITHOUT exclusions.
EXCLUSIONS = {}

# Findings confirmed by this check on the pinned tree and since FIXED in /repo (patches prepared in work/c20/fixes/NN-*.diff): their
# exclusions are retired, i.e. the campaign exercises these classes again and the replays in /verif/replays/C20 guard the fixes.  To run
# the campaign on a tree that lacks one of the fixes: C20_EXTRA_EXCLUSIONS=name[,name...] (or move the entry back up).
RETIRED_EXCLUSIONS = {
    # F-A ncmpidump.c pr_att(): every numeric attribute is fetched with ncmpi_get_att_double and cast back in pr_att_vals():
    #     NC_INT64 / NC_UINT64 attribute values beyond 2^53 are printed wrong (18446744073709551614 as 0ULL).
    #     replay: replays/C20/dump-int64-att-via-double.json
    "dump_att64_via_double": {"what": "ncmpidump prints NC_INT64/NC_UINT64 attribute values through double (wrong beyond 2^53)",
                              "match": lambda u, i, fb: u["tool"] in ("ncmpidump", "ncmpigen") and _dump64(u, i, fb, "att")},
    # F-B vardata.c PRINT_VAL(): `double fillval == val` compares 64-bit integers after conversion to double: values next to the
    #     fill value (INT64_MAX-1.., UINT64_MAX, -2^63..) are printed as '_'.  replay: replays/C20/dump-int64-near-fill-as-fill.json
    "dump_fill64_via_double": {"what": "ncmpidump prints 64-bit integer data next to the fill value as '_' (comparison in double)",
                               "match": lambda u, i, fb: u["tool"] in ("ncmpidump", "ncmpigen") and _dump64(u, i, fb, "fill")},
    # F-C ncvalidator.c val_fetch(): zero-fills past EOF and nothing relates the parsed header to the file size: a file cut inside
    #     its header is reported valid whenever the zero-filled remainder parses.  replay: replays/C20/validator-truncated-header.json
    "validator_truncated_header": {"what": "ncvalidator accepts files truncated inside the header",
                                   "match": lambda u, i, fb: u["tool"] == "ncvalidator" and (u.get("derived") or {}).get("cls") == "c_truncated"},
    # F-C2 ncvalidator.c hdr_get_NON_NEG()/val_get_NC_dim(): a CDF-5 dimension length with the sign bit set (negative INT64) is read with
    #     get_uint64, cast to long long and never checked.  replay: replays/C20/validator-negative-dimlen-cdf5.json
    "validator_negative_dimlen": {"what": "ncvalidator accepts a negative CDF-5 dimension length (always when no variable uses the dimension, sometimes when one does)",
                                  "match": lambda u, i, fb: u["tool"] == "ncvalidator" and (u.get("derived") or {}).get("cls") == "c_neg_dimlen"},
    # F-D cdfdiff.c: `k = i % nattrs[1]` (global and per-variable attribute loops) divides by zero when one file has attributes
    #     and the other has none -> SIGFPE.  replay: replays/C20/cdfdiff-empty-attlist-sigfpe.json
    "cdfdiff_empty_attlist_fpe": {"what": "cdfdiff dies with SIGFPE when exactly one of the two attribute lists is empty",
                                  "match": lambda u, i, fb: u["tool"] == "cdfdiff" and (u.get("derived") or {}).get("kind") == "a_att_del" and i.get("natts_left") == 0},
    # F-E ncmpidiff.c: the three `switch (xtype[0])` statements have no `case NC_BYTE`: NC_BYTE attributes and variables are never
    #     compared.  replay: replays/C20/ncmpidiff-byte-var-not-compared.json, ncmpidiff-byte-att-not-compared.json
    "ncmpidiff_byte_not_compared": {"what": "ncmpidiff never compares the values of NC_BYTE attributes and variables",
                                    "match": lambda u, i, fb: u["tool"] == "ncmpidiff" and (u.get("derived") or {}).get("kind") in ("a_value", "a_value_lastrec", "a_att_value")
                                    and i.get("xt") == C.NC_BYTE},
    # F-F cdfdiff.c: the number of records is never compared (the record dimension has length 0 in both headers) and the record
    #     loop runs over the FIRST file's numrecs.  replay: replays/C20/cdfdiff-numrecs-not-compared.json
    "cdfdiff_numrecs_not_compared": {"what": "cdfdiff does not compare the number of records",
                                     "match": lambda u, i, fb: u["tool"] == "cdfdiff" and (u.get("derived") or {}).get("kind") == "a_numrecs"},
    # F-H getfill.c nc_fill()/nc_putfill(): no case for NC_UBYTE, NC_USHORT, NC_UINT, NC_INT64, NC_UINT64: a '_' in the data of such a
    #     variable (ncmpidump prints the fill value so) is reported as 'nc_fill: unrecognized type', nothing is stored (0 ends up in
    #     the file) and the exit status stays 0.  replay: replays/C20/ncmpigen-fill-of-cdf5-types-not-stored.json
    "ncmpigen_fill_cdf5_types": {"what": "ncmpigen does not store '_' (fill value) for variables of the CDF-5 types",
                                 "match": lambda u, i, fb: u["tool"] == "ncmpigen" and _ext_fill(u)},
    # F-I ncmpidump.c pr_att_string(): after every newline it prints `\n",` and opens a new string, also when the newline is the LAST
    #     character, so the value ends with an empty string ""; ncmpigen turns an empty string constant into one NUL character: a text
    #     attribute ending in '\n' comes back one character longer.  replay: replays/C20/gen-char-att-trailing-newline.json
    "gen_char_att_trailing_newline": {"what": "text attribute ending with a newline grows by a NUL in the ncmpidump -> ncmpigen round trip",
                                      "match": lambda u, i, fb: u["tool"] == "ncmpigen" and _att_trailing_nl(u)},
    # F-G ncoffsets.c hdr_get_NC_{dim,attr,var}array: `if (ndefined == 0) { if (type != NC_UNSPECIFIED) NC_ENOTNC }`: an empty list
    #     written as (tag, 0), which the library, ncvalidator, cdfdiff, ncmpidiff and ncmpidump accept, is refused.
    #     replay: replays/C20/ncoffsets-tag0-empty-list.json
    "ncoffsets_tag0_list": {"what": "ncoffsets refuses files whose empty list is encoded as (tag, 0)",
                            "match": lambda u, i, fb: u["tool"] == "ncoffsets" and _has_tag0(u, i, fb)},
}
for _n in [x for x in os.environ.get("C20_EXTRA_EXCLUSIONS", "").split(",") if x]:
    if _n == "all":
        EXCLUSIONS.update(RETIRED_EXCLUSIONS)
    elif _n in RETIRED_EXCLUSIONS:
        EXCLUSIONS[_n] = RETIRED_EXCLUSIONS[_n]
ACTIVE = set()


def excl(name):
    return name in ACTIVE


# ---------------------------------------------------------------------------------------------------------------
# tool runner
class ToolResult:
    def __init__(self, rc, out, err, cmd, hang=False):
        self.rc, self.out, self.err, self.cmd, self.hang = rc, out, err, cmd, hang

    def brief(self):
        return "rc=%s cmd=%s stdout=%r stderr=%r" % (self.rc, " ".join(os.path.basename(c) if i == 0 else c for i, c in enumerate(self.cmd))[-300:],
                                                      self.out[-300:].decode(errors="replace"), self.err[-400:].decode(errors="replace"))


MPI_INIT_FAIL = re.compile(rb"MPI_INIT failed|ompi_mpi_init|ompi_rte_init|orte_init failed|opal_init|PMIX ERROR|ORTE_ERROR_LOG|unable to (?:create|open).*session", re.I)
MPI_TOOLS = ("ncmpidiff", "ncmpidump", "ncmpigen")


def _serial_limits():
    """serial tools (ncvalidator, cdfdiff, ncoffsets) run with 1 GiB of address space and 30 s of CPU: a header count field taken
    from a malformed file then fails in malloc (the tool rejects the file) instead of exhausting the machine"""
    import resource
    resource.setrlimit(resource.RLIMIT_AS, (1 << 30, 1 << 30))
    resource.setrlimit(resource.RLIMIT_CPU, (30, 30))
    resource.setrlimit(resource.RLIMIT_CORE, (0, 0))


class Tools:
    def __init__(self, builddir, scratch):
        self.bin = os.path.join(builddir, "bin")
        self.scratch = scratch
        os.makedirs(scratch, exist_ok=True)
        self.tmp = os.path.join(scratch, "ompi")
        os.makedirs(self.tmp, exist_ok=True)
        env = dict(os.environ)
        env.update(BASE_ENV)
        env.update({"OMPI_MCA_ess_singleton_isolated": "1", "OMPI_MCA_pml": "ob1", "OMPI_MCA_orte_tmpdir_base": self.tmp, "TMPDIR": self.tmp})
        for k in ("PNETCDF_HINTS", "PNETCDF_SAFE_MODE", "PNETCDF_VERBOSE_DEBUG_MODE"):
            env.pop(k, None)
        self.env = env
        self.nfile = 0
        self.launches = collections.Counter()
        self.seconds = collections.Counter()
        self.slowest = {}

    def path(self, stem, ext=".nc"):
        self.nfile += 1
        return os.path.join(self.scratch, "%s%d%s" % (stem, self.nfile, ext))

    def write(self, stem, data, ext=".nc"):
        p = self.path(stem, ext)
        with open(p, "wb") as f:
            f.write(data)
        return p

    def run(self, tool, args, k=1, timeout=90):
        exe = os.path.join(self.bin, tool)
        cmd = [exe] + list(args)
        if k > 1:
            cmd = ["mpiexec", "--oversubscribe", "-n", str(k)] + cmd
        last = None
        t0 = time.time()
        try:
            return self._run(tool, cmd, k, timeout)
        finally:
            dt = time.time() - t0
            self.seconds[tool] += dt
            if dt > self.slowest.get(tool, (0, 0))[0]:
                self.slowest[tool] = (round(dt, 2), k)

    def _run(self, tool, cmd, k, timeout):
        last = None
        for attempt in range(4):
            self.launches[tool] += 1
            try:
                p = subprocess.Popen(cmd, env=self.env, cwd=self.scratch, stdin=subprocess.DEVNULL, stdout=subprocess.PIPE,
                                     stderr=subprocess.PIPE, start_new_session=True, preexec_fn=None if tool in MPI_TOOLS else _serial_limits)
                try:
                    out, err = p.communicate(timeout=timeout)
                except subprocess.TimeoutExpired:
                    try:
                        os.killpg(p.pid, signal.SIGKILL)
                    except OSError:
                        pass
                    out, err = p.communicate()
                    last = ToolResult(None, out, err, cmd, hang=True)
                    continue
                last = ToolResult(p.returncode, out, err, cmd)
            except OSError as e:
                last = ToolResult(None, b"", str(e).encode(), cmd)
                continue
            if (tool in MPI_TOOLS or k > 1) and last.rc != 0 and MPI_INIT_FAIL.search(err):
                self.launches["mpi_init_retry"] += 1
                continue
            return last
        return last


# ---------------------------------------------------------------------------------------------------------------
# model helpers (all through the independent codec)
def load(b):
    """strict decode + data; raises C.CDFError"""
    f = C.decode(b)
    data = [C.read_var(b, f, i) for i in range(len(f.vars))]
    return f, data


def content_key(f, data):
    return (json.dumps(f.logical(), default=lambda o: o.hex() if isinstance(o, (bytes, bytearray)) else str(o), sort_keys=True),
            tuple(np.ascontiguousarray(d).tobytes() for d in data))


def same_content(fa, da, fb, db):
    return fa.version == fb.version and content_key(fa, da) == content_key(fb, db)


def clone(f):
    g = C.CDFFile(version=f.version, numrecs=f.numrecs, streaming=f.streaming, list_style=dict(f.list_style))
    g.dims = [C.Dim(d.name, d.length) for d in f.dims]
    g.gatts = [C.Att(a.name, a.xtype, a.values if a.xtype == C.NC_CHAR else a.values.copy()) for a in f.gatts]
    g.vars = [C.Var(v.name, v.xtype, v.dimids, [C.Att(a.name, a.xtype, a.values if a.xtype == C.NC_CHAR else a.values.copy()) for a in v.atts],
                    v.vsize, v.begin) for v in f.vars]
    return g


def fix_list_style(f):
    """list_style entries only make sense for empty lists (and variable indices that exist)"""
    ls = {}
    for k, v in f.list_style.items():
        if k == "dims" and not f.dims or k == "gatts" and not f.gatts or k == "vars" and not f.vars:
            ls[k] = v
        elif isinstance(k, tuple) and k[1] < len(f.vars) and not f.vars[k[1]].atts:
            ls[k] = v
    f.list_style = ls


def encode(f, data, lay):
    """lay = {"header_pad","var_align","rec_align","gaps":{str(i):n},"tag0":[keys],"fill": hex or None}"""
    f.list_style = {}
    for k in lay.get("tag0", []):
        f.list_style[tuple(k) if isinstance(k, list) else k] = "tag0"
    fix_list_style(f)
    rec = f.record_vars()
    gaps = {}
    for k, g in (lay.get("gaps") or {}).items():
        i = int(k)
        if i < len(f.vars) and (i not in rec or i == rec[0]):
            gaps[i] = 4 * int(g)
    C.assign_layout(f, header_pad=lay.get("header_pad", 0), var_align=lay.get("var_align", 4), rec_align=lay.get("rec_align", 4), gaps=gaps)
    fill = bytes.fromhex(lay["fill"]) if lay.get("fill") else None
    return C.encode(f, {i: d for i, d in enumerate(data)}, fill_gap=fill)


INT_RANGE = {1: (-128, 127), 3: (-32768, 32767), 4: (-2 ** 31, 2 ** 31 - 1), 7: (0, 255), 8: (0, 65535), 9: (0, 2 ** 32 - 1),
             10: (-2 ** 63, 2 ** 63 - 1), 11: (0, 2 ** 64 - 1)}
NC_FILL = {1: -127, 2: 0, 3: -32767, 4: -2147483647, 5: 9.9692099683868690e+36, 6: 9.9692099683868690e+36,
           7: 255, 8: 65535, 9: 4294967295, 10: -9223372036854775806, 11: 18446744073709551614}
PRINTABLE = bytes(range(0x20, 0x7F))


def gen_values(xt, n, seed, style):
    """n external values of type xt: a pure function of the arguments.  numpy array of NP_DTYPE[xt] (bytes for NC_CHAR)."""
    rs = np.random.RandomState((seed * 2654435761 + xt * 97 + n) & 0x7FFFFFFF)
    if xt == C.NC_CHAR:
        if style == "wide":
            pool = bytes(range(256))
        elif style == "cdlnl":
            pool = PRINTABLE + b"\n\t"
        else:
            pool = PRINTABLE
        return bytes(pool[i] for i in rs.randint(0, len(pool), size=n))
    dt = np.dtype(C.NP_DTYPE[xt])
    if dt.kind in "iu":
        lo, hi = INT_RANGE[xt]
        out = []
        for _ in range(n):
            r = rs.randint(0, 100)
            if r < 55:
                v = int(rs.randint(max(lo, -100), min(hi, 200) + 1))
            elif r < 80:
                v = lo + int.from_bytes(rs.bytes(8), "big") % (hi - lo + 1)
            elif r < 92:
                v = [lo, hi, 0, min(hi, 1), lo + 1, hi - 1][rs.randint(0, 6)]
            else:
                v = NC_FILL[xt]
            if style == "safe53" and abs(v) > 2 ** 53:
                v = v % (2 ** 53) * (1 if v > 0 else -1)
            out.append(max(lo, min(hi, v)))
        return np.array(out, dtype=dt)
    # floating point, finite
    fin = np.finfo(dt.newbyteorder("="))
    out = np.zeros(n, dtype=dt)
    for i in range(n):
        r = rs.randint(0, 100)
        if r < 30:
            v = float(rs.randint(-50, 51))
        elif r < 55:
            v = rs.randint(-10000, 10001) / 10.0 ** rs.randint(1, 5)
        elif r < 85:
            raw = rs.bytes(dt.itemsize)
            v = np.frombuffer(raw, dtype=dt)[0]
            if not np.isfinite(v):
                v = 1.5
        elif r < 95:
            v = [fin.max, -fin.max, fin.tiny, fin.tiny / 4, -0.0, fin.eps, 1 + fin.eps, 1e-5][rs.randint(0, 8)]
        else:
            v = NC_FILL[xt]
        out[i] = v
    return out


# ---------------------------------------------------------------------------------------------------------------
# names (pure functions of drawn integers)
import unicodedata
CDL_FIRST = "abcdefghijklmnopqrstuvwxyzABCDEFGHXYZ"
CDL_REST = "abcdefghijklmnopqrstuvwxyz0123456789_ABCXYZ"
CDL_MID = "-.+@"
WIDE_FIRST = list("abcXYZ_") + list("äöüéñÅ") + list("αβγΩ") + list("жшЯ") + list("中文字")
WIDE_REST = WIDE_FIRST + list("019") + list(".-+@ ")


def mk_name(style, code, taken):
    """deterministic name from an integer; unique w.r.t. `taken` (set of bytes)"""
    n = 1 + code % 7
    code //= 7
    if style == "wide":
        s = WIDE_FIRST[code % len(WIDE_FIRST)]
        code //= len(WIDE_FIRST)
        for _ in range(n - 1):
            s += WIDE_REST[code % len(WIDE_REST)]
            code //= len(WIDE_REST)
        s = unicodedata.normalize("NFC", s.rstrip(" ") or "w")
    else:
        s = CDL_FIRST[code % len(CDL_FIRST)]
        code //= len(CDL_FIRST)
        for i in range(n - 1):
            if i == 1 and code % 11 == 0:
                s += CDL_MID[code % 4]
            else:
                s += CDL_REST[code % len(CDL_REST)]
            code //= len(CDL_REST)
        s = s.rstrip("-.+@") or "q"
        if s.lower() in CDL.RESERVED:
            s += "_x"
    b = s.encode("utf-8")
    k = 0
    while b in taken:
        k += 1
        b = s.encode("utf-8") + b"%d" % k
    taken.add(b)
    return b


# ---------------------------------------------------------------------------------------------------------------
# Hypothesis strategy of a group
from hypothesis import strategies as st

A_KINDS = ["a_value", "a_value", "a_value_lastrec", "a_value_lastrec", "a_att_value", "a_att_type", "a_att_len", "a_att_del",
           "a_name_dim", "a_name_var", "a_name_att", "a_dimlen", "a_numrecs", "a_numrecs", "a_version", "a_var_dims", "a_var_dims"]
C_KINDS = ["c_bad_tag", "c_tag0_nelems", "c_name_pad", "c_value_pad", "c_nelems_plus", "c_begins", "c_begin_in_header", "c_bad_type", "c_bad_type",
           "c_truncated", "c_neg_dimlen", "c_dimid", "c_magic", "c_second_unlimited", "c_unlimited_pos"]
ALIGNS = [4, 4, 8, 16, 64, 256, 512]
BIG = 2 ** 48


def chance(draw, pct):
    return draw(st.integers(0, 99)) < pct


@st.composite
def layout_strategy(draw, nvars):
    lay = {"header_pad": draw(st.sampled_from([0, 0, 1, 3, 4, 10, 40, 100, 500])), "var_align": draw(st.sampled_from(ALIGNS)),
           "rec_align": draw(st.sampled_from(ALIGNS)), "gaps": {}, "tag0": [], "fill": None}
    for i in range(nvars):
        if chance(draw, 25):
            lay["gaps"][str(i)] = draw(st.integers(1, 9))
    if chance(draw, 35):
        for k in ["dims", "gatts", "vars"] + [["vatts", i] for i in range(nvars)]:
            if chance(draw, 50):
                lay["tag0"].append(k)
    if chance(draw, 60):
        lay["fill"] = draw(st.sampled_from(["ff", "be", "a55a", "00ff1234", "43444601"]))
    return lay


@st.composite
def att_strategy(draw, version, style, gensafe=False):
    xt = draw(st.sampled_from([t for t in C.legal_types(version) if t <= 6 or not gensafe]))
    if xt == C.NC_CHAR:
        n = draw(st.sampled_from([0, 1, 2, 3, 5, 8, 13][1 if gensafe else 0:]))
    else:
        n = draw(st.sampled_from([0, 1, 1, 1, 2, 3, 4][1 if gensafe else 0:]))
    return {"code": draw(st.integers(0, BIG)), "xt": xt, "n": n, "seed": draw(st.integers(0, 2 ** 31 - 1)),
            "vstyle": "wide" if style == "wide" else draw(st.sampled_from(["cdlnl", "full", "safe53"]))}


@st.composite
def derived_strategy(draw, nvars):
    r = draw(st.integers(0, 99))
    if r < 55:
        kind = draw(st.sampled_from(A_KINDS))
    elif r < 75:
        kind = "b_layout"
    else:
        kind = draw(st.sampled_from(C_KINDS))
    d = {"kind": kind, "p": [draw(st.integers(0, BIG)) for _ in range(4)], "inplace": chance(draw, 50)}
    if kind[0] in "ab":
        d["layout"] = draw(layout_strategy(nvars))
    return d


@st.composite
def group_strategy(draw, tier="quick", kmax=1):
    style = draw(st.sampled_from(["cdl", "cdl", "cdl", "wide"]))
    origin = draw(st.sampled_from(["enc", "lib"]))
    version = draw(st.sampled_from([1, 2, 5]))
    gensafe = style == "cdl" and chance(draw, 60)       # attributes inside the documented CDL domain (classic types, length >= 1)
    nfix = draw(st.integers(0, 4))
    dims = [{"code": draw(st.integers(0, BIG)), "len": draw(st.integers(1, 5))} for _ in range(nfix)]
    has_rec = chance(draw, 65)
    recdim = -1
    if has_rec:
        recdim = draw(st.integers(0, len(dims)))
        dims.insert(recdim, {"code": draw(st.integers(0, BIG)), "len": 0})
    fixed_ids = [i for i, d in enumerate(dims) if d["len"] != 0]
    nv = draw(st.sampled_from([0, 1, 2, 2, 3, 3, 4]))
    vars_ = []
    for _ in range(nv):
        xt = draw(st.sampled_from(list(C.legal_types(version))))
        isrec = has_rec and chance(draw, 55)
        nd = draw(st.integers(0, 3)) if fixed_ids else 0
        vd = [draw(st.sampled_from(fixed_ids)) for _ in range(nd)]
        while vd and int(np.prod([dims[d]["len"] for d in vd])) > 120:
            vd.pop()
        if isrec:
            vd = [recdim] + vd
        atts = [draw(att_strategy(version, style, gensafe)) for _ in range(draw(st.sampled_from([0, 0, 1, 1, 2, 3])))]
        v = {"code": draw(st.integers(0, BIG)), "xt": xt, "dims": vd, "atts": atts, "seed": draw(st.integers(0, 2 ** 31 - 1)),
             "vstyle": "wide" if style == "wide" else ("safe53" if gensafe else draw(st.sampled_from(["full", "safe53", "safe53"]))),
             "coord": chance(draw, 10), "fillatt": draw(st.integers(0, BIG)) if chance(draw, 15) else None}
        vars_.append(v)
    anyrec = any(v["dims"] and v["dims"][0] == recdim for v in vars_)
    numrecs = draw(st.sampled_from([0, 1, 2, 2, 3, 3, 4])) if anyrec else 0
    gatts = [draw(att_strategy(version, style, gensafe)) for _ in range(draw(st.sampled_from([0, 1, 1, 2, 3])))]
    k = draw(st.integers(1, kmax))
    lib = {"k": k, "enddef": draw(st.sampled_from(["enddef", "_enddef", "_enddef", "hints"])),
           "h_minfree": draw(st.sampled_from([0, 1, 10, 100, 512])), "v_align": draw(st.sampled_from(ALIGNS)),
           "v_minfree": draw(st.sampled_from([0, 4, 40])), "r_align": draw(st.sampled_from(ALIGNS)),
           "h_align": draw(st.sampled_from([4, 8, 64, 512, 1024]))}
    spec = {"style": style, "gensafe": gensafe, "origin": origin, "version": version, "numrecs": numrecs, "dims": dims, "gatts": gatts, "vars": vars_,
            "layout": draw(layout_strategy(nv)), "lib": lib,
            "derived": [draw(derived_strategy(nv)) for _ in range(7)],
            "mpik": [draw(st.sampled_from([1, 1, 1, 1, 1, 1, 2, 2, 3])) for _ in range(6)],
            "rev": [chance(draw, 50) for _ in range(6)], "both": [chance(draw, 25) for _ in range(6)],
            "offs_r": chance(draw, 50), "dump_derived": chance(draw, 35), "ident_mpi": chance(draw, 30)}
    return spec


def spec_model(spec):
    """spec -> (CDFFile without layout, data list)"""
    style = spec["style"]
    f = C.CDFFile(version=spec["version"], numrecs=spec["numrecs"])
    taken = set()
    for d in spec["dims"]:
        f.dims.append(C.Dim(mk_name(style, d["code"], taken), d["len"]))

    def mk_atts(lst):
        tk, out = set(), []
        for a in lst:
            vs = a["vstyle"] if a["xt"] == C.NC_CHAR or a["vstyle"] != "cdlnl" else "full"
            if a["xt"] in (10, 11) and style != "wide" and excl("dump_att64_via_double"):
                vs = "safe53"
            vals = gen_values(a["xt"], a["n"], a["seed"], vs)
            out.append(C.Att(mk_name(style, a["code"], tk), a["xt"], vals))
        return out, tk
    f.gatts, _ = mk_atts(spec["gatts"])
    vt = set()
    data = []
    for v in spec["vars"]:
        if v["coord"] and len(v["dims"]) == 1 and f.dims[v["dims"][0]].name not in vt:
            name = f.dims[v["dims"][0]].name
            vt.add(name)
        else:
            name = mk_name(style, v["code"], vt)
        atts, tk = mk_atts(v["atts"])
        var = C.Var(name, v["xt"], v["dims"], atts)
        f.vars.append(var)
        shape = f.var_shape(var)
        n = int(np.prod(shape)) if shape else 1
        vs = v["vstyle"] if v["xt"] != C.NC_CHAR else ("wide" if style == "wide" else "cdl")
        vals = gen_values(v["xt"], n, v["seed"], vs)
        if v["xt"] == C.NC_CHAR:
            arr = np.frombuffer(vals, dtype="S1").reshape(shape)
        else:
            arr = vals.reshape(shape)
        data.append(arr)
        if v["xt"] in (10, 11) and excl("dump_fill64_via_double") and style != "wide":
            # keep 64-bit data away from values that equal the (default) fill value only after conversion to double
            flat = arr.reshape(-1)
            for j in range(flat.size):
                if dbl_eq_not_fill(flat[j], NC_FILL[v["xt"]]):
                    flat[j] = 0
            arr = flat.reshape(shape)
            data[-1] = arr
        if v["xt"] > 6 and style != "wide" and excl("ncmpigen_fill_cdf5_types") and v["seed"] % 2 and spec.get("gensafe"):
            flat = arr.reshape(-1)
            flat[flat == np.array([NC_FILL[v["xt"]]], dtype=flat.dtype)[0]] = 1
            arr = flat.reshape(shape)
            data[-1] = arr
        if v["fillatt"] is not None and b"_FillValue" not in tk and not (v["xt"] > 6 and spec.get("gensafe") and excl("ncmpigen_fill_cdf5_types")):
            code = v["fillatt"]
            if n and code % 3:
                fv = arr.reshape(-1)[code % n:code % n + 1]
                fv = fv.tobytes() if v["xt"] == C.NC_CHAR else fv.copy()
            else:
                fv = gen_values(v["xt"], 1, code % (2 ** 31), vs)
            if v["xt"] in (10, 11) and style != "wide" and (excl("dump_fill64_via_double") or excl("dump_att64_via_double")):
                fv = np.array([int(fv[0]) % (2 ** 53)], dtype=C.NP_DTYPE[v["xt"]])
            var.atts.append(C.Att(b"_FillValue", v["xt"], fv))
    return f, data


# ---------------------------------------------------------------------------------------------------------------
# library-written base file (pncx script)
NATIVE_MT = {1: "schar", 2: "text", 3: "short", 4: "int", 5: "float", 6: "double", 7: "uchar", 8: "ushort", 9: "uint", 10: "longlong", 11: "ulonglong"}


def native_bytes(xt, vals):
    if xt == C.NC_CHAR:
        return vals if isinstance(vals, (bytes, bytearray)) else np.ascontiguousarray(vals).tobytes()
    a = np.ascontiguousarray(vals)
    return a.astype(a.dtype.newbyteorder("=")).tobytes()


def lib_script(spec, f, data):
    lib = spec["lib"]
    k = lib["k"]
    s = Script(k=k)
    kw = {}
    if lib["enddef"] == "hints":
        s.op("info", i="i1", **{"h__nc_var_align_size": hx(str(lib["v_align"])), "h__nc_header_align_size": hx(str(lib["h_align"])),
                                "h__nc_record_align_size": hx(str(lib["r_align"]))})
        kw["info"] = "i1"
    mode = {1: 0, 2: 0x200, 5: 0x20}[f.version]
    s.op("create", step=True, f="f0", path=hx("t.nc"), mode=mode, **kw)
    for d in f.dims:
        s.op("def_dim", step=True, f="f0", name=d.name.hex(), len=d.length)
    for v in f.vars:
        s.op("def_var", step=True, f="f0", name=v.name.hex(), xt=v.xtype, dims=v.dimids, ndims=len(v.dimids))

    def put_atts(vid, atts):
        for a in atts:
            s.op("put_att", step=True, f="f0", v=vid, name=a.name.hex(), xt=a.xtype, mt=NATIVE_MT[a.xtype], n_=a.nelems,
                 hex=native_bytes(a.xtype, a.values).hex())
    put_atts(-1, f.gatts)
    for i, v in enumerate(f.vars):
        put_atts(i, v.atts)
    if lib["enddef"] == "_enddef":
        s.op("_enddef", step=True, f="f0", h_minfree=lib["h_minfree"], v_align=lib["v_align"], v_minfree=lib["v_minfree"], r_align=lib["r_align"])
    else:
        s.op("enddef", step=True, f="f0")
    s.op("begin_indep", step=True, f="f0")
    for i, v in enumerate(f.vars):
        shape = list(f.var_shape(v))
        if any(x == 0 for x in shape):
            continue
        r = i % k
        s.op("buf", ranks=[r], b="b%d" % (i + 1), size=max(1, data[i].size * C.TYPE_SIZE[v.xtype]), hex=native_bytes(v.xtype, data[i]).hex())
        s.op("data", ranks=[r], api="put", form="vara", coll=0, mt=NATIVE_MT[v.xtype], f="f0", v=i,
             start=[0] * len(shape) if shape else None, count=shape if shape else None, buf="b%d" % (i + 1))
        if k > 1:
            s.op("barrier")
    s.op("end_indep", step=True, f="f0")
    s.op("close", step=True, f="f0")
    s.op("snapshot", path=hx("t.nc"), to="final")
    return s


def lib_write(ctx, spec, f, data):
    """-> (bytes or None, note)"""
    s = lib_script(spec, f, data)
    pool = ctx.pool("asan", nprocs=2 if ctx.kmax > 1 else 1)
    res, d = pool.run(s, keepdir=True)
    try:
        bad = []
        for r in range(res.k):
            for n, e in res.by[r].items():
                if n >= 0 and e.get("rc") not in (0, None):
                    bad.append((n, r, e.get("rc")))
        if bad:
            return None, "library script statement failed: %s; script=%s" % (bad[:3], s.lines[:60])
        with open(os.path.join(d, "final"), "rb") as fh:
            return fh.read(), None
    finally:
        shutil.rmtree(d, ignore_errors=True)


# ---------------------------------------------------------------------------------------------------------------
# (a) single logical edits and (b) layout changes on a decoded base (fb, db)
def new_value(xt, old, code, style):
    """a value of type xt that differs numerically from `old`"""
    if xt == C.NC_CHAR:
        pool = bytes(range(256)) if style == "wide" else PRINTABLE
        o = old if isinstance(old, (bytes, bytearray)) else bytes(old)
        c = pool[code % len(pool)]
        if bytes([c]) == o:
            c = pool[(code + 1) % len(pool)]
        return bytes([c])
    dt = np.dtype(C.NP_DTYPE[xt])
    if dt.kind in "iu":
        lo, hi = INT_RANGE[xt]
        o = int(old)
        cands = [o + 1 if o < hi else lo, o - 1 if o > lo else hi, int(gen_values(xt, 1, code % (2 ** 31), "safe53" if style != "wide" else "full")[0]), o ^ 1]
        for i in range(len(cands)):
            v = cands[(code + i) % len(cands)]
            if lo <= v <= hi and v != o and (style == "wide" or abs(v) <= 2 ** 53 or abs(o) > 2 ** 53):
                return np.array([v], dtype=dt)[0]
        return np.array([lo if o != lo else hi], dtype=dt)[0]
    o = float(old)
    with np.errstate(all="ignore"):
        cands = [np.array([o * 2 + 1], dtype=dt)[0], np.array([o + 1], dtype=dt)[0], np.array([-o], dtype=dt)[0], gen_values(xt, 1, code % (2 ** 31), "full")[0],
                 np.array([o * 0.5 + 3], dtype=dt)[0]]
    for i in range(len(cands)):
        v = cands[(code + i) % len(cands)]
        if np.isfinite(v) and float(v) != o:
            return np.array([v], dtype=dt)[0]
    return np.array([1.0 if o != 1.0 else 2.0], dtype=dt)[0]


def all_atts(f):
    """[(owner index (-1 global), list, position)]"""
    out = [(-1, f.gatts, i) for i in range(len(f.gatts))]
    for vi, v in enumerate(f.vars):
        out += [(vi, v.atts, i) for i in range(len(v.atts))]
    return out


def att_setvals(a, vals):
    return C.Att(a.name, a.xtype, vals)


def grow_data(old, newshape, xt, seed, style):
    n = int(np.prod(newshape)) if len(newshape) else 1
    vals = gen_values(xt, n, seed, style)
    new = (np.frombuffer(vals, dtype="S1") if xt == C.NC_CHAR else vals).reshape(newshape).copy()
    sl = tuple(slice(0, min(a, b)) for a, b in zip(old.shape, newshape))
    new[sl] = old[sl]
    return new


def apply_edit(fb, db, base, d, style):
    """-> (derived bytes, info dict) or None when the edit does not apply to this base"""
    kind, p = d["kind"], d["p"]
    f = clone(fb)
    data = [x.copy() for x in db]
    info = {"desc": kind}
    vstyle = "wide" if style == "wide" else "safe53"
    if kind in ("a_value", "a_value_lastrec"):
        cands = [i for i, v in enumerate(f.vars) if data[i].size > 0 and (kind == "a_value" or (f.is_record(v) and (f.numrecs or 0) >= 1))]
        if not cands:
            return None
        i = cands[p[0] % len(cands)]
        v = f.vars[i]
        flat = data[i].reshape(-1)
        if kind == "a_value_lastrec":
            per = flat.size // f.numrecs
            j = (f.numrecs - 1) * per + p[1] % per
        else:
            j = p[1] % flat.size
        old = flat[j]
        nv = new_value(v.xtype, old.tobytes() if v.xtype == C.NC_CHAR else old, p[2], style)
        info.update(var=i, elem=int(j), xt=v.xtype, multi_rec=bool(f.is_record(v) and (f.numrecs or 0) > 1), one_elem=True,
                    desc="%s var %d %r type %s elem %d: %r -> %r" % (kind, i, v.name, C.TYPE_NAME[v.xtype], j, old, nv))
        flat[j] = nv
        data[i] = flat.reshape(data[i].shape)
        if d.get("inplace"):
            off = int(C.var_element_offsets(fb, i).reshape(-1)[j])
            raw = nv if v.xtype == C.NC_CHAR else np.array([nv], dtype=C.NP_DTYPE[v.xtype]).tobytes()
            out = bytearray(base)
            out[off:off + len(raw)] = raw
            info["inplace"] = True
            return bytes(out), info
    elif kind in ("a_att_value", "a_att_type", "a_att_len", "a_att_del"):
        atts = all_atts(f)
        if kind == "a_att_value":
            atts = [t for t in atts if t[1][t[2]].nelems >= 1]
        if kind in ("a_att_type", "a_att_len"):
            atts = [t for t in atts if t[1][t[2]].name != b"_FillValue"]
        if not atts:
            return None
        owner, lst, ai = atts[p[0] % len(atts)]
        a = lst[ai]
        info.update(owner=owner, att=ai, xt=a.xtype)
        if kind == "a_att_value":
            j = p[1] % a.nelems
            if a.xtype == C.NC_CHAR:
                nv = new_value(a.xtype, a.values[j:j + 1], p[2], "cdl" if style != "wide" else "wide")
                vals = a.values[:j] + nv + a.values[j + 1:]
            else:
                vals = a.values.copy()
                vals[j] = new_value(a.xtype, vals[j], p[2], style)
            lst[ai] = att_setvals(a, vals)
            info["desc"] = "%s owner %d att %r type %s elem %d" % (kind, owner, a.name, C.TYPE_NAME[a.xtype], j)
        elif kind == "a_att_type":
            types = [t for t in C.legal_types(f.version) if t != a.xtype]
            nt = types[p[1] % len(types)]
            lst[ai] = C.Att(a.name, nt, gen_values(nt, a.nelems, p[2] % (2 ** 31), "cdl" if style != "wide" else "wide") if nt == C.NC_CHAR
                            else gen_values(nt, a.nelems, p[2] % (2 ** 31), vstyle))
            info.update(xt2=nt, desc="%s owner %d att %r %s -> %s (n=%d)" % (kind, owner, a.name, C.TYPE_NAME[a.xtype], C.TYPE_NAME[nt], a.nelems))
        elif kind == "a_att_len":
            if p[1] % 2 and a.nelems >= 1:
                vals = a.values[:-1]
            else:
                extra = gen_values(a.xtype, 1, p[2] % (2 ** 31), ("cdl" if style != "wide" else "wide") if a.xtype == C.NC_CHAR else vstyle)
                vals = a.values + extra if a.xtype == C.NC_CHAR else np.concatenate([a.values, extra])
            lst[ai] = att_setvals(a, vals)
            info["desc"] = "%s owner %d att %r type %s n %d -> %d" % (kind, owner, a.name, C.TYPE_NAME[a.xtype], a.nelems, len(vals))
        else:
            del lst[ai]
            info.update(natts_left=len(lst), desc="%s owner %d att %r (left %d)" % (kind, owner, a.name, len(lst)))
    elif kind == "a_name_dim":
        if not f.dims:
            return None
        i = p[0] % len(f.dims)
        old = f.dims[i].name
        f.dims[i].name = mk_name(style, p[1], set(x.name for x in f.dims))
        info["desc"] = "%s dim %d %r -> %r" % (kind, i, old, f.dims[i].name)
    elif kind == "a_name_var":
        if not f.vars:
            return None
        i = p[0] % len(f.vars)
        old = f.vars[i].name
        f.vars[i].name = mk_name(style, p[1], set(x.name for x in f.vars))
        info["desc"] = "%s var %d %r -> %r" % (kind, i, old, f.vars[i].name)
    elif kind == "a_name_att":
        atts = [t for t in all_atts(f) if t[1][t[2]].name != b"_FillValue"]
        if not atts:
            return None
        owner, lst, ai = atts[p[0] % len(atts)]
        old = lst[ai].name
        lst[ai].name = mk_name(style, p[1], set(x.name for x in lst) | {b"_FillValue"})
        info.update(owner=owner, desc="%s owner %d att %r -> %r" % (kind, owner, old, lst[ai].name))
    elif kind == "a_dimlen":
        cands = [i for i, x in enumerate(f.dims) if x.length > 0]
        if not cands:
            return None
        i = cands[p[0] % len(cands)]
        L = f.dims[i].length
        nl = L + 1 if (p[1] % 2 or L == 1) else L - 1
        f.dims[i].length = nl
        used = False
        for vi, v in enumerate(f.vars):
            if i in v.dimids:
                used = True
                data[vi] = grow_data(data[vi], f.var_shape(v), v.xtype, p[2] % (2 ** 31), ("cdl" if style != "wide" else "wide") if v.xtype == C.NC_CHAR else vstyle)
        info.update(used=used, desc="%s dim %d %r %d -> %d (used by a variable: %s)" % (kind, i, f.dims[i].name, L, nl, used))
    elif kind == "a_var_dims":
        # one variable is defined on another dimension (same dimension list in both files): of equal length when possible
        # (same shape, other dimension) else of another length (shape changes)
        fixed = [k for k in range(len(f.dims)) if f.dims[k].length > 0]
        cands = [(vi, j) for vi, v in enumerate(f.vars) for j, dmid in enumerate(v.dimids) if f.dims[dmid].length > 0 and len(fixed) >= 2]
        if not cands:
            return None
        vi, j = cands[p[0] % len(cands)]
        v = f.vars[vi]
        old = v.dimids[j]
        others = [k for k in fixed if k != old]
        same = [k for k in others if f.dims[k].length == f.dims[old].length]
        pool_ = same if (same and p[1] % 3 != 0) else others
        new = pool_[p[2] % len(pool_)]
        v.dimids = [new if jj == j else x for jj, x in enumerate(v.dimids)]
        data[vi] = grow_data(data[vi], f.var_shape(v), v.xtype, p[3] % (2 ** 31), ("cdl" if style != "wide" else "wide") if v.xtype == C.NC_CHAR else vstyle)
        info.update(same_shape=f.dims[new].length == f.dims[old].length,
                    desc="%s var %d %r dimension %d: %r -> %r (lengths %d -> %d)" % (kind, vi, v.name, j, f.dims[old].name, f.dims[new].name, f.dims[old].length, f.dims[new].length))
    elif kind == "a_numrecs":
        if not f.record_vars():
            return None
        n = f.numrecs or 0
        nn = n + 1 if (p[1] % 2 or n == 0) else n - 1
        f.numrecs = nn
        for vi in f.record_vars():
            v = f.vars[vi]
            data[vi] = grow_data(data[vi], f.var_shape(v), v.xtype, p[2] % (2 ** 31), ("cdl" if style != "wide" else "wide") if v.xtype == C.NC_CHAR else vstyle)
        info.update(n0=n, n1=nn, desc="%s %d -> %d" % (kind, n, nn))
    elif kind == "a_version":
        used = set(v.xtype for v in f.vars) | set(a.xtype for _, lst, i in all_atts(f) for a in [lst[i]])
        tgt = [v for v in (1, 2, 5) if v != f.version and all(t in C.legal_types(v) for t in used)]
        if not tgt:
            return None
        nvv = tgt[p[0] % len(tgt)]
        info["desc"] = "%s %d -> %d" % (kind, f.version, nvv)
        f.version = nvv
    elif kind == "b_layout":
        lay = dict(d["layout"])
        out = encode(f, data, lay)
        tries = 0
        while out == base and tries < 3:
            lay["header_pad"] = lay.get("header_pad", 0) + 4 * (tries + 1)
            out = encode(f, data, lay)
            tries += 1
        if out == base:
            return None
        info["all_offsets_differ"] = bool(f.vars) and all(a.begin != b.begin for a, b in zip(f.vars, fb.vars))
        info["desc"] = "b_layout begins %s -> %s" % ([v.begin for v in fb.vars], [v.begin for v in f.vars])
        return out, info
    else:
        raise ValueError(kind)
    return encode(f, data, d["layout"]), info


# ---------------------------------------------------------------------------------------------------------------
# (c) specification violations injected at byte level into the header of the base file
def _pk(v, w):
    return (v % (1 << (8 * w))).to_bytes(w, "big")


def inject(base, fb, d):
    """-> (bytes, info) or None.  info["cls"] is the violation class; the result is confirmed to violate the specification
    by the independent decoder (strict decode error or layout problem) before it is used."""
    kind, p = d["kind"], d["p"]
    fm = field_map(base)
    w = 8 if fb.version == 5 else 4
    ow = 4 if fb.version == 1 else 8
    hs = fb.header_size
    out = bytearray(base)
    by = {lab: (o, n) for o, n, lab in fm}

    def val(lab):
        o, n = by[lab]
        return int.from_bytes(base[o:o + n], "big")

    def put(lab, v):
        o, n = by[lab]
        out[o:o + n] = _pk(v, n)
    lists = [("dim_list", len(fb.dims), C.NC_DIMENSION), ("gatt_list", len(fb.gatts), C.NC_ATTRIBUTE), ("var_list", len(fb.vars), C.NC_VARIABLE)]
    lists += [("var[%d].vatt_list" % i, len(v.atts), C.NC_ATTRIBUTE) for i, v in enumerate(fb.vars)]
    info = {"cls": kind}
    if kind == "c_bad_tag":
        if p[0] % 2:
            name, n, tag = lists[p[1] % len(lists)]
            bad = [13, 9, 1, 0x0A000000, 0xFFFFFFFF, 0x0B0B, 256][p[2] % 7]
        else:
            ne = [t for t in lists if t[1] > 0]
            if not ne:
                return None
            name, n, tag = ne[p[1] % len(ne)]
            bad = [t for t in (C.NC_DIMENSION, C.NC_VARIABLE, C.NC_ATTRIBUTE) if t != tag][p[2] % 2]
        put(name + ".tag", bad)
        info["desc"] = "%s.tag = 0x%X (nelems %d)" % (name, bad, n)
    elif kind == "c_tag0_nelems":
        ne = [t for t in lists if t[1] > 0]
        if not ne:
            return None
        name, n, tag = ne[p[1] % len(ne)]
        put(name + ".tag", 0)
        info["desc"] = "%s.tag = 0 with nelems %d" % (name, n)
    elif kind == "c_name_pad":
        cands = [lab[:-9] for o, n, lab in fm if lab.endswith(".name_len") and val(lab) % 4]
        if not cands:
            return None
        pfx = cands[p[0] % len(cands)]
        ln = val(pfx + ".name_len")
        o, n = by[pfx + ".name"]
        pos = o + ln + p[1] % (n - ln)
        out[pos] = [1, 0x20, 0xFF, 0x41][p[2] % 4]
        info["desc"] = "%s name padding byte at %d = 0x%02X" % (pfx, pos, out[pos])
    elif kind == "c_value_pad":
        cands = []
        for o, n, lab in fm:
            if lab.endswith(".values"):
                nb = val(lab[:-7] + ".nelems") * C.TYPE_SIZE[val(lab[:-7] + ".nc_type")]
                if nb % 4:
                    cands.append((o, n, nb, lab))
        if not cands:
            return None
        o, n, nb, lab = cands[p[0] % len(cands)]
        pos = o + nb + p[1] % (n - nb)
        out[pos] = [1, 0x20, 0xFF, 0x41][p[2] % 4]
        info["desc"] = "%s padding byte at %d = 0x%02X" % (lab, pos, out[pos])
    elif kind == "c_nelems_plus":
        ne = [t for t in lists if t[1] > 0]
        if not ne:
            return None
        name, n, tag = ne[p[1] % len(ne)]
        put(name + ".nelems", n + 1)
        info["desc"] = "%s.nelems %d -> %d" % (name, n, n + 1)
    elif kind == "c_begins":
        pairs = []
        for seq in (fb.fixed_vars(), fb.record_vars()):
            seq = [i for i in seq if fb.var_nbytes_unpadded(fb.vars[i]) > 0]
            pairs += list(zip(seq, seq[1:]))
        if not pairs:
            return None
        a, b = pairs[p[0] % len(pairs)]
        nb = fb.vars[a].begin if p[1] % 2 else max(fb.vars[a].begin - 4 * (1 + p[2] % 3), 0)
        put("var[%d].begin" % b, nb)
        info["desc"] = "var[%d].begin %d -> %d (var[%d].begin %d, size %d)" % (b, fb.vars[b].begin, nb, a, fb.vars[a].begin, fb.var_nbytes_unpadded(fb.vars[a]))
    elif kind == "c_begin_in_header":
        if not fb.vars:
            return None
        seq = fb.fixed_vars() or fb.record_vars()
        i = seq[0]
        nb = 4 * (p[1] % (hs // 4))
        put("var[%d].begin" % i, nb)
        info["desc"] = "var[%d].begin %d -> %d (header size %d)" % (i, fb.vars[i].begin, nb, hs)
    elif kind == "c_bad_type":
        cands = [lab for o, n, lab in fm if lab.endswith(".nc_type")]
        if not cands:
            return None
        lab = cands[p[0] % len(cands)]
        # values outside 1..11, and for CDF-1/2 the CDF-5-only types 7..11 (weighted: the only format-dependent rule)
        bad = [0, 12, 13, 255, 0x01000000, 0xFFFFFFFF] + ([7, 8, 9, 10, 11, 7, 9, 10, 11] if fb.version != 5 else [])
        t = bad[p[1] % len(bad)]
        put(lab, t)
        info["desc"] = "%s = %d (CDF-%d)" % (lab, t, fb.version)
    elif kind == "c_truncated":
        if hs <= 9:
            return None
        cut = 8 + p[1] % (hs - 8)
        out = out[:cut]
        info.update(cut=cut, tail_zero=not any(base[cut:hs]), desc="file cut at %d of header size %d (removed header bytes all zero: %s)" % (cut, hs, not any(base[cut:hs])))
    elif kind == "c_neg_dimlen":
        # CDF-1/2 readers treat the 32-bit length as unsigned in practice (CDF-2 dimensions up to 2^32-4 are documented); only the
        # 64-bit NON_NEG of CDF-5 is unambiguously negative
        if not fb.dims or fb.version != 5:
            return None
        i = p[0] % len(fb.dims)
        v = [-1, -(2 ** (8 * w - 1)), -(2 ** (8 * w - 1)) + fb.dims[i].length, -5][p[1] % 4]
        put("dim[%d].length" % i, v)
        info.update(used=any(i in x.dimids for x in fb.vars), desc="dim[%d].length %d -> %d (used by a variable: %s)" % (i, fb.dims[i].length, v, any(i in x.dimids for x in fb.vars)))
    elif kind == "c_dimid":
        cands = [lab for o, n, lab in fm if ".dimid[" in lab]
        if not cands:
            return None
        lab = cands[p[0] % len(cands)]
        v = [len(fb.dims), len(fb.dims) + 5, 2 ** 31 - 1, -1][p[1] % 4]
        put(lab, v)
        info["desc"] = "%s = %d (ndims %d)" % (lab, v, len(fb.dims))
    elif kind == "c_magic":
        if p[0] % 2:
            out[3] = [0, 3, 4, 6, 7, 255][p[1] % 6]
        else:
            out[p[1] % 3] = [0x00, 0x63, 0x48, 0xFF][p[2] % 4]
        info["desc"] = "magic %r" % bytes(out[:4])
    elif kind == "c_second_unlimited":
        cands = [i for i, x in enumerate(fb.dims) if x.length > 0]
        if fb.rec_dimid() < 0 or not cands:
            return None
        i = cands[p[0] % len(cands)]
        put("dim[%d].length" % i, 0)
        info["desc"] = "dim[%d].length %d -> 0 (dim[%d] is the record dimension)" % (i, fb.dims[i].length, fb.rec_dimid())
    elif kind == "c_unlimited_pos":
        rd = fb.rec_dimid()
        cands = [(i, j) for i, v in enumerate(fb.vars) for j in range(1, len(v.dimids))]
        if rd < 0 or not cands:
            return None
        i, j = cands[p[0] % len(cands)]
        put("var[%d].dimid[%d]" % (i, j), rd)
        info["desc"] = "var[%d].dimid[%d] = %d (record dimension)" % (i, j, rd)
    else:
        raise ValueError(kind)
    out = bytes(out)
    if out == base:
        return None
    why = spec_violation(out)
    if why is None:
        return None
    info["why"] = why[:200]
    return out, info


def spec_violation(b):
    """None if the independent decoder finds the file specification-conforming, else the reason"""
    try:
        f = C.decode(b)
    except C.CDFError as e:
        return "decode: %s" % e
    P = [x for x in C.layout_problems(f, len(b))]
    return "layout: %s" % "; ".join(P) if P else None


# ---------------------------------------------------------------------------------------------------------------
# oracles
CLAIMED = {  # violation class -> where ncvalidator claims to check it
    "c_bad_tag": "val_get_NC_tag / 'Invalid NC component tag' (non-empty lists, or a tag outside {0,10,11,12})",
    "c_tag0_nelems": "val_get_NC_*array: tag != NC_X with ndefined > 0",
    "c_name_pad": "man page -x: null-byte padding; hdr_get_name NC_ENULLPAD",
    "c_value_pad": "val_get_NC_attrV NC_ENULLPAD",
    "c_nelems_plus": "consequence: the list is parsed one element too far (confirmed invalid by the independent decoder)",
    "c_begins": "val_NC_check_voff",
    "c_begin_in_header": "compute_var_shape: header size larger than begin of data section",
    "c_bad_type": "val_get_nc_type NC_EBADTYPE",
    "c_truncated": "header = magic numrecs dim_list gatt_list var_list must be present completely",
    "c_neg_dimlen": "NON_NEG fields (format grammar quoted in ncvalidator.c)",
    "c_dimid": "val_get_NC_var / compute_var_shape NC_EBADDIM",
    "c_magic": "val_get_NC: file signature",
    "c_second_unlimited": "val_get_NC_dim NC_EUNLIMIT",
    "c_unlimited_pos": "var_shape64 NC_EUNLIMPOS",
}
TYPE_WORD = {1: "byte", 2: "char", 3: "short", 4: "int", 5: "float", 6: "double", 7: "ubyte", 8: "ushort", 9: "uint", 10: "int64", 11: "uint64"}


def prob(unit, kind, msg, **sig):
    s = {"tool": unit["tool"], "what": kind}
    s.update(sig)
    d = unit.get("derived") or {}
    if d.get("kind") and unit["tool"] in ("cdfdiff", "ncmpidiff"):
        s["edit"] = d["kind"]
    return {"kind": kind, "msg": "%s: %s [%s]" % (unit["tool"], msg, d.get("desc", "base file")), "sig": s, "unit": unit}


def rc_text(r):
    if r.hang:
        return "hang (killed after timeout)"
    if r.rc is not None and r.rc < 0:
        return "killed by signal %d" % -r.rc
    return "exit %s" % r.rc


def fill_of(f, v):
    """(has_fill, value in the variable's external dtype) per the ncmpidump man page"""
    for a in v.atts:
        if a.name == b"_FillValue" and a.xtype == v.xtype and a.nelems == 1:
            return True, (a.values if v.xtype == C.NC_CHAR else a.values[0])
    if v.xtype == C.NC_BYTE:
        return False, None
    if v.xtype == C.NC_CHAR:
        return True, b"\0"
    return True, np.array([NC_FILL[v.xtype]], dtype=C.NP_DTYPE[v.xtype])[0]


def num_matches(tok, val, xt):
    """printed decimal == external value (after parsing the decimal back to the external type)"""
    dt = np.dtype(C.NP_DTYPE[xt])
    if dt.kind in "iu":
        if any(ch in tok.value for ch in ".eE"):
            return False
        return int(tok.value) == int(val)
    try:
        x = float(tok.value)
    except ValueError:
        return False
    with np.errstate(all="ignore"):
        return np.array([x], dtype=dt).tobytes() == np.array([val], dtype=dt).tobytes()


def compare_dump(cd, f, data):
    """[(category, message)] differences between parsed ncmpidump output and the decoded file"""
    D = []
    if cd.fmt != f.version:
        D.append(("dump_format", "format comment CDF-%s, file is CDF-%d" % (cd.fmt, f.version)))
    if len(cd.dims) != len(f.dims):
        D.append(("dump_dim", "%d dimensions printed, %d in file" % (len(cd.dims), len(f.dims))))
    else:
        for (nm, ln, cur), d in zip(cd.dims, f.dims):
            if nm != d.name:
                D.append(("dump_dim", "dimension name %r printed, %r in file" % (nm, d.name)))
            elif d.length == 0:
                if ln is not None or cur != (f.numrecs or 0):
                    D.append(("dump_dim", "record dimension %r printed as %s (%s currently), numrecs %s" % (nm, ln, cur, f.numrecs)))
            elif ln != d.length:
                D.append(("dump_dim", "dimension %r length %s printed, %d in file" % (nm, ln, d.length)))

    def cmp_atts(where, printed, atts):
        if len(printed) != len(atts):
            D.append(("dump_att", "%s: %d attributes printed, %d in file" % (where, len(printed), len(atts))))
            return
        for (nm, toks), a in zip(printed, atts):
            tn = C.TYPE_NAME[a.xtype]
            if nm != a.name:
                D.append(("dump_att", "%s: attribute name %r printed, %r in file" % (where, nm, a.name)))
            elif a.nelems == 0:
                if not (len(toks) == 1 and toks[0].kind == "str" and toks[0].value == b""):
                    D.append(("dump_att", "%s:%r zero-length attribute printed as %r" % (where, nm, [t.text for t in toks])))
            elif a.xtype == C.NC_CHAR:
                sb = CDL.strings_bytes(toks)
                if sb is None or sb != a.values.rstrip(b"\0"):
                    D.append(("dump_att_value:" + tn, "%s:%r text %r printed, %r in file" % (where, nm, sb, a.values)))
            elif len(toks) != a.nelems:
                D.append(("dump_att", "%s:%r %d values printed, %d in file" % (where, nm, len(toks), a.nelems)))
            else:
                for j, (t, v) in enumerate(zip(toks, a.values)):
                    if t.kind != "num" or t.xtype != a.xtype:
                        D.append(("dump_att_type:" + tn, "%s:%r element %d printed as %r (type code %s), file type %s" % (where, nm, j, t.text, t.xtype, tn)))
                        break
                    if not num_matches(t, v, a.xtype):
                        D.append(("dump_att_value:" + tn, "%s:%r element %d printed %r, file value %r" % (where, nm, j, t.text, v)))
                        break
    cmp_atts("global", cd.gatts, f.gatts)
    if len(cd.vars) != len(f.vars):
        D.append(("dump_var", "%d variables printed, %d in file" % (len(cd.vars), len(f.vars))))
        return D
    for pv, v in zip(cd.vars, f.vars):
        if pv["name"] != v.name or pv["xtype"] != v.xtype or pv["dims"] != [f.dims[d].name for d in v.dimids]:
            D.append(("dump_var", "variable printed as %s %r%r, file has %s %r%r" % (TYPE_WORD.get(pv["xtype"]), pv["name"], pv["dims"], TYPE_WORD[v.xtype], v.name,
                                                                                 [f.dims[d].name for d in v.dimids])))
        cmp_atts("var %r" % v.name, pv["atts"], v.atts)
    want = [i for i, v in enumerate(f.vars) if not (f.is_record(v) and not (f.numrecs or 0))]
    if cd.data_order != [f.vars[i].name for i in want] and len(set(v.name for v in f.vars)) == len(f.vars):
        D.append(("dump_data", "data section lists %r, expected %r" % (cd.data_order, [f.vars[i].name for i in want])))
        return D
    for i in want:
        v = f.vars[i]
        tn = C.TYPE_NAME[v.xtype]
        toks = cd.data.get(v.name)
        if toks is None:
            continue
        flat = data[i].reshape(-1)
        if v.xtype == C.NC_CHAR:
            sb = CDL.strings_bytes(toks)
            exp = flat.tobytes()
            if sb is None or (sb != exp and sb != exp.rstrip(b"\0")):
                D.append(("dump_data_value:" + tn, "var %r text %r printed, %r in file" % (v.name, sb, exp)))
            continue
        if len(toks) != flat.size:
            D.append(("dump_data", "var %r: %d values printed, %d in file" % (v.name, len(toks), flat.size)))
            continue
        has_fill, fv = fill_of(f, v)
        eps = float(np.finfo(flat.dtype.newbyteorder("=")).eps) if flat.dtype.kind == "f" else 0.0
        for j, (t, x) in enumerate(zip(toks, flat)):
            isfill = bool(has_fill and x == fv)
            if t.kind == "fill":
                near = bool(has_fill and eps and (float(x) > 0) == (float(fv) > 0) and abs(float(x) - float(fv)) <= abs(eps * float(fv)))
                if not isfill and not near:
                    D.append(("dump_fill:" + tn, "var %r element %d printed as _ but the value %r is not the fill value %r" % (v.name, j, x, fv)))
                    break
            elif isfill:
                D.append(("dump_fill:" + tn, "var %r element %d equals the fill value %r but is printed as %r" % (v.name, j, fv, t.text)))
                break
            elif t.kind != "num" or not num_matches(t, x, v.xtype):
                D.append(("dump_data_value:" + tn, "var %r element %d printed %r, file value %r" % (v.name, j, t.text, x)))
                break
    return D


def parse_offsets(text):
    """ncoffsets output -> dict(size, extent, fmt, dims=[(name, text)], blocks=[dict(section, head, starts, ends, size, gap)])"""
    out = {"size": None, "extent": None, "fmt": None, "dims": [], "blocks": []}
    section = None
    cur = None
    for line in text.split("\n"):
        s = line.strip()
        if not s or s == "}":
            continue
        m = re.match(r"// File format: CDF-(\d)", s)
        if m:
            out["fmt"] = int(m.group(1))
            continue
        if s.startswith("//") or s.startswith("netcdf "):
            continue
        if s in ("file header:", "dimensions:", "fixed-size variables:", "record variables:"):
            section = s[:-1]
            continue
        if section == "file header":
            m = re.match(r"(size|extent)\s*=\s*(-?\d+) bytes", s)
            if m:
                out[m.group(1)] = int(m.group(2))
            continue
        if section == "dimensions":
            nm, _, v = s.rpartition(" = ")
            out["dims"].append((nm, v))
            continue
        m = re.match(r"(start file offset|end   file offset|size in bytes|gap from prev var)\s*=\s*(-?\d+)", s)
        if m and cur is not None:
            key, v = m.group(1), int(m.group(2))
            if key.startswith("start"):
                cur["starts"].append(v)
            elif key.startswith("end"):
                cur["ends"].append(v)
            elif key.startswith("size"):
                cur["size"] = v
            else:
                cur["gap"] = v
            continue
        if line.startswith("\t") and s.endswith(":"):
            cur = {"section": section, "head": s, "starts": [], "ends": [], "size": None, "gap": None}
            out["blocks"].append(cur)
    return out


def compare_offsets(po, f, allrec):
    D = []
    hs = f.header_size
    if po["fmt"] != f.version:
        D.append(("offsets_format", "format CDF-%s printed, file is CDF-%d" % (po["fmt"], f.version)))
    if po["size"] != hs:
        D.append(("offsets_header", "header size %s printed, %d decoded" % (po["size"], hs)))
    fixed, rec = f.fixed_vars(), f.record_vars()
    if f.vars:
        ext = f.vars[fixed[0]].begin if fixed else f.vars[rec[0]].begin
        if po["extent"] != ext:
            D.append(("offsets_header", "header extent %s printed, begin of the first variable is %d" % (po["extent"], ext)))
    wantd = []
    for d in f.dims:
        wantd.append((d.name.decode("utf-8", "replace"), "UNLIMITED // (%d currently)" % (f.numrecs or 0) if d.length == 0 else "%d" % d.length))
    if po["dims"] != wantd:
        D.append(("offsets_dim", "dimensions %r printed, %r decoded" % (po["dims"], wantd)))
    order = [(i, "fixed-size variables") for i in fixed] + [(i, "record variables") for i in rec]
    if len(po["blocks"]) != len(order):
        D.append(("offsets_var", "%d variable blocks printed, %d variables in file" % (len(po["blocks"]), len(order))))
        return D
    rs = f.recsize()
    for blk, (i, sec) in zip(po["blocks"], order):
        v = f.vars[i]
        nm = v.name.decode("utf-8", "replace")
        head = "%s %s%s:" % (TYPE_WORD[v.xtype], nm, "(" + ", ".join(f.dims[d].name.decode("utf-8", "replace") for d in v.dimids) + ")" if v.dimids else "")
        got = " ".join(blk["head"].split(None, 1))
        if got != head or blk["section"] != sec:
            D.append(("offsets_var", "block %r in %r, expected %r in %r" % (got, blk["section"], head, sec)))
            continue
        size = f.var_nbytes_unpadded(v)
        if sec.startswith("fixed"):
            starts, ends = [v.begin], [v.begin + size]
            prev = [j for j in fixed if j < i]
        else:
            n = (f.numrecs or 0) if allrec else 1
            starts = [v.begin + r * rs for r in range(n)]
            ends = [s + size for s in starts]
            prev = [j for j in rec if j < i]
            if not prev and fixed:
                prev = [fixed[-1]]
        pend = hs if not prev else f.vars[prev[-1]].begin + f.var_nbytes_unpadded(f.vars[prev[-1]])
        gap = v.begin - pend
        if blk["starts"] != starts or blk["ends"] != ends:
            D.append(("offsets_begin", "var %r offsets %r..%r printed, %r..%r decoded" % (nm, blk["starts"], blk["ends"], starts, ends)))
        if blk["size"] != size:
            D.append(("offsets_size", "var %r size %s printed, %d decoded" % (nm, blk["size"], size)))
        if blk["gap"] != gap:
            D.append(("offsets_gap", "var %r gap %s printed, %d decoded (previous end %d, begin %d)" % (nm, blk["gap"], gap, pend, v.begin)))
    return D


def gen_unsafe(f, data):
    """reason why the CDL round trip is outside the documented domain of ncmpigen/ncmpidump, or None"""
    for owner, lst, i in all_atts(f):
        a = lst[i]
        if a.xtype > 6:
            return "ext_type_att"
        if a.nelems == 0:
            return "zero_len_att"
        if a.xtype == C.NC_CHAR and (b"\0" in a.values or any(c < 0x20 and c not in (9, 10) or c > 0x7E for c in a.values)):
            return "char_att_bytes"
    for v, d in zip(f.vars, data):
        if v.xtype == C.NC_CHAR:
            b = d.tobytes()
            if any(c < 0x20 or c > 0x7E for c in b):
                return "char_var_bytes"
        if v.xtype in (10, 11) and d.size and max(abs(int(x)) for x in d.reshape(-1)) > 2 ** 53:
            return "int64_beyond_2p53"
    return None


def canon(d):
    """-0.0 -> +0.0 (CDL integers carry no sign of zero)"""
    if d.dtype.kind == "f":
        d = d.copy()
        d[d == 0] = 0
    return d


# ---------------------------------------------------------------------------------------------------------------
# one unit = one tool comparison (replay entry)
def sha(b):
    return hashlib.sha1(b).hexdigest()[:16]


def run_unit(T, unit, count=None, cache=None):
    """unit = {"tool", "base": {"hex"}, "derived": {"hex", "kind", "cls", "desc"} | None, "k", "order", "allrec"} -> problems"""
    count = count or (lambda *a: None)
    tool = unit["tool"]
    base = bytes.fromhex(unit["base"]["hex"])
    d = unit.get("derived") or None
    der = bytes.fromhex(d["hex"]) if d else None
    target = der if der is not None else base
    made = []

    def wr(stem, data, ext=".nc"):
        p = T.write(stem, data, ext)
        made.append(p)
        return p
    try:
        if tool == "ncvalidator":
            r = T.run(tool, ["-q", wr("v", target)])
            why = spec_violation(target)
            if r.rc not in (0, 1):
                return [prob(unit, "tool_failure", "%s; %s" % (rc_text(r), r.brief()), rc=rc_text(r))]
            if why is None:
                if r.rc != 0:
                    return [prob(unit, "valid_rejected", "specification-valid file rejected: %s" % r.brief())]
                return []
            cls = (d or {}).get("cls")
            if cls not in CLAIMED:
                count("validator_unasserted")
                return []
            if r.rc == 0:
                return [prob(unit, "invalid_accepted", "file violating the format specification accepted (%s)" % why, cls=cls)]
            return []
        if tool in ("cdfdiff", "ncmpidiff"):
            other = target
            try:
                fa, da = load(base)
                fo, do = load(other)
            except C.CDFError:
                count("unit_invalid")
                return []
            same = same_content(fa, da, fo, do)
            pa, pb = wr("a", base), wr("b", other)
            args = ["-q", pa, pb] if unit.get("order", "ab") == "ab" else ["-q", pb, pa]
            r = T.run(tool, args, k=unit.get("k", 1) if tool == "ncmpidiff" else 1)
            if r.rc not in (0, 1):
                return [prob(unit, "tool_failure", "%s; %s" % (rc_text(r), r.brief()), rc=rc_text(r))]
            if r.rc == 0 and not same:
                return [prob(unit, "diff_missed", "no difference reported (exit 0, order %s, k=%s) for files that differ" % (unit.get("order", "ab"), unit.get("k", 1)),
                             order=unit.get("order", "ab"))]
            if r.rc == 1 and same:
                return [prob(unit, "diff_false", "difference reported (exit 1, order %s, k=%s) for files with the same version and logical content: %s"
                             % (unit.get("order", "ab"), unit.get("k", 1), r.brief()))]
            return []
        try:
            f, data = load(target)
        except C.CDFError:
            count("unit_invalid")
            return []
        if tool == "ncoffsets":
            allrec = bool(unit.get("allrec"))
            r = T.run(tool, ["-sgr" if allrec else "-sg", wr("o", target)])
            if r.rc != 0:
                return [prob(unit, "tool_failure", "%s; %s" % (rc_text(r), r.brief()), rc=rc_text(r))]
            try:
                D = compare_offsets(parse_offsets(r.out.decode("utf-8", "replace")), f, allrec)
            except Exception as e:
                return [prob(unit, "offsets_parse", "output not understood (%r): %s" % (e, r.out[:400]))]
            return [prob(unit, c, m, cat=c) for c, m in D[:3]]
        # ncmpidump / ncmpigen
        key = sha(target)
        txt = cache.get(key) if cache is not None else None
        if txt is None:
            p = wr("d", target)
            r = T.run("ncmpidump", ["-p", "9,17", p])
            if r.rc != 0:
                u2 = dict(unit, tool="ncmpidump")
                return [prob(u2, "tool_failure", "%s; %s" % (rc_text(r), r.brief()), rc=rc_text(r))]
            txt = r.out
            if cache is not None:
                cache[key] = txt
        if tool == "ncmpidump":
            try:
                cd = CDL.parse(txt)
            except (CDL.CDLError, IndexError, ValueError) as e:
                return [prob(unit, "dump_parse", "CDL output not parsable (%s): %r" % (e, txt[:600]))]
            D = compare_dump(cd, f, data)
            return [prob(unit, c.split(":")[0], m, cat=c) for c, m in D[:3]]
        if tool == "ncmpigen":
            why = gen_unsafe(f, data)
            if why:
                count("gen_skipped_" + why)
                return []
            pc = wr("g", txt, ".cdl")
            po = T.path("go")
            made.append(po)
            r = T.run("ncmpigen", ["-v", str(f.version), "-o", po, pc])
            if r.rc != 0:
                return [prob(unit, "gen_failed", "ncmpigen failed on ncmpidump output: %s; CDL: %r" % (r.brief(), txt[:500]), rc=rc_text(r))]
            if not os.path.exists(po):
                return [prob(unit, "gen_output_missing", "ncmpigen -o %s wrote no such file (%s)" % (po, r.brief()))]
            ob = open(po, "rb").read()
            try:
                g, gd = load(ob)
            except C.CDFError as e:
                return [prob(unit, "gen_invalid_file", "regenerated file is not specification-valid: %s" % e)]
            if g.version != f.version:
                return [prob(unit, "gen_version", "regenerated file is CDF-%d, -v %d requested" % (g.version, f.version))]
            if json.dumps(g.logical(), default=str) != json.dumps(f.logical(), default=str):
                return [prob(unit, "gen_header", "regenerated header differs: %r vs original %r" % (g.logical(), f.logical()))]
            for i, (x, y) in enumerate(zip(gd, data)):
                if canon(x).tobytes() != canon(y).tobytes():
                    fx, fy = canon(x).reshape(-1), canon(y).reshape(-1)
                    j = int(np.flatnonzero(fx != fy)[0]) if fx.shape == fy.shape and (fx != fy).any() else -1
                    return [prob(unit, "gen_data", "regenerated var %r (%s) differs at element %d: %r vs original %r" % (f.vars[i].name, C.TYPE_NAME[f.vars[i].xtype], j,
                                 fx[j] if j >= 0 else None, fy[j] if j >= 0 else None), xt=C.TYPE_NAME[f.vars[i].xtype])]
            return []
        raise ValueError("unknown tool %r" % tool)
    finally:
        for p in made:
            try:
                os.unlink(p)
            except OSError:
                pass


_REPLAY_T = {}


def run_case(ctx, case):
    """replay entry (runner contract): case is one unit"""
    b = ctx.build["plain"]
    if b not in _REPLAY_T:
        _REPLAY_T[b] = Tools(b, tempfile.mkdtemp(prefix="c20r.%d." % os.getpid(), dir=scratch_base()))
    probs = run_unit(_REPLAY_T[b], case)
    return [{k: v for k, v in p.items() if k != "unit"} for p in probs]


def scratch_base():
    return "/dev/shm" if os.path.isdir("/dev/shm") and os.access("/dev/shm", os.W_OK) else "/tmp"


# ---------------------------------------------------------------------------------------------------------------
# group = one base file, 4 derived files, all units
def unit_excluded(unit, info, fb):
    """name of the active exclusion that covers this unit, or None (filled in as findings are confirmed)"""
    for name in sorted(ACTIVE):
        fn = EXCLUSIONS[name].get("match")
        if fn and fn(unit, info or {}, fb):
            return name
    return None


def unit_hash(unit):
    d = unit.get("derived") or {}
    return hashlib.sha1(("%s|%s|%s|%s|%s|%s" % (unit["tool"], sha(unit["base"]["hex"].encode()), sha((d.get("hex") or "").encode()), unit.get("k"), unit.get("order"),
                                                unit.get("allrec"))).encode()).hexdigest()[:16]


def run_group(ctx, spec):
    T = ctx.T
    style = spec["style"]
    f0, d0 = spec_model(spec)
    if spec["origin"] == "lib":
        tl = time.time()
        try:
            base, note = lib_write(ctx, spec, f0, d0)
            ctx.T.seconds["lib_write"] += time.time() - tl
        except PoolError as e:
            ctx.count("lib_pool_error_" + e.kind)
            ctx.notes.append("library-written base: pool %s: %s %s" % (e.kind, e.detail[:200], e.stderr_tail[-600:]))
            return
        if base is None:
            ctx.count("lib_script_error")
            ctx.notes.append(note[:1500])
            return
    else:
        base = encode(f0, d0, spec["layout"])
    try:
        fb, db = load(base)
    except C.CDFError as e:
        ctx.count("base_not_decodable")
        ctx.notes.append("base file (%s) not decodable by cdfspec: %s" % (spec["origin"], e))
        return
    if not same_content(f0, d0, fb, db):
        ctx.count("base_differs_from_model")
        ctx.notes.append("base file (%s) differs from the generator's model: %r vs %r" % (spec["origin"], fb.logical(), f0.logical()))
        return
    ctx.count("base_%s" % spec["origin"], "base_v%d" % fb.version, "base_style_%s" % style)
    if spec["origin"] == "lib":
        ctx.count("lib_%s_k%d" % (spec["lib"]["enddef"], spec["lib"]["k"]))
    bh = {"hex": base.hex()}
    units = []

    def U(tool, derived=None, info=None, **kw):
        u = {"tool": tool, "base": bh, "derived": derived}
        u.update(kw)
        units.append((u, info))
    U("ncvalidator")
    U("ncoffsets", allrec=spec["offs_r"])
    if style == "cdl":
        U("ncmpidump")
        U("ncmpigen")
    U("cdfdiff", order="ab")
    if spec["ident_mpi"]:
        U("ncmpidiff", k=spec["mpik"][5], order="ab")
    nd = 0
    dumped = False
    kinds = []
    for d in spec["derived"]:
        if nd == 4:
            break
        kind = d["kind"]
        r = apply_edit(fb, db, base, d, style) if kind[0] in "ab" else inject(base, fb, d)
        if r is None:
            ctx.count("inapplicable_" + kind)
            continue
        der, info = r
        dd = {"hex": der.hex(), "kind": kind, "desc": info["desc"], "cls": info.get("cls")}
        kinds.append(kind)
        ctx.count("derived_" + kind)
        if kind[0] == "c":
            for key in ("tail_zero", "used"):
                if key in info:
                    dd[key] = info[key]
            U("ncvalidator", dd, info)
        else:
            U("ncvalidator", dd, info)
            U("ncoffsets", dd, info, allrec=not spec["offs_r"])
            U("cdfdiff", dd, info, order="ab")
            U("cdfdiff", dd, info, order="ba")
            k = spec["mpik"][nd]
            o = "ba" if spec["rev"][nd] else "ab"
            U("ncmpidiff", dd, info, k=k, order=o)
            if spec["both"][nd]:
                U("ncmpidiff", dd, info, k=k, order="ab" if o == "ba" else "ba")
            if style == "cdl" and spec["dump_derived"] and not dumped:
                dumped = True
                U("ncmpidump", dd, info)
        nd += 1
    cache = {}
    for u, info in units:
        ex = unit_excluded(u, info, fb)
        if ex:
            ctx.count("excluded_" + ex)
            ctx.excluded_known += 1
            continue
        tool = u["tool"]
        kind = (u.get("derived") or {}).get("kind", "base" if tool not in ("cdfdiff", "ncmpidiff") else "identical")
        ctx.count("tool_" + tool, "%s:%s" % (tool, kind))
        if tool == "ncmpidiff":
            ctx.count("ncmpidiff_k%d" % u.get("k", 1))
        ctx.evaluations += 1
        try:
            probs = run_unit(T, u, ctx.count, cache)
        except Exception:
            ctx.count("harness_exceptions")
            ctx.notes.append("unit %s raised: %s" % (tool, traceback.format_exc()[-1200:]))
            continue
        info = info or {}
        if tool in ("cdfdiff", "ncmpidiff") and ((kind.startswith("a_value") and info.get("one_elem") and info.get("multi_rec")) or
                                                   (kind == "b_layout" and info.get("all_offsets_differ"))):
            ctx.nontrivial(unit_hash(u))
            ctx.count("nontrivial_" + ("a_one_elem_multi_rec" if kind[0] == "a" else "b_all_offsets_differ"))
        real = []
        for p in probs:
            if ctx.known.match(p):
                ctx.excluded_known += 1
            else:
                real.append(p)
        if real:
            ctx.failures.append({"unit": u, "problems": [{k: v for k, v in p.items() if k != "unit"} for p in real]})
    ctx.sample({"style": style, "origin": spec["origin"], "version": fb.version, "base_bytes": len(base), "header": fb.logical(), "derived": kinds,
                "lib": spec["lib"] if spec["origin"] == "lib" else None, "layout": spec["layout"] if spec["origin"] == "enc" else None}, limit=2)


def _worker(args):
    tier, seed_, widx, nworkers, builds, ngroups, active = args
    from hypothesis import given, settings, seed, HealthCheck, Phase, Verbosity
    ACTIVE.clear()
    ACTIVE.update(active)
    ctx = runner.Ctx(PROP, tier, seed_, widx, nworkers)
    ctx.build = builds
    ctx.kmax = 2 if widx % 8 == 0 else 1
    root = tempfile.mkdtemp(prefix="c20.%d.%d." % (os.getpid(), widx), dir=scratch_base())
    ctx.T = Tools(builds["plain"], root)
    t0 = time.time()

    @seed(seed_ * 1000003 + widx * 7919)
    @settings(max_examples=ngroups, database=None, deadline=None, derandomize=False, suppress_health_check=list(HealthCheck),
              phases=[Phase.generate], verbosity=Verbosity.quiet, print_blob=False)
    @given(group_strategy(tier, ctx.kmax))
    def t(spec):
        ctx.count("groups")
        try:
            run_group(ctx, spec)
        except Exception:
            ctx.count("harness_exceptions")
            ctx.notes.append("group raised: %s" % traceback.format_exc()[-1500:])
    try:
        t()
    except Exception:
        ctx.notes.append("worker %d exception: %s" % (widx, traceback.format_exc()[-2000:]))
        ctx.stats["harness_exceptions"] += 1
    finally:
        ctx.close()
        shutil.rmtree(root, ignore_errors=True)
    return {"stats": dict(ctx.stats), "nt": list(ctx.nt), "samples": ctx.samples, "evaluations": ctx.evaluations, "failures": ctx.failures,
            "notes": ctx.notes, "known_hits": dict(ctx.known.hits), "excluded_known": ctx.excluded_known, "wall": time.time() - t0,
            "launches": dict(ctx.T.launches), "seconds": {k: round(v, 2) for k, v in ctx.T.seconds.items()}, "slowest": dict(ctx.T.slowest)}


def sig_key(problems):
    return "|".join(sorted(json.dumps(p["sig"], sort_keys=True) for p in problems))


def main():
    ap = argparse.ArgumentParser()
    ap.add_argument("--tier", default=os.environ.get("VERIF_TIER", "quick"))
    ap.add_argument("--seed", type=int, default=int(os.environ.get("VERIF_SEED", "1") or 1))
    ap.add_argument("--replay", default=None)
    ap.add_argument("--workers", type=int, default=int(os.environ.get("VERIF_WORKERS", "16")))
    ap.add_argument("--groups", type=int, default=0, help="triage aid: groups per worker")
    ap.add_argument("--no-replays", action="store_true", help="triage aid: skip the regression replays")
    ap.add_argument("--no-exclusions", action="store_true", help="triage aid: campaign without the named exclusions")
    a = ap.parse_args()
    if a.tier not in ("quick", "thorough"):
        a.tier = "quick"
    t0 = time.time()
    builds = {}
    for v in ("plain",) if a.replay else ("plain", "asan"):
        b = runner.ensure_build(v)
        if b is None or (v == "plain" and not all(os.path.exists(os.path.join(b, "bin", t)) for t in TOOLS)):
            print("BUILD-FAILED variant=%s: /repo (or its utilities) does not build; no verdict" % v)
            sys.exit(2)
        builds[v] = b
    ctx0 = runner.Ctx(PROP, a.tier, a.seed)
    ctx0.build = builds

    def cleanup_replay_tools():
        for T in _REPLAY_T.values():
            shutil.rmtree(T.scratch, ignore_errors=True)
        _REPLAY_T.clear()

    if a.replay:
        rp = json.load(open(a.replay))
        try:
            probs = [p for p in run_case(ctx0, rp["case"]) if not ctx0.known.match(p)]
        finally:
            cleanup_replay_tools()
        if probs:
            for p in probs[:5]:
                print("  problem:", p.get("msg"))
            print("VIOLATION property=%s replay=%s" % (PROP, a.replay))
            sys.exit(1)
        print("replay passes")
        sys.exit(0)

    violations, notes = [], []
    rdir = os.path.join(VERIF, "replays", PROP)
    nreg = 0
    if os.path.isdir(rdir) and not a.no_replays:
        for fn in sorted(os.listdir(rdir)):
            if not fn.endswith(".json"):
                continue
            try:
                rp = json.load(open(os.path.join(rdir, fn)))
                probs = run_case(ctx0, rp["case"])
            except Exception:
                notes.append("replay %s raised %s" % (fn, traceback.format_exc()[-800:]))
                continue
            nreg += 1
            probs = [p for p in probs if not ctx0.known.match(p)]
            if probs:
                violations.append((os.path.join(rdir, fn), probs))

    nw = max(1, min(a.workers, 32))
    ng = a.groups or {"quick": 16, "thorough": 250}[a.tier]
    active = [] if a.no_exclusions else sorted(k for k, v in EXCLUSIONS.items() if v.get("active", True))
    args = [(a.tier, a.seed, i, nw, builds, ng, active) for i in range(nw)]
    if nw == 1:
        results = [_worker(args[0])]
    else:
        with multiprocessing.get_context("fork").Pool(nw) as mp:
            results = mp.map(_worker, args)
    stats, nt, launches, seconds = collections.Counter(), set(), collections.Counter(), collections.Counter()
    samples, failures = [], []
    slowest = {}
    evaluations = excluded_known = 0
    known_hits = collections.Counter(ctx0.known.hits)
    for r in results:
        stats.update(r["stats"])
        nt.update(r["nt"])
        samples += r["samples"][:1]
        notes += r["notes"]
        failures += r["failures"]
        evaluations += r["evaluations"]
        known_hits.update(r["known_hits"])
        excluded_known += r["excluded_known"]
        launches.update(r["launches"])
        seconds.update(r["seconds"])
        seconds["worker_wall"] += r["wall"]
        seconds["worker_wall_max"] = max(seconds["worker_wall_max"], r["wall"])
        for tl, (dt, kk) in r["slowest"].items():
            if dt > slowest.get(tl, (0, 0))[0]:
                slowest[tl] = (dt, kk)

    # triage: one unit per distinct signature (the smallest), replayed 3x
    os.makedirs(rdir, exist_ok=True)
    bysig = {}
    for fl in failures:
        k = sig_key(fl["problems"])
        size = len(fl["unit"]["base"]["hex"]) + len((fl["unit"].get("derived") or {}).get("hex") or "")
        if k not in bysig or size < bysig[k][0]:
            bysig[k] = (size, fl)
    stats["failing_units"] = len(failures)
    flaky = 0
    for k, (size, fl) in sorted(bysig.items()):
        last, nfail = None, 0
        for _ in range(3):
            try:
                probs = [p for p in run_case(ctx0, fl["unit"]) if not ctx0.known.match(p)]
            except Exception:
                probs = []
                notes.append("triage replay raised: " + traceback.format_exc()[-800:])
            if probs:
                nfail += 1
                last = probs
        if nfail == 3:
            fdir = os.environ.get("VERIF_FOUND_DIR") or rdir
            os.makedirs(fdir, exist_ok=True)
            path = os.path.join(fdir, "found-%s.json" % runner.case_hash(fl["unit"]))
            with open(path, "w") as f:
                json.dump({"property": PROP, "case": fl["unit"], "problems": last[:5], "seed": a.seed, "tier": a.tier,
                           "units_with_this_signature": sum(1 for x in failures if sig_key(x["problems"]) == k)}, f, indent=1, default=str)
            violations.append((path, last))
        else:
            flaky += 1
            notes.append("failure not reproduced 3/3 (inconclusive, not reported): %s" % (fl["problems"][0].get("msg", "")[:300]))
    cleanup_replay_tools()

    for e in ctx0.known.entries:
        if e.get("status") == "known":
            print("KNOWN-FINDING: property=%s %s (id=%s, hits this run: %d)" % (PROP, e["description"], e["id"], known_hits.get(e["id"], 0)))
    wall = time.time() - t0
    per_tool = {t: {k.split(":", 1)[1]: v for k, v in sorted(stats.items()) if k.startswith(t + ":")} for t in TOOLS}
    cov = {"evaluations": evaluations, "distinct_nontrivial": len(nt), "rule": RULE, "samples": samples[:4],
           "classes": dict(sorted(stats.items())), "per_tool_per_kind": per_tool, "tool_launches": dict(launches), "tool_seconds": {k: round(v, 1) for k, v in seconds.items()}, "slowest_launch_s_k": slowest,
           "excluded_known": excluded_known, "exclusions_active": active,
           "exclusions": {k: v["what"] for k, v in EXCLUSIONS.items()}, "retired_exclusions": sorted(RETIRED_EXCLUSIONS),
           "validator_classes_asserted": CLAIMED,
           "regression_replays": nreg, "workers": nw, "groups_per_worker": ng, "build": {k: os.path.basename(v) for k, v in builds.items()},
           "inconclusive_failures": flaky, "notes": notes[:20]}
    runner.write_evidence(PROP, a.tier, a.seed, "exploration", cov, ASSUMPTIONS, wall, len(violations))
    for n in notes[:10]:
        print("note:", n[:400])
    print("%s tier=%s seed=%d evaluations=%d distinct_nontrivial=%d excluded=%d wall=%.1fs violations=%d" % (
        PROP, a.tier, a.seed, evaluations, len(nt), excluded_known, wall, len(violations)))
    if violations:
        for path, probs in violations:
            for p in probs[:3]:
                print("  problem:", str(p.get("msg"))[:600])
            print("VIOLATION property=%s replay=%s" % (PROP, path))
        sys.exit(1)
    if evaluations == 0:
        print("HARNESS-ERROR: no unit could be evaluated")
        sys.exit(3)
    floor = 40 if a.tier == "quick" and not a.groups else 5
    if len(nt) < floor:
        print("GENERATOR-HEALTH: only %d distinct non-trivial units (floor %d)" % (len(nt), floor))
        sys.exit(3)
    sys.exit(0)


if __name__ == "__main__":
    main()
