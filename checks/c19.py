#!/usr/bin/env python3-vt
"""C19 - memory safety; malformed files fail cleanly.

Part A (this file): every truncation point and every single-word substitution of seed files in all three
formats (exhaustive enumeration, harness/enum_open.c) plus coverage-guided multi-field corruption
(libFuzzer, harness/fuzz_open.c).  Both drive the same entry function (harness/open_target.h) whose
oracle is: ncmpi_open returns; on error nothing (file id, traced heap) is left behind; on success all
metadata inquiries succeed and are self-consistent, first/last element of every variable can be read or
fails with a netCDF error, close succeeds and leaves nothing behind; no ASan/UBSan report from library
code; deterministic resource bounds (header fetches <= ceil(size/256KiB)+2, peak traced heap <= 1 MiB +
8*size).

Part B (valid programs of the other properties under the sanitizer build) is added through part_b().

This check does not use the pncx pool: it has its own main() with the interface of runner.main
(--tier, --seed / VERIF_SEED, --replay, known findings, regression replays, evidence).
"""
import os, sys, json, time, argparse, subprocess, shutil, hashlib, re, collections, tempfile, glob
from concurrent.futures import ThreadPoolExecutor
sys.path.insert(0, os.path.dirname(os.path.dirname(os.path.abspath(__file__))))
import numpy as np
from pv import runner
from pv import c19seeds as S

PROP = "C19"
VERIF = runner.VERIF
ALLOC_CAP_MB = 16          # enum_open / replays
FUZZ_ALLOC_CAP_MB = 64     # fuzz_open: libFuzzer itself allocates a 20 MiB table at start-up
# MPI-IO component: OpenMPI's default (ompio).  The pool of the other checks uses romio321 because of an ompio defect with
# overlapping *collective* reads; part A only issues independent single-process reads, and ROMIO costs 4x more system time
# per open (measured 3.2 ms vs 0.7 ms per input), which the exhaustive enumeration cannot afford in the quick tier.
MPI_IO = os.environ.get("C19_MPI_IO", "ompio")
RULE = ("Part A. enum_open: for each of the cdfspec-encoded seed files (CDF-1/2/5; fixed/record/one-record/all-types/"
        "padded/empty/dims-only) and the scipy sample files: the seed, every truncation length 0..header size (+ a stride "
        "through the data), every 4-byte aligned header word x 33 32-bit extremes and every 8-byte word at a 4-byte aligned "
        "header offset x 40 64-bit extremes (exhaustive per seed); fuzz_open: libFuzzer (-max_len=4096, dictionary of magic/"
        "tags/extremes, value profile) from the same seeds plus big-header seeds.  Oracle inside the target (see module "
        "docstring).  Non-trivial = the input has a valid magic/version and contains the whole numrecs field, i.e. the "
        "parser reaches hdr_get_NC_dimarray; distinct = distinct 64-bit FNV-1a hash of the input bytes, united over all "
        "processes of the run.")
ASSUMPTIONS = ["single process (MPI singleton, MPI_COMM_SELF), local tmpfs/POSIX file, OpenMPI 4.1.4 with its default MPI-IO component ompio (C19_MPI_IO=romio321 selects ROMIO)",
               "allocations above %d MiB (enumeration, replays) / %d MiB (fuzzer) fail in the harness (ASAN max_allocation_size_mb, "
               "allocator_may_return_null=1); the request is booked by the library's malloc trace, so it is judged by the heap bound"
               % (ALLOC_CAP_MB, FUZZ_ALLOC_CAP_MB),
               "'time related to the size of the file' is replaced by deterministic counters (header fetches, traced heap); pure "
               "CPU blow-ups without I/O or allocation are not detected (DESIGN.md section 5)",
               "UBSan reports each source location once per process; counts of UB hits are lower bounds, distinct sites are exact",
               "part B replays generated valid programs of C01, C02, C05, C12 and C13 under the ASan+UBSan build (ROMIO pool) and judges sanitizer reports only; their semantic oracles belong to those properties"]

# ---------------------------------------------------------------------------------------------
# UBSan sites of recorded findings, given as statement text (not line numbers: unrelated edits shift lines).  A UBSan problem
# whose source line contains one of these statements gets sig["statement_class"] = <class>, which is what the known-findings
# entry of that class matches; any other UBSan site has no class and is reported.
UB_STATEMENT_CLASSES = {
    # R4: sizes / offsets derived from (positive) extreme dimension lengths, numrecs and begins of a malformed header are
    #     computed with signed 64-bit arithmetic before / without a range check
    "size_offset_arith_overflow": [
        ("signed-integer-overflow", "ncmpio_var.c", "product *= varp->shape[i];"),
        ("signed-integer-overflow", "ncmpio_header_get.c", "+ ncp->vars.value[i]->len;"),
        ("signed-integer-overflow", "ncmpio_enddef.c", "prev_off = varp->begin + varp->len;"),
        ("signed-integer-overflow", "ncmpio_util.c", "*offset += start[0] * ncp->recsize;"),
        ("signed-integer-overflow", "ncmpio_util.c", "*offset += varp->begin;")],
}

# ---------------------------------------------------------------------------------------------
# Named exclusions: recorded findings of the tree under test, excluded from the CAMPAIGN so that it keeps searching
# (counted in evidence as excluded_<name>); each one is still probed through its saved replay in /verif/replays/C19,
# which runs WITHOUT exclusions, so a finding whose exclusion is deleted here is simply reported as a VIOLATION again
# (by its replay and by the campaign) if it is still present.  DELETE AN ENTRY ONCE ITS FIX HAS LANDED.
#   allow_ub : UBSan sites (kind, file, statement text) that the target counts instead of reporting (PNC_OPEN_ALLOW);
#           resolved to the line numbers of the CURRENT tree at run time (resolve_ub_sites)
#   allow : literal failure keys counted instead of reported; used where the process survives
#   skip  : input classes that are not given to the library at all (PNC_OPEN_SKIP, see open_target.h); used where the
#           finding ends the process (crash), so counting is not possible
#   excuse_declared : resource excess is excused as far as the count fields of the same input declare it (open_target.h)
EXCLUSIONS = {
    # R4 (known finding, see UB_STATEMENT_CLASSES)
    "size_offset_arith_overflow": {"allow_ub": UB_STATEMENT_CLASSES["size_offset_arith_overflow"]},
}

# Exclusions that were needed before the fixes R1, R1b, R2, R3 (work/c19/fixes/*.diff) landed.  Not active.  To run the
# campaign on a tree that lacks one of these fixes: C19_EXTRA_EXCLUSIONS=name[,name...] (or move the entry back up).
RETIRED_EXCLUSIONS = {
    # R1: list nelems / attribute nelems / var ndims were used as allocation sizes and loop bounds without relating them to
    #     the file size; hdr_fetch zero-filled past EOF instead of failing (60-byte file -> GiB allocations, thousands of
    #     fetches); PNETCDF_RNDUP(ndefined, PNC_ARRAY_GROWBY) overflowed int for ndefined > INT_MAX-63
    "count_fields_trusted": {"excuse_declared": True,
                             "allow_ub": [("signed-integer-overflow", "ncmpio_header_get.c", "alloc_size = PNETCDF_RNDUP(ncap->ndefined, PNC_ARRAY_GROWBY);")]},
    # R1b: ncmpio_new_NC_var() did not check its NCI_Calloc(ndims, ..) results -> NULL store in hdr_get_NC_var
    "var_ndims_alloc_unchecked": {"skip": {"ndims": (1 << 20) + 1}},
    # R2: CDF-5 attribute nelems >= 2^60: nelems*xsz overflowed (or was negative) in x_len_NC_attrV / hdr_get_NC_attrV ->
    #     heap-buffer-overflow WRITE or NULL store in hdr_get_NC_attrV
    "attr_nelems_overflow": {"skip": {"att_nelems": 1 << 60}},
    # R3: CDF-5 numrecs / dimension length >= 2^63 were accepted as negative MPI_Offset -> FPE in ncmpio_NC_check_vlen,
    #     negative dimension lengths / record size reported by the inquiry API
    "int64_fields_negative": {"skip": {"neg64": 1}},
}
for _n in [x for x in os.environ.get("C19_EXTRA_EXCLUSIONS", "").split(",") if x]:
    if _n in RETIRED_EXCLUSIONS:
        EXCLUSIONS[_n] = RETIRED_EXCLUSIONS[_n]
ACTIVE_EXCLUSIONS = sorted(EXCLUSIONS)


_UB_CACHE = {}


def resolve_ub_sites(sites):
    """(kind, file, statement text) -> allow keys 'ub:<kind> at <file>:<line>' for every line of the current tree's
    <file> that contains the statement text (sources of VERIF_REPO; m4 products are looked up in the build's gen/ dir)"""
    repo = os.environ.get("VERIF_REPO", "/repo")
    keys = []
    for kind, fn, text in sites:
        ck = (repo, fn)
        if ck not in _UB_CACHE:
            cands = glob.glob(os.path.join(repo, "src", "**", fn), recursive=True)
            cands = [c for c in cands if not os.path.exists(c[:-2] + ".m4")]      # in-tree .c next to its .m4 is a stale product
            if not cands:
                for b in _BUILD_DIRS:
                    cands += glob.glob(os.path.join(b, "gen", fn))
            _UB_CACHE[ck] = open(cands[0], errors="replace").read().splitlines() if cands else []
        for i, line in enumerate(_UB_CACHE[ck], 1):
            if text in line:
                keys.append("ub:%s at %s:%d" % (kind, fn, i))
    return keys


_BUILD_DIRS = []


def sweep_stale_semaphores():
    """ompio's sharedfp/sm component keeps a POSIX semaphore named after the file while it is open; an input that ends the
    process (sanitizer crash, abort) leaves /dev/shm/sem.OMPIO_pncfz.<pid>.nc behind.  Remove those of dead processes."""
    for p in glob.glob("/dev/shm/sem.OMPIO_pncfz.*.nc"):
        m = re.search(r"pncfz\.(\d+)\.nc$", p)
        if not m:
            continue
        try:
            os.kill(int(m.group(1)), 0)
        except ProcessLookupError:
            try:
                os.unlink(p)
            except OSError:
                pass
        except OSError:
            pass


def scratch_root():
    base = "/dev/shm" if os.path.isdir("/dev/shm") and os.access("/dev/shm", os.W_OK) else "/tmp"
    return tempfile.mkdtemp(prefix="pnc19.%d." % os.getpid(), dir=base)


def target_env(tmpdir, exclusions=(), cap_mb=ALLOC_CAP_MB):
    env = dict(os.environ)
    env.update({
        "OMPI_ALLOW_RUN_AS_ROOT": "1", "OMPI_ALLOW_RUN_AS_ROOT_CONFIRM": "1", "OMPI_MCA_io": MPI_IO,
        "OMPI_MCA_btl": "self", "OMPI_MCA_mpi_yield_when_idle": "1",
        "ASAN_OPTIONS": "detect_leaks=0:allocator_may_return_null=1:max_allocation_size_mb=%d:exitcode=87:abort_on_error=0:"
                        "detect_stack_use_after_return=0:print_summary=1" % cap_mb,
        "UBSAN_OPTIONS": "print_stacktrace=1:halt_on_error=0",
        "PNC_ALLOC_CAP_MB": str(cap_mb), "TMPDIR": tmpdir,
    })
    for k in ("PNETCDF_HINTS", "PNETCDF_SAFE_MODE", "PNETCDF_VERBOSE_DEBUG_MODE", "PNC_OPEN_ALLOW", "PNC_OPEN_SKIP",
              "PNC_OPEN_STATS", "PNC_OPEN_HASHES", "PNC_ENUM_HDR", "PNC_OPEN_EXCUSE_DECLARED"):
        env.pop(k, None)
    allow, skip = [], {}
    for name in exclusions:
        e = EXCLUSIONS[name]
        allow += e.get("allow", []) + resolve_ub_sites(e.get("allow_ub", []))
        skip.update(e.get("skip", {}))
        if e.get("excuse_declared"):
            env["PNC_OPEN_EXCUSE_DECLARED"] = "1"
    if allow:
        env["PNC_OPEN_ALLOW"] = ",".join(allow)
    if skip:
        env["PNC_OPEN_SKIP"] = ",".join("%s=%d" % kv for kv in sorted(skip.items()))
    return env


# ------------------------------------------------------------------------------ problem / signature
def key_problem(key, detail, extra=""):
    cls, _, what = key.partition(":")
    if cls == "resource":
        sig = {"kind": "resource", "what": what}
    elif cls == "ub":
        m = re.match(r"(\S+) at ([^:]+):(\d+)", what)
        sig = {"kind": "ubsan", "what": m.group(1), "file": m.group(2), "line": int(m.group(3))} if m else {"kind": "ubsan", "what": what}
        if m:
            for cname, sites in UB_STATEMENT_CLASSES.items():
                if key in resolve_ub_sites(sites):
                    sig["statement_class"] = cname
    else:
        sig = {"kind": "oracle", "what": key}
    return {"kind": sig["kind"], "msg": "%s: %s%s" % (key, detail, extra), "sig": sig}


LIB_FRAME = re.compile(r"#\d+ 0x[0-9a-f]+ in (\w+) (\S+?):(\d+)")


def is_lib_path(p):
    return ("/harness/" not in p) and ("openmpi" not in p) and ("/src/" in p or "/gen/" in p) and not p.startswith("/usr/") \
        and "compiler-rt" not in p and "sysdeps" not in p and "csu/" not in p


def crash_problem(stderr, rc):
    """sanitizer report / fatal signal -> problem with a signature (headline + first library frame)"""
    tail = stderr[-6000:]
    m = re.search(r"ERROR: AddressSanitizer: ([\w-]+)", stderr)
    what = m.group(1) if m else None
    if what is None:
        m = re.search(r"FATAL-SIGNAL (\d+)", stderr)
        what = "signal%s" % m.group(1) if m else ("exit%s" % rc)
    func = where = None
    start = stderr.find("ERROR: AddressSanitizer")
    for fm in LIB_FRAME.finditer(stderr, max(start, 0)):
        if is_lib_path(fm.group(2)):
            func, where = fm.group(1), "%s:%s" % (os.path.basename(fm.group(2)), fm.group(3))
            break
    sig = {"kind": "asan", "what": what}
    if func:
        sig["func"] = func
    return {"kind": "asan", "msg": "sanitizer/fatal: %s in %s (%s)" % (what, func, where), "sig": sig, "stderr": tail}


# ------------------------------------------------------------------------------ single input
def run_bytes(build_asan, data, exclusions=(), tmpdir=None):
    """one input through `enum_open --one`; returns (problems, info)"""
    own = tmpdir is None
    if own:
        tmpdir = scratch_root()
    try:
        p = os.path.join(tmpdir, "one.%s.bin" % hashlib.sha1(data).hexdigest()[:12])
        with open(p, "wb") as f:
            f.write(data)
        r = subprocess.run([os.path.join(build_asan, "enum_open"), "--one", p], env=target_env(tmpdir, exclusions),
                           stdout=subprocess.PIPE, stderr=subprocess.PIPE, timeout=300)
        out, err = r.stdout.decode(errors="replace"), r.stderr.decode(errors="replace")
        info = None
        for line in reversed(out.strip().splitlines()):
            if line.startswith("{"):
                try:
                    info = json.loads(line)
                except ValueError:
                    pass
                break
        probs = []
        if info is None or r.returncode not in (0, 1):
            probs.append(crash_problem(err, r.returncode))
        else:
            for key, detail in info["failures"]:
                pr = key_problem(key, detail)
                if pr["kind"] == "ubsan":
                    pr["stderr"] = "\n".join(l for l in err.splitlines() if "runtime error" in l or re.match(r"\s+#\d", l))[-3000:]
                probs.append(pr)
        return probs, (info or {})
    finally:
        if own:
            shutil.rmtree(tmpdir, ignore_errors=True)


def run_case(ctx, case):
    """replay entry: case = {"kind":"file","hex":..., "exclusions":[names]}"""
    if case.get("kind") != "file":
        return part_b_run_case(ctx, case)
    excl = [e for e in case.get("exclusions", []) if e in EXCLUSIONS]
    probs, _ = run_bytes(ctx.build["asan"], bytes.fromhex(case["hex"]), excl)
    return probs


# ------------------------------------------------------------------------------ enumeration
ENUM_CHUNK = 2500


def enum_domain(build_asan, seedpath, root):
    """size of the enumeration domain of a seed (dry run: --stop 0 walks the order without running an input)"""
    tmpdir = tempfile.mkdtemp(prefix="probe.", dir=root)
    try:
        r = subprocess.run([os.path.join(build_asan, "enum_open"), seedpath, tmpdir, "all", "--stop", "0"], env=target_env(tmpdir),
                           stdout=subprocess.PIPE, stderr=subprocess.PIPE, timeout=120)
        for line in reversed(r.stdout.decode(errors="replace").strip().splitlines()):
            if line.startswith("{\"tried\""):
                d = json.loads(line)
                return int(d["domain"]), int(d["hdr_region"])
    except Exception:
        pass
    finally:
        shutil.rmtree(tmpdir, ignore_errors=True)
    return None, None


def run_enum(build_asan, name, seedpath, root, exclusions, start=0, stop=None, tag=""):
    """enumeration of the index range [start, stop) of one seed, restarting after sanitizer crashes; returns a dict"""
    tmpdir = os.path.join(root, "t_" + name + tag)
    outdir = os.path.join(root, "o_" + name + tag)
    os.makedirs(tmpdir, exist_ok=True)
    os.makedirs(outdir, exist_ok=True)
    env = target_env(tmpdir, exclusions)
    env["PNC_OPEN_HASHES"] = os.path.join(root, "hashes_%s%s.bin" % (name, tag))
    tot = collections.Counter()
    errors = collections.Counter()
    keys, crashes, samples, notes = {}, [], [], []
    first, complete, domain = start, False, None
    t0 = time.time()
    for attempt in range(30):
        cmd = [os.path.join(build_asan, "enum_open"), seedpath, outdir, "all", "--start", str(start)]
        if stop is not None:
            cmd += ["--stop", str(stop)]
        r = subprocess.run(cmd, env=env, stdout=subprocess.PIPE, stderr=subprocess.PIPE)
        out, err = r.stdout.decode(errors="replace"), r.stderr.decode(errors="replace")
        summ = None
        for line in reversed(out.strip().splitlines()):
            if line.startswith("{\"tried\""):
                try:
                    summ = json.loads(line)
                except ValueError:
                    pass
                break
        if summ is None:
            notes.append("enum %s%s: no summary (rc %s): %s" % (name, tag, r.returncode, err[-400:]))
            break
        for k in ("tried", "open_ok", "open_warn", "open_err", "past_magic", "byname_miss", "reads_ok", "reads_err", "reads_skipped",
                  "vars_seen", "atts_seen", "dims_seen", "allowed", "skipped_ndims", "skipped_att_nelems", "skipped_neg64", "inputs_done"):
            tot[k] += summ.get(k, 0)
        tot["max_open_reads"] = max(tot["max_open_reads"], summ["max_open_reads"])
        tot["max_peak"] = max(tot["max_peak"], summ["max_peak"])
        errors.update({k: v for k, v in summ["errors"].items()})
        for kr in summ["keys"]:
            kk = (kr["key"], kr["allowed"])
            if kk not in keys:
                kr = dict(kr)
                fp = os.path.join(outdir, kr["file"])
                kr["bytes"] = open(fp, "rb").read() if os.path.exists(fp) else None
                keys[kk] = kr
            else:
                keys[kk]["count"] += kr["count"]
        if not samples:
            samples = summ["samples"]
        if summ["crashed"] >= 0:
            idx = summ["crashed"]
            fp = os.path.join(outdir, "crash-%d.bin" % idx)
            pr = crash_problem(err, r.returncode)
            crashes.append({"idx": idx, "desc": summ["crash_desc"], "bytes": open(fp, "rb").read() if os.path.exists(fp) else None, "problem": pr})
            tot["crash_inputs"] += 1
            start = idx + 1
            continue
        complete = bool(summ["complete"])
        domain = summ["domain"]
        break
    else:
        notes.append("enum %s%s: more than 30 crashing inputs, enumeration abandoned at index %d" % (name, tag, start))
    shutil.rmtree(tmpdir, ignore_errors=True)
    shutil.rmtree(outdir, ignore_errors=True)
    tot["skipped"] = tot["skipped_ndims"] + tot["skipped_att_nelems"] + tot["skipped_neg64"]
    visited = tot["inputs_done"] + tot["crash_inputs"]          # positions of the enumeration order that were reached
    want = None if domain is None else (min(stop, domain) if stop is not None else domain) - first
    return {"name": name, "tot": dict(tot), "errors": dict(errors), "keys": keys, "crashes": crashes, "samples": samples, "notes": notes,
            "complete": bool(complete and want is not None and visited == want), "domain": domain, "visited": visited, "wall": time.time() - t0}


# ------------------------------------------------------------------------------ fuzzing
def fuzz_worker(i, build_fuzz, seeds_dir, dict_path, root, runs, max_time, seed, exclusions):
    wdir = os.path.join(root, "fz%d" % i)
    corpus, art, tmpdir = os.path.join(wdir, "corpus"), os.path.join(wdir, "art"), os.path.join(wdir, "tmp")
    for d in (corpus, art, tmpdir):
        os.makedirs(d, exist_ok=True)
    env = target_env(tmpdir, exclusions, FUZZ_ALLOC_CAP_MB)
    env["PNC_OPEN_STATS"] = os.path.join(wdir, "stats.json")
    env["PNC_OPEN_HASHES"] = os.path.join(root, "hashes_fz%d.bin" % i)
    res = {"execs": 0, "artifacts": [], "notes": [], "budget_hit": False, "stats": collections.Counter(), "errors": collections.Counter(),
           "restarts": 0, "cov": 0, "ft": 0, "corpus": 0}
    remaining, t_end, seen = runs, time.time() + max_time, set()
    while remaining > 0 and res["restarts"] <= 3:
        tleft = int(t_end - time.time())
        if tleft < 3:
            res["budget_hit"] = True
            break
        cmd = [os.path.join(build_fuzz, "fuzz_open"), "-runs=%d" % remaining, "-seed=%d" % (seed * 1000 + i * 37 + res["restarts"] * 7919 + 1),
               "-max_len=4096", "-dict=" + dict_path, "-artifact_prefix=" + art + "/", "-print_final_stats=1", "-detect_leaks=0",
               "-use_value_profile=1", "-max_total_time=%d" % tleft, "-timeout=60", "-rss_limit_mb=3072", corpus, seeds_dir]
        if os.path.exists(env["PNC_OPEN_STATS"]):
            os.unlink(env["PNC_OPEN_STATS"])
        try:
            r = subprocess.run(cmd, env=env, stdout=subprocess.PIPE, stderr=subprocess.PIPE, timeout=tleft + 120)
            err, rc = r.stderr.decode(errors="replace"), r.returncode
        except subprocess.TimeoutExpired as e:
            err, rc = (e.stderr or b"").decode(errors="replace"), -9
            res["notes"].append("fuzz worker %d: process did not stop %d s after its time budget (inconclusive)" % (i, 120))
        m = re.search(r"stat::number_of_executed_units:\s+(\d+)", err)
        n = int(m.group(1)) if m else 0
        if not m:
            mm = re.findall(r"^#(\d+)\s", err, re.M)
            n = int(mm[-1]) if mm else 0
        res["execs"] += n
        remaining -= max(n, 1)
        for mm in re.finditer(r"cov: (\d+) ft: (\d+) corp: (\d+)", err):
            res["cov"], res["ft"], res["corpus"] = max(res["cov"], int(mm.group(1))), max(res["ft"], int(mm.group(2))), int(mm.group(3))
        if os.path.exists(env["PNC_OPEN_STATS"]):
            try:
                stt = json.load(open(env["PNC_OPEN_STATS"]))
                res["errors"].update(stt.pop("errors", {}))
                for k, v in stt.items():
                    if k in ("max_open_reads", "max_peak"):
                        res["stats"][k] = max(res["stats"][k], v)
                    elif k != "distinct_past_magic":
                        res["stats"][k] += v
            except ValueError:
                pass
        new = sorted(set(os.listdir(art)) - seen)
        seen.update(new)
        for fn in new:
            res["artifacts"].append({"file": os.path.join(art, fn), "name": fn, "stderr": err[-8000:]})
        if rc == 0 and not new:
            if remaining > 0:
                res["budget_hit"] = True
            break
        if rc != 0 and not new:
            res["notes"].append("fuzz worker %d: exit %s without artifact: %s" % (i, rc, err[-300:].replace("\n", " | ")))
        res["restarts"] += 1
    shutil.rmtree(tmpdir, ignore_errors=True)
    return res


def minimise(build_fuzz, build_asan, data, exclusions, want_sigs, root):
    """libFuzzer -minimize_crash on a fuzz finding; returns the smallest input that still shows one of want_sigs"""
    wdir = tempfile.mkdtemp(prefix="min.", dir=root)
    src = os.path.join(wdir, "in.bin")
    open(src, "wb").write(data)
    env = target_env(wdir, exclusions, FUZZ_ALLOC_CAP_MB)
    try:
        subprocess.run([os.path.join(build_fuzz, "fuzz_open"), "-minimize_crash=1", "-runs=4000", "-max_total_time=25", "-detect_leaks=0",
                        "-artifact_prefix=" + wdir + "/", "-exact_artifact_path=" + os.path.join(wdir, "min.bin"), src],
                       env=env, stdout=subprocess.PIPE, stderr=subprocess.PIPE, timeout=90)
    except subprocess.TimeoutExpired:
        pass
    best = data
    cands = sorted((p for p in glob.glob(os.path.join(wdir, "*")) if os.path.isfile(p) and p != src), key=os.path.getsize)
    for p in cands[:6]:
        b = open(p, "rb").read()
        if len(b) >= len(best):
            continue
        probs, _ = run_bytes(build_asan, b, exclusions)
        if any(json.dumps(q["sig"], sort_keys=True) in want_sigs for q in probs):
            best = b
            break
    shutil.rmtree(wdir, ignore_errors=True)
    return best


# ------------------------------------------------------------------------------ part B hook
PART_B_MODULES = ["c01", "c02", "c05", "c13", "c12", "c10"]
UB_LINE = re.compile(r"^(?P<file>\S+?):(?P<line>\d+):(?P<col>\d+): runtime error: (?P<msg>.*)$")


def _is_aint_add_line(f, line, default):
    """does the reported source line call MPI_Aint_add?  (default when the source cannot be read)"""
    try:
        with open(f, errors="replace") as fh:
            lines = fh.readlines()
        n = int(line)
        return "MPI_Aint_add" in "".join(lines[max(0, n - 2):n + 1])
    except (OSError, ValueError):
        return default


def _scan_sanitizer(text):
    """UBSan diagnostics located in library code (sources under /repo/src or generated from its .m4 files)"""
    out = []
    for ln in text.splitlines():
        m = UB_LINE.match(ln.strip())
        if not m:
            continue
        f = m.group("file")
        if "/harness/" in f or "/openmpi" in f or f.startswith("/usr/"):
            continue
        if "/src/" in f or "/gen/" in f:
            msg = m.group("msg")
            if "offset" in msg and "null pointer" in msg and _is_aint_add_line(f, m.group("line"), "applying non-zero offset" in msg):
                # OpenMPI defines MPI_Aint_add(base, disp) as pointer arithmetic on (char*)base; the library legitimately calls it
                # with relative addresses (base 0) or the address of an absent (NULL) array plus 0.  The report is about the MPI
                # header's macro expanded at that line, not about library code.
                continue
            what = re.sub(r"0x[0-9a-f]+", "ADDR", msg)
            what = re.sub(r"-?\b\d[\d.e+]*\b", "N", what)[:90]
            cls = "misaligned" if "misaligned address" in msg else ("overflow" if "overflow" in msg else "other")
            out.append({"kind": "ubsan", "msg": "UndefinedBehaviorSanitizer: %s:%s: %s" % (os.path.basename(f), m.group("line"), msg[:200]),
                        "sig": {"kind": "ubsan", "file": os.path.basename(f), "what": what, "class": cls}})
    return out


def _part_b_script(modname, case):
    import importlib
    mod = importlib.import_module("checks." + modname)
    if modname == "c12":
        p = mod.build(case, bb=True)[0]
    elif modname == "c10":
        p = mod.build(case, case["B"])[0]      # non-default hints: aggregation, ibuf packing, in-place swap, safe mode
    else:
        p = mod.build(case)[0]
    return p


def _part_b_run(ctx, modname, case):
    """run one script of another property's generator on the sanitizer build; problems = sanitizer reports in library code"""
    from pv.pool import hx
    p = _part_b_script(modname, case)
    pool = ctx.pool("asan", nprocs=4 if p.k <= 4 else 8)      # thorough generators draw up to 8 ranks
    pool.stderr_delta()
    d = pool.newdir()
    os.makedirs(os.path.join(d, "bb"), exist_ok=True)
    for i, line in enumerate(p.s.lines):
        p.s.lines[i] = line.replace(hx("$DIR/bb"), hx(os.path.join(d, "bb")))
    orig = pool.newdir
    pool.newdir = lambda: d
    try:
        try:
            res, d2 = pool.run(p.s, keepdir=False)
        finally:
            pool.newdir = orig
            shutil.rmtree(d, ignore_errors=True)
    except runner.PoolError as e:
        tail = e.stderr_tail
        probs = _scan_sanitizer(tail)
        if e.kind == "crash":
            m = re.search(r"(AddressSanitizer: [\w-]+)", tail)
            m2 = re.search(r"#\d+ 0x[0-9a-f]+ in (\w+) \S*/(src|gen)/", tail)
            probs.append({"kind": "asan", "msg": "crash while running a %s script: %s" % (modname, (m.group(1) if m else e.detail)[:200]),
                          "sig": {"kind": "asan", "what": m.group(1) if m else "exit", "func": m2.group(1) if m2 else None}, "stderr": tail[-2500:]})
        return probs, set()
    labels = set()
    txt = "\n".join(p.s.lines)
    if "api=bput" in txt:
        labels.add("b_attached_buffer")
    if "form=varn" in txt:
        labels.add("b_varn")
    if "nc_burst_buf" in txt:
        labels.add("b_burst_buffer")
    if "nc_num_aggrs_per_node" in txt:
        labels.add("b_intra_node_aggregation")
    return _scan_sanitizer(pool.stderr_delta()), labels


def part_b(ctx_like):
    """Part B: a sample of the scripts produced by the other properties' generators (fixed per seed) is executed on the
    ASan+UBSan build; any sanitizer report located in library code is a violation with the script's case as replay."""
    from hypothesis import given, settings, seed, HealthCheck, Phase, Verbosity
    import importlib
    n_each = {"quick": 120, "thorough": 1000}[ctx_like.tier]
    out = []
    nrun = 0
    nt = set()
    seen = set()
    for modname in PART_B_MODULES:
        mod = importlib.import_module("checks." + modname)
        cases = []

        @seed(ctx_like.seed * 7919 + len(modname) + sum(map(ord, modname)))
        @settings(max_examples=n_each, database=None, deadline=None, suppress_health_check=list(HealthCheck), phases=[Phase.generate], verbosity=Verbosity.quiet)
        @given(mod.case_strategy(ctx_like.tier))
        def collect(case):
            cases.append(case)
        try:
            collect()
        except Exception as e:
            ctx_like.notes.append("part B: generating %s cases failed: %s" % (modname, e))
        for case in cases:
            try:
                probs, labels = _part_b_run(ctx_like, modname, case)
            except Exception as e:
                ctx_like.notes.append("part B harness exception (%s): %s" % (modname, str(e)[:300]))
                continue
            nrun += 1
            ctx_like.count("b_scripts_" + modname, *labels)
            if labels:
                nt.add(runner.case_hash(case))
            for pr in probs:
                pr["sig"]["module"] = modname
                key = json.dumps(pr["sig"], sort_keys=True)
                if key in seen:
                    continue
                seen.add(key)
                out.append(({"kind": "script", "module": modname, "case": case}, [pr]))
    ctx_like.coverage_b = {"part_b_scripts": nrun, "part_b_nontrivial_scripts": len(nt), "part_b_modules": PART_B_MODULES}
    return out


def part_b_run_case(ctx, case):
    """replay of a part B case: {"kind":"script","module":"c02","case":{...}}"""
    probs, _ = _part_b_run(ctx, case["module"], case["case"])
    for pr in probs:
        pr["sig"]["module"] = case["module"]
    return probs


# ------------------------------------------------------------------------------ main flow
class CtxLike:
    def __init__(self, tier, seed, builds):
        self.tier, self.seed, self.build = tier, seed, builds
        self.known = runner.Known(PROP)
        self.stats = collections.Counter()
        self.notes = []
        self.coverage_b = {}
        self.pools = {}

    def count(self, *labels):
        for l in labels:
            self.stats[l] += 1

    def pool(self, variant="asan", nprocs=1, env=None):
        key = (variant, nprocs, json.dumps(env or {}, sort_keys=True))
        if key not in self.pools:
            self.pools[key] = runner.Pool(self.build[variant], nprocs=nprocs, extra_env=env)
        return self.pools[key]

    def close(self):
        for p in self.pools.values():
            p.close()
        self.pools = {}


def tree_changed(builds):
    """True if the sources the builds were made from (VERIF_REPO tree or /verif/harness) changed since the build: line numbers in
    sanitizer reports, the resolved UB sites and the binaries then no longer describe one tree"""
    try:
        import importlib.util
        spec = importlib.util.spec_from_file_location("verif_build", os.path.join(VERIF, "tools", "build.py"))
        B = importlib.util.module_from_spec(spec)
        spec.loader.exec_module(B)
        return os.path.basename(builds["asan"]) != "asan-" + B.tree_hash("asan")
    except Exception:
        return False


def save_replay(case, problems, name=None, extra=None):
    rdir = (os.environ.get("VERIF_FOUND_DIR") if not name else None) or os.path.join(VERIF, "replays", PROP)
    os.makedirs(rdir, exist_ok=True)
    path = os.path.join(rdir, name or ("found-%s.json" % runner.case_hash(case)))
    doc = {"property": PROP, "case": case, "problems": [{k: v for k, v in p.items() if k != "stderr"} for p in problems[:5]],
           "stderr": (problems[0].get("stderr") or "")[-3000:] if problems else ""}
    doc.update(extra or {})
    with open(path, "w") as f:
        json.dump(doc, f, indent=1, default=str)
    return path


def confirm(ctx, case, want=None):
    """3x replay outside the campaign; returns the problems of the last run if all three show an unknown problem"""
    last = None
    for _ in range(3):
        probs = [p for p in run_case(ctx, case) if not ctx.known.match(p)]
        if not probs:
            return None
        last = probs
    return last


def main():
    ap = argparse.ArgumentParser()
    ap.add_argument("--tier", default=os.environ.get("VERIF_TIER", "quick"))
    ap.add_argument("--seed", type=int, default=int(os.environ.get("VERIF_SEED", "1") or 1))
    ap.add_argument("--replay", default=None)
    ap.add_argument("--workers", type=int, default=int(os.environ.get("VERIF_WORKERS", "16")))
    ap.add_argument("--no-exclusions", action="store_true", help="triage aid: run the campaign without the named exclusions")
    ap.add_argument("--no-fuzz", action="store_true", help="triage aid: enumeration only")
    a = ap.parse_args()
    if a.tier not in ("quick", "thorough"):
        a.tier = "quick"
    t0 = time.time()
    builds = {}
    for v in ("asan",) if (a.replay or a.no_fuzz) else ("asan", "fuzz"):
        b = runner.ensure_build(v)
        if b is None:
            print("BUILD-FAILED variant=%s: /repo does not build; no verdict" % v)
            sys.exit(2)
        builds[v] = b
        _BUILD_DIRS.append(b)
    ctx = CtxLike(a.tier, a.seed, builds)

    # ---- replay mode
    if a.replay:
        rp = json.load(open(a.replay))
        probs = [p for p in run_case(ctx, rp["case"]) if not ctx.known.match(p)]
        ctx.close()
        sweep_stale_semaphores()
        if probs:
            for p in probs[:5]:
                print("  problem:", p.get("msg"))
            print("VIOLATION property=%s replay=%s" % (PROP, a.replay))
            sys.exit(1)
        print("replay passes")
        sys.exit(0)

    violations = []          # (path, problems)
    notes = []
    # ---- regression replays (run WITHOUT campaign exclusions unless the case names them)
    rdir = os.path.join(VERIF, "replays", PROP)
    nreg = 0
    if os.path.isdir(rdir):
        for fn in sorted(os.listdir(rdir)):
            if not fn.endswith(".json"):
                continue
            try:
                rp = json.load(open(os.path.join(rdir, fn)))
                probs = run_case(ctx, rp["case"])
            except Exception as e:
                notes.append("replay %s raised %r" % (fn, e))
                continue
            nreg += 1
            probs = [p for p in probs if not ctx.known.match(p)]
            if probs:
                violations.append((os.path.join(rdir, fn), probs))

    # ---- campaign
    exclusions = [] if a.no_exclusions else ACTIVE_EXCLUSIONS
    root = scratch_root()
    try:
        cov, found = campaign(ctx, a, builds, root, exclusions, notes)
        if found and tree_changed(builds):
            notes.append("the source tree (or /verif/harness) changed while the campaign was running: %d campaign finding(s) are "
                         "inconclusive and were dropped (first: %s); run the check again" % (len(found), found[0]["problems"][0]["msg"][:200]))
            cov["inconclusive_failures"] = cov.get("inconclusive_failures", 0) + len(found)
            found = []
        # ---- triage of campaign findings: 3x replay, save
        seen_sig = set()
        for fd in found:
            sigs = sorted(json.dumps(p["sig"], sort_keys=True) for p in fd["problems"])
            tag = "|".join(sigs)
            if tag in seen_sig:
                continue
            seen_sig.add(tag)
            data = fd["bytes"]
            if data is None:
                notes.append("finding without saved input (%s): %s" % (fd["origin"], fd["problems"][0]["msg"][:200]))
                continue
            case = {"kind": "file", "hex": data.hex(), "exclusions": exclusions}
            last = confirm(ctx, case)
            if last is None:
                notes.append("failure not reproduced 3/3 (inconclusive, not reported): %s %s" % (fd["origin"], fd["problems"][0]["msg"][:300]))
                cov["inconclusive_failures"] = cov.get("inconclusive_failures", 0) + 1
                continue
            if fd["origin"].startswith("fuzz") and "fuzz" in builds:
                small = minimise(builds["fuzz"], builds["asan"], data, exclusions, set(json.dumps(p["sig"], sort_keys=True) for p in last), root)
                if len(small) < len(data):
                    c2 = {"kind": "file", "hex": small.hex(), "exclusions": exclusions}
                    l2 = confirm(ctx, c2)
                    if l2:
                        case, last = c2, l2
            path = save_replay(case, last, extra={"origin": fd["origin"], "seed": a.seed, "tier": a.tier})
            violations.append((path, last))
    finally:
        shutil.rmtree(root, ignore_errors=True)
        sweep_stale_semaphores()

    # ---- part B
    try:
        for case, probs in part_b(ctx):
            probs = [p for p in probs if not ctx.known.match(p)]
            if probs:
                violations.append((save_replay(case, probs), probs))
    finally:
        ctx.close()
    cov.update(ctx.coverage_b)
    notes += ctx.notes

    for e in ctx.known.entries:
        if e.get("status") == "known":
            print("KNOWN-FINDING: property=%s %s (id=%s, hits this run: %d)" % (PROP, e["description"], e["id"], ctx.known.hits.get(e["id"], 0)))
    wall = time.time() - t0
    cov["regression_replays"] = nreg
    cov["notes"] = notes[:30]
    cov["classes"].update(ctx.stats)
    runner.write_evidence(PROP, a.tier, a.seed, "exploration", cov, ASSUMPTIONS, wall, len(violations))
    for n in notes[:12]:
        print("note:", n[:400])
    print("%s tier=%s seed=%d evaluations=%d distinct_nontrivial=%d excluded=%d wall=%.1fs violations=%d" % (
        PROP, a.tier, a.seed, cov["evaluations"], cov["distinct_nontrivial"], cov["excluded_known"], wall, len(violations)))
    if violations:
        for path, probs in violations:
            for p in probs[:3]:
                print("  problem:", str(p.get("msg"))[:500])
            print("VIOLATION property=%s replay=%s" % (PROP, path))
        sys.exit(1)
    if cov["evaluations"] == 0:
        print("HARNESS-ERROR: no input could be evaluated")
        sys.exit(3)
    if cov["distinct_nontrivial"] < 5000:
        print("GENERATOR-HEALTH: only %d distinct non-trivial inputs (floor 5000)" % cov["distinct_nontrivial"])
        sys.exit(3)
    sys.exit(0)


def campaign(ctx, a, builds, root, exclusions, notes):
    """enumeration of every seed (in index chunks) + fuzzing, in parallel; returns (coverage dict, findings)"""
    tier = a.tier
    seeds_dir = os.path.join(root, "seeds")
    fseeds_dir = os.path.join(root, "fseeds")
    os.makedirs(seeds_dir)
    os.makedirs(fseeds_dir)
    eseeds = S.enum_seeds(tier)
    for k, b in eseeds.items():
        open(os.path.join(seeds_dir, k + ".nc"), "wb").write(b)
    for k, b in S.fuzz_seeds().items():
        open(os.path.join(fseeds_dir, k + ".nc"), "wb").write(b)
    dict_path = os.path.join(root, "open.dict")
    open(dict_path, "w").write(S.fuzz_dictionary())

    nfz = 0 if a.no_fuzz else {"quick": 4, "thorough": 8}[tier]
    runs = {"quick": 12000, "thorough": 40000000}[tier]        # per fuzz worker
    max_time = {"quick": 70, "thorough": 900}[tier]
    nw = max(1, min(a.workers, 16))
    with ThreadPoolExecutor(max_workers=nw + nfz) as ex:
        ffut = [ex.submit(fuzz_worker, i, builds["fuzz"], fseeds_dir, dict_path, root, runs, max_time, a.seed, exclusions) for i in range(nfz)]
        doms = dict(zip(eseeds, ex.map(lambda k: enum_domain(builds["asan"], os.path.join(seeds_dir, k + ".nc"), root), list(eseeds))))
        tasks = []
        for k in sorted(eseeds, key=lambda k: -(doms[k][0] or 0)):
            dom = doms[k][0]
            if dom is None:
                notes.append("enum %s: domain probe failed; enumerated in one piece" % k)
                tasks.append((k, 0, None, ""))
                continue
            for c, st in enumerate(range(0, dom, ENUM_CHUNK)):
                tasks.append((k, st, min(st + ENUM_CHUNK, dom), ".%d" % c))
        efut = [ex.submit(run_enum, builds["asan"], k, os.path.join(seeds_dir, k + ".nc"), root, exclusions, st, sp, tag) for k, st, sp, tag in tasks]
        eres = [f.result() for f in efut]
        fres = [f.result() for f in ffut]

    found = []
    classes = collections.Counter()
    errors = collections.Counter()
    per_seed = {}
    samples = []
    evaluations = excluded = 0
    fmaps = {}
    for k in eseeds:
        try:
            fmaps[k] = S.field_map(eseeds[k])
        except Exception:
            fmaps[k] = None
        per_seed[k] = {"bytes": len(eseeds[k]), "header_region": doms[k][1], "domain": doms[k][0], "visited": 0, "evaluated": 0, "chunks": 0,
                       "chunks_complete": 0, "open_ok": 0, "rejected": 0, "past_magic": 0, "skipped_excluded": 0, "crash_inputs": 0, "cpu_wall_s": 0.0}
    for r in eres:
        t = r["tot"]
        ps = per_seed[r["name"]]
        evaluations += t.get("tried", 0)
        excluded += t.get("allowed", 0) + t.get("skipped", 0)
        for k in ("skipped_ndims", "skipped_att_nelems", "skipped_neg64"):
            classes["excluded_enum_" + k] += t.get(k, 0)
        errors.update(r["errors"])
        notes += r["notes"]
        ps["visited"] += r["visited"]
        ps["evaluated"] += t.get("tried", 0)
        ps["chunks"] += 1
        ps["chunks_complete"] += 1 if r["complete"] else 0
        ps["open_ok"] += t.get("open_ok", 0)
        ps["rejected"] += t.get("open_err", 0)
        ps["past_magic"] += t.get("past_magic", 0)
        ps["skipped_excluded"] += t.get("skipped", 0)
        ps["crash_inputs"] += t.get("crash_inputs", 0)
        ps["cpu_wall_s"] = round(ps["cpu_wall_s"] + r["wall"], 1)
        for k in ("open_ok", "open_warn", "open_err", "reads_ok", "reads_err", "reads_skipped", "byname_miss", "vars_seen", "atts_seen", "dims_seen"):
            classes["enum_" + k] += t.get(k, 0)
        classes["enum_max_open_reads"] = max(classes["enum_max_open_reads"], t.get("max_open_reads", 0))
        fmap = fmaps[r["name"]]
        for (key, allowed), kr in r["keys"].items():
            field = desc_field(fmap, kr["first_desc"])
            if allowed:
                classes["excluded_key_" + key] += kr["count"]
                continue
            pr = key_problem(key, kr["detail"], " [seed %s, %s, field %s, %d input(s)]" % (r["name"], kr["first_desc"], field, kr["count"]))
            found.append({"origin": "enum:%s:%s" % (r["name"], kr["first_desc"]), "bytes": kr["bytes"], "problems": [pr]})
        for c in r["crashes"]:
            c["problem"]["msg"] += " [seed %s, %s, field %s]" % (r["name"], c["desc"], desc_field(fmap, c["desc"]))
            found.append({"origin": "enum:%s:%s" % (r["name"], c["desc"]), "bytes": c["bytes"], "problems": [c["problem"]]})
        for s in r["samples"]:
            samples.append({"seed": r["name"], "input": s["desc"], "open_status": s["open_status"], "hex": s["hex"]})
    for k, ps in per_seed.items():
        ps["exhaustive_modulo_exclusions"] = bool(ps["domain"] is not None and ps["chunks"] == ps["chunks_complete"] and ps["visited"] == ps["domain"])
        ps["exhaustive"] = bool(ps["exhaustive_modulo_exclusions"] and ps["skipped_excluded"] == 0)
    fexecs = 0
    fz = {"workers": nfz, "execs": [], "budget_hit": [], "restarts": [], "cov": [], "features": [], "corpus": []}
    for i, r in enumerate(fres):
        fexecs += r["execs"]
        fz["execs"].append(r["execs"])
        fz["budget_hit"].append(r["budget_hit"])
        fz["restarts"].append(r["restarts"])
        fz["cov"].append(r["cov"])
        fz["features"].append(r["ft"])
        fz["corpus"].append(r["corpus"])
        notes += r["notes"]
        if r["budget_hit"] and tier == "quick":      # thorough: the budget IS the time (8 workers x 15 min)
            notes.append("fuzz worker %d stopped by its time budget after %d of %d runs (inconclusive for the rest, not a failure)" % (i, r["execs"], runs))
        errors.update(r["errors"])
        for k in ("skipped_ndims", "skipped_att_nelems", "skipped_neg64", "allowed"):
            excluded += r["stats"].get(k, 0)
            classes["excluded_fuzz_" + k] += r["stats"].get(k, 0)
        for k in ("open_ok", "open_warn", "open_err", "reads_ok", "reads_err", "byname_miss", "past_magic"):
            classes["fuzz_" + k] += r["stats"].get(k, 0)
        classes["fuzz_max_open_reads"] = max(classes["fuzz_max_open_reads"], r["stats"].get("max_open_reads", 0))
        for art in r["artifacts"]:
            if not re.match(r"(crash|leak|oom|timeout)-", art["name"]):
                continue
            data = open(art["file"], "rb").read()
            if art["name"].startswith(("oom-", "timeout-")):
                notes.append("libFuzzer %s artifact (%d bytes) - resource limits of the fuzzer itself, inconclusive" % (art["name"], len(data)))
                continue
            probs, _ = run_bytes(builds["asan"], data, exclusions)
            if not probs:
                notes.append("fuzz artifact %s does not reproduce through enum_open --one (inconclusive): %s" % (art["name"], art["stderr"][-300:].replace("\n", " | ")))
                continue
            found.append({"origin": "fuzz:%d:%s" % (i, art["name"]), "bytes": data, "problems": probs})
    evaluations += fexecs
    # exact number of distinct non-trivial inputs over all processes
    hs = []
    for p in glob.glob(os.path.join(root, "hashes_*.bin")):
        try:
            hs.append(np.fromfile(p, dtype=np.uint64))
        except Exception:
            pass
    distinct = int(len(np.unique(np.concatenate(hs)))) if hs else 0
    # per named exclusion: inputs skipped by its filter + (enumeration) failures counted instead of reported under its keys
    skipname = {"ndims": "skipped_ndims", "att_nelems": "skipped_att_nelems", "neg64": "skipped_neg64"}
    for name in exclusions:
        e = EXCLUSIONS[name]
        n = 0
        for sk in e.get("skip", {}):
            n += classes.get("excluded_enum_" + skipname[sk], 0) + classes.get("excluded_fuzz_" + skipname[sk], 0)
        for key in e.get("allow", []) + resolve_ub_sites(e.get("allow_ub", [])):
            n += classes.get("excluded_key_" + key, 0)
        if e.get("excuse_declared"):
            n += classes.get("excluded_key_resource:heap", 0) + classes.get("excluded_key_resource:header_reads", 0)
        classes["excluded_" + name] = n
    picked, seen_status = [], set()
    for smp in sorted(samples, key=lambda x: len(x["hex"])):
        if smp["open_status"] not in seen_status and len(smp["hex"]) >= 24:
            seen_status.add(smp["open_status"])
            picked.append(smp)
    samples = picked
    cov = {"evaluations": int(evaluations), "distinct_nontrivial": distinct, "rule": RULE, "samples": samples[:5],
           "classes": dict(sorted(classes.items())), "open_error_histogram": dict(sorted(errors.items(), key=lambda kv: -kv[1])),
           "enumeration": per_seed, "exhaustive": all(v["exhaustive"] for v in per_seed.values()),
           "exhaustive_modulo_exclusions": all(v["exhaustive_modulo_exclusions"] for v in per_seed.values()), "fuzz": fz, "fuzz_execs": int(fexecs),
           "excluded_known": int(excluded), "exclusions_active": list(exclusions),
           "build": {k: os.path.basename(v) for k, v in builds.items()}, "workers": a.workers}
    return cov, found


def desc_field(fmap, desc):
    m = re.match(r"sub(\d):(\d+):", desc or "")
    if not m or fmap is None:
        return desc.split(":")[0] if desc else "?"
    return S.field_of(fmap, int(m.group(2)), int(m.group(1)))


if __name__ == "__main__":
    main()
