#!/usr/bin/env python3-vt
"""C14 - API mode state machine and error precedence.

Exhaustive enumeration of all sequences of mode-changing calls (enddef, redef, begin_indep_data,
end_indep_data, close+reopen rw, close+reopen ro, abort+create) up to a depth from the three start states
{created, opened rw, opened ro}.  After every prefix, every unit of the probe table is run in the same script;
the reference automaton pv/modes.py predicts for each call the set of documented return codes (or
'unconstrained').

How batched probes are kept from disturbing each other (one script = one prefix + all probe units):
 * every probe unit works on its own objects: new dimensions / variables / attributes get names derived from
   the unit name, renames, deletions, copies and def_var_fill act on objects of the fixed schema that no other
   unit touches, data probes write fixed values into the variables reserved for data probes;
 * a unit that leaves library state behind cleans it up itself with calls that are legal in every mode
   (pending nonblocking requests: ncmpi_cancel(NC_REQ_ALL); attached buffer: buffer_detach; set_fill(NC_FILL)
   re-asserts the value the setup chose), and those clean-up calls are themselves checked;
 * the arguments and the expected outcome of a unit are a pure function of the state reached by the prefix
   (plus the unit's own earlier steps); effects of other accepted units are monotone (more records, more
   objects) and never invalidate another unit's arguments;
 * after EVERY call an observation is taken: `dumpall` (data=1 in data mode / 0 in define mode), number of
   pending requests, attached buffer size, bytes written so far, and a byte snapshot of the file.  A call that
   returns an error must leave the observation identical to the one before it, and two 'mode witness' calls
   (ncmpi_wait(0 requests) -> driver-level mode, ncmpi_get_vara_int_all -> dispatcher-level mode) issued right
   after it must still answer as the automaton's unchanged state predicts;
 * the batching itself is cross-checked: for all prefixes of depth <= 1 every unit is also run alone in a
   fresh file (one script per (prefix, unit)) under the same oracle.
"""
import os, sys, struct, shutil
sys.path.insert(0, os.path.dirname(os.path.dirname(os.path.abspath(__file__))))
from hypothesis import strategies as st
from pv import runner
from pv import modes as MD
from pv.model import E
from pv.pool import Script, hx, PoolError

PROP = "C14"
RULE = ("Deterministic exhaustive enumeration: every sequence of mode-changing calls {enddef, redef, begin_indep, end_indep, "
        "close+reopen rw, close+reopen ro, abort+create} of length 0..3 (quick) / 0..5 (thorough) from {created, opened rw, "
        "opened ro}, each followed in the same script by the whole probe table (101 units / 145 calls from every API family: "
        "define, attribute, rename, blocking put/get collective and independent in every form, nonblocking post, wait, wait_all, "
        "cancel, sync, flush, fill, buffer attach/detach, inquiry; valid arguments and the single argument errors that take part in "
        "the documented precedence).  Also: every unit alone in a fresh file after every prefix of depth <= 1 (2), the collective "
        "units on k=2 ranks to depth 3, everything again under PNETCDF_SAFE_MODE=1 to depth 3 (4; collective units on k=2 one less), and Hypothesis-drawn longer "
        "histories (depth+1..depth+9).  Oracle = reference automaton pv/modes.py (documented codes only, otherwise unconstrained), "
        "mode check of both library layers after every prefix step, no-effect observation (dumpall, nreqs, buffer size, put_size, "
        "file bytes) + mode witnesses after every rejected call.  Non-trivial = a case whose prefix performs >= 2 successful mode "
        "changes and in which a rejected probe is followed by an accepted probe; distinct = distinct case hash.")
ASSUMPTIONS = ["single node, local POSIX file system (file snapshots are coherent with MPI-IO writes), OpenMPI 4.1.4 / ROMIO",
               "the exhaustive enumeration runs with safe mode off (PNETCDF_SAFE_MODE unset, no --enable-debug); a shallower "
               "enumeration repeats everything with PNETCDF_SAFE_MODE=1",
               "return codes are asserted only where documented (sources listed in pv/modes.py); other outcomes are "
               "unconstrained but rejected calls must still have no effect",
               "ncmpio driver (no burst buffer, no subfiling)"]

DEPTH = {"quick": 3, "thorough": 5}           # exhaustive enumeration, k=1, all units
DEPTH_K2 = {"quick": 3, "thorough": 3}        # collective units on 2 ranks
DEPTH_SAFE = {"quick": 3, "thorough": 4}      # all units again with PNETCDF_SAFE_MODE=1 (k=1), collective units (k=2) one level less
ISOLATION_DEPTH = {"quick": 1, "thorough": 2}  # every unit alone in a fresh file
N_HYP = {"quick": 10, "thorough": 80}         # per worker, random longer histories

# Named generator switch for a confirmed defect (replays/C14/fill_var_rec-*.json): before /repo commit dab4a9b0
# ncmpi_fill_var_rec ignored the errors its own argument/mode checks had found when safe mode is off.  The defect
# is fixed in the tree now, so the switch is OFF by default and the calls are generated; on an unfixed tree
# C14_EXCLUDE_FILL_VAR_REC=1 leaves out the fill_var_rec calls the dispatcher is documented to reject (counted as
# excluded_fill_var_rec_unchecked) so that the enumeration can continue past that one shallow defect.
EXCLUDE_FILL_VAR_REC_UNCHECKED = os.environ.get("C14_EXCLUDE_FILL_VAR_REC", "") not in ("", "0")

MAX_CRASH_FALLBACKS = 2      # per worker: unit-by-unit re-runs of a batched case that crashed / hung / mismatched
STOP_AFTER_FAILING_CASES = 25  # per worker: a red tree does not need the rest of the enumeration (exhaustive stays false)

PATH = "t.nc"
X = 4
Y = 4
NC_CHAR, NC_INT = 2, 4
V_I, V_C, V_R, V_RN, V_FL = 0, 1, 2, 3, 4
D_X, D_Y, D_T, D_RN = 0, 1, 2, 3
BADV = 99


def ints(n, base=1):
    return struct.pack("=%di" % n, *[base + i for i in range(n)])


# ------------------------------------------------------------------------------------------------ probe table
class Step:
    def __init__(self, label, call, op, args=None, buf=None, coll=False, types=None):
        self.label, self.call, self.op = label, call, op
        self.args = args or {}
        self.buf = buf            # callable (r, k) -> bytes or None
        self.coll = coll          # collective by specification
        self.types = types        # callable (r, k) -> {slot: spec}


class Unit:
    def __init__(self, name, steps, coll=False, when=None, fam=None):
        self.name, self.steps, self.coll, self.when = name, steps, coll, when
        self.fam = fam or steps[0].call["fam"]


def _part(n):
    return (lambda r, k: [r * (n // k)]), (lambda r, k: [n // k])


def data(label, api, form, coll, mt, v, geom="x", write=None, varerr=None, echar=False, coord=False, req=None,
         fam=None, bput=False, badid=False, esz=4, rec_extent=0):
    """one put/get/iput/iget/bput statement; geom: x (vi-like 1-d int), y (char var), rec (record 0 of vr), bad (start out of range)"""
    write = api in ("put", "iput", "bput") if write is None else write
    a = {"api": api, "form": form, "coll": 1 if coll else 0, "mt": mt, "v": v}
    types = None
    if geom in ("x", "y"):
        n = X if geom == "x" else Y
        s, c = _part(n)
        nel = lambda r, k: n // k
    elif geom == "rec":
        s = lambda r, k: [0, r * (X // k)]
        c = lambda r, k: [1, X // k]
        nel = lambda r, k: X // k
    elif geom == "bad":
        s = lambda r, k: [X + 1]
        c = lambda r, k: [1]
        nel = lambda r, k: 1
    elif geom == "whole":
        s = c = None
        nel = lambda r, k: X
    if form in ("var1", "vara", "vars", "varm"):
        a["start"] = s
    if form in ("vara", "vars", "varm"):
        a["count"] = c
    if form in ("vars", "varm"):
        a["stride"] = lambda r, k: [1] * len(s(r, k))
    if form == "varm":
        a["imap"] = lambda r, k: [1] * len(s(r, k))
    if form == "var1":
        nel = lambda r, k: 1
        if geom in ("x", "y"):
            a["start"] = lambda r, k: [r]
    if form == "varn":
        a["num"] = 1
        a["starts"] = lambda r, k: [s(r, k)]
        a["counts"] = lambda r, k: [c(r, k)]
    if form == "vard":
        a["mt"] = "flex"
        a["ftype"] = "t1"
        a["buftype"] = "int"
        a["bufcount"] = nel
        types = lambda r, k: {"t1": "idx(%d:%d,int)" % (X // k, r * (X // k))}
    if mt == "flex" and form != "vard":
        a["buftype"] = "int"
        a["bufcount"] = nel
    if req:
        a["req"] = req
    if badid:
        a["f"] = "raw:-1"
    buf = (lambda r, k: ints(nel(r, k), 1 + r * 10)) if esz == 4 else (lambda r, k: b"abcd"[:nel(r, k)])
    fam = fam or ("blocking" if api in ("put", "get") else "post")
    call = {"fam": fam, "write": write, "coll": bool(coll), "varerr": varerr, "echar": echar, "coord": coord,
            "bput": bput, "badid": badid, "rec_extent": rec_extent}
    return Step(label, call, "data", a, buf=buf, coll=bool(coll), types=types)


def mdata(label, api, coll, v):
    s, c = _part(X)
    a = {"api": api, "form": "vara", "coll": 1 if coll else 0, "mt": "int", "v": [v], "num": 1,
         "starts": lambda r, k: [s(r, k)], "counts": lambda r, k: [c(r, k)]}
    call = {"fam": "blocking", "write": api == "mput", "coll": bool(coll), "varerr": None}
    stp = Step(label, call, "mdata", a, buf=lambda r, k: ints(X // k), coll=bool(coll))
    stp.mbuf = True
    return stp


def cancel_all(label="cancel_all"):
    return Step(label, {"fam": "cancel"}, "cancel", {"reqs": "ALL", "st": 0})


def wait(label, coll, reqs="null", count=None):
    a = {"coll": 1 if coll else 0, "reqs": reqs}
    if count is not None:
        a["count"] = count
    return Step(label, {"fam": "wait", "coll": bool(coll)}, "wait", a, coll=bool(coll))


def api(label, fam, op, args=None, coll=True, **call):
    c = {"fam": fam}
    c.update(call)
    if c.get("badid"):
        args = dict(args or {})
        args["f"] = "raw:-1"
    return Step(label, c, op, args, coll=coll)


def build_units():
    U = []

    def u(name, steps, coll=False, when=None, fam=None):
        U.append(Unit(name, steps if isinstance(steps, list) else [steps], coll=coll, when=when, fam=fam))

    rec1 = lambda stt: stt.numrecs >= 1
    # ---- blocking put/get, collective and independent, every form
    u("put_vara_int_all", data("put_vara_int_all", "put", "vara", 1, "int", V_I), coll=True)
    u("put_vara_int", data("put_vara_int", "put", "vara", 0, "int", V_I))
    u("get_vara_int_all", data("get_vara_int_all", "get", "vara", 1, "int", V_I), coll=True)
    u("get_vara_int", data("get_vara_int", "get", "vara", 0, "int", V_I))
    u("put_var1_int_all", data("put_var1_int_all", "put", "var1", 1, "int", V_I), coll=True)
    u("get_var1_int", data("get_var1_int", "get", "var1", 0, "int", V_I))
    u("get_var_int_all", data("get_var_int_all", "get", "var", 1, "int", V_I, geom="whole"), coll=True)
    u("get_var_int", data("get_var_int", "get", "var", 0, "int", V_I, geom="whole"))
    u("put_vars_int_all", data("put_vars_int_all", "put", "vars", 1, "int", V_I), coll=True)
    u("get_vars_int", data("get_vars_int", "get", "vars", 0, "int", V_I))
    u("put_varm_int", data("put_varm_int", "put", "varm", 0, "int", V_I))
    u("get_varm_int_all", data("get_varm_int_all", "get", "varm", 1, "int", V_I), coll=True)
    u("put_vara_text_all", data("put_vara_text_all", "put", "vara", 1, "text", V_C, geom="y", esz=1), coll=True)
    u("get_vara_text", data("get_vara_text", "get", "vara", 0, "text", V_C, geom="y", esz=1))
    u("put_vara_rec_all", data("put_vara_int_all(rec)", "put", "vara", 1, "int", V_R, geom="rec", rec_extent=1), coll=True)
    u("put_vara_rec", data("put_vara_int(rec)", "put", "vara", 0, "int", V_R, geom="rec", rec_extent=1))
    u("get_vara_rec_all", data("get_vara_int_all(rec)", "get", "vara", 1, "int", V_R, geom="rec"), coll=True, when=rec1)
    u("get_vara_rec", data("get_vara_int(rec)", "get", "vara", 0, "int", V_R, geom="rec"), when=rec1)
    u("put_varn_int_all", data("put_varn_int_all", "put", "varn", 1, "int", V_I), coll=True)
    u("get_varn_int", data("get_varn_int", "get", "varn", 0, "int", V_I))
    u("put_vard_all", data("put_vard_all", "put", "vard", 1, "flex", V_I), coll=True)
    u("get_vard", data("get_vard", "get", "vard", 0, "flex", V_I))
    u("put_vara_flex_all", data("put_vara_all(flex)", "put", "vara", 1, "flex", V_I), coll=True)
    u("get_vara_flex", data("get_vara(flex)", "get", "vara", 0, "flex", V_I))
    u("mput_vara_int_all", mdata("mput_vara_int_all", "mput", 1, V_I), coll=True)
    u("mget_vara_int", mdata("mget_vara_int", "mget", 0, V_I))
    # ---- single argument errors that take part in the precedence
    u("put_all_notvar", data("put_vara_int_all(varid=99)", "put", "vara", 1, "int", BADV, varerr="notvar"), coll=True)
    u("put_all_global", data("put_vara_int_all(NC_GLOBAL)", "put", "vara", 1, "int", -1, varerr="global"), coll=True)
    u("get_notvar", data("get_vara_int(varid=99)", "get", "vara", 0, "int", BADV, varerr="notvar"))
    u("get_all_global", data("get_vara_int_all(NC_GLOBAL)", "get", "vara", 1, "int", -1, varerr="global"), coll=True)
    u("put_all_echar", data("put_vara_text_all(int var)", "put", "vara", 1, "text", V_I, echar=True, esz=1), coll=True)
    u("get_echar", data("get_vara_int(char var)", "get", "vara", 0, "int", V_C, geom="y", echar=True))
    u("put_all_badstart", data("put_vara_int_all(start>len)", "put", "vara", 1, "int", V_I, geom="bad", coord=True), coll=True)
    u("get_badstart", data("get_vara_int(start>len)", "get", "vara", 0, "int", V_I, geom="bad", coord=True))
    u("put_all_echar_badstart", data("put_vara_text_all(int var,start>len)", "put", "vara", 1, "text", V_I, geom="bad", echar=True, coord=True, esz=1), coll=True)
    u("put_all_badid", data("put_vara_int_all(bad ncid,varid=99)", "put", "vara", 1, "int", BADV, varerr="notvar", badid=True))
    u("get_badid", data("get_vara_int(bad ncid)", "get", "vara", 0, "int", V_I, badid=True))
    # ---- nonblocking posts (legal in every mode), each cleaned up by cancel(NC_REQ_ALL)
    u("iput_vara_int", [data("iput_vara_int", "iput", "vara", 0, "int", V_I, req="q1"), cancel_all()])
    u("iget_vara_int", [data("iget_vara_int", "iget", "vara", 0, "int", V_I, req="q1"), cancel_all()])
    u("iput_varn_int", [data("iput_varn_int", "iput", "varn", 0, "int", V_I, req="q1"), cancel_all()])
    u("iget_var_int", [data("iget_var_int", "iget", "var", 0, "int", V_I, geom="whole", req="q1"), cancel_all()])
    u("iput_rec", [data("iput_vara_int(rec)", "iput", "vara", 0, "int", V_R, geom="rec", req="q1"), cancel_all()])
    u("iput_notvar", data("iput_vara_int(varid=99)", "iput", "vara", 0, "int", BADV, varerr="notvar", req="q1"))
    u("iget_global", data("iget_vara_int(NC_GLOBAL)", "iget", "vara", 0, "int", -1, varerr="global", req="q1"))
    u("iput_echar", data("iput_vara_text(int var)", "iput", "vara", 0, "text", V_I, echar=True, esz=1, req="q1"))
    u("iget_badstart", data("iget_vara_int(start>len)", "iget", "vara", 0, "int", V_I, geom="bad", coord=True, req="q1"))
    u("bput_nobuf", data("bput_vara_int(no buffer)", "bput", "vara", 0, "int", V_I, bput=True, req="q1"))
    u("iput_badid", data("iput_vara_int(bad ncid)", "iput", "vara", 0, "int", V_I, badid=True, req="q1"))
    # ---- wait / wait_all / cancel
    u("wait_0", wait("wait(0 requests)", 0, count=0))
    u("wait_all_0", wait("wait_all(0 requests)", 1, count=0), coll=True)
    u("wait_ALL", wait("wait(NC_REQ_ALL)", 0, reqs="ALL"))
    u("wait_all_ALL", wait("wait_all(NC_REQ_ALL)", 1, reqs="ALL"), coll=True)
    u("iget_wait", [data("iget_vara_int", "iget", "vara", 0, "int", V_I, req="q1"), wait("wait(q1)", 0, reqs="q1"), cancel_all()])
    u("iput_wait_all", [data("iput_vara_int", "iput", "vara", 0, "int", V_I, req="q1"), wait("wait_all(q1)", 1, reqs="q1"), cancel_all()], coll=True)
    u("iget_wait_all", [data("iget_vara_int", "iget", "vara", 0, "int", V_I, req="q1"), wait("wait_all(q1)", 1, reqs="q1"), cancel_all()], coll=True)
    u("iput_wait", [data("iput_vara_int", "iput", "vara", 0, "int", V_I, req="q1"), wait("wait(q1)", 0, reqs="q1"), cancel_all()])
    u("cancel_none", [cancel_all("cancel(NC_REQ_ALL, none pending)"),
                      Step("cancel(0 requests)", {"fam": "cancel"}, "cancel", {"reqs": "null", "count": 0, "st": 0})])
    # ---- attached buffer: one ordered group, modelled with the automaton's abuf / pending_bput facts
    u("buffer_group", [
        api("inq_buffer_usage(no buffer)", "inq_buffer", "inq", {"what": "buffer_usage"}, coll=False),
        api("buffer_detach(no buffer)", "buffer_detach", "buffer_detach", coll=False),
        api("buffer_attach", "buffer_attach", "buffer_attach", {"size": 64}, coll=False),
        api("buffer_attach(again)", "buffer_attach", "buffer_attach", {"size": 64}, coll=False),
        api("inq_buffer_size", "inq_buffer", "inq", {"what": "buffer_size"}, coll=False),
        data("bput_vara_int", "bput", "vara", 0, "int", V_I, bput=True, req="q2"),
        api("buffer_detach(pending bput)", "buffer_detach", "buffer_detach", coll=False),
        cancel_all(),
        api("buffer_detach", "buffer_detach", "buffer_detach", coll=False),
    ])
    # ---- sync family
    u("sync", api("sync", "sync", "sync"), coll=True)
    u("flush", api("flush", "flush", "flush"), coll=True)
    u("sync_numrecs", api("sync_numrecs", "sync_numrecs", "sync_numrecs"), coll=True)
    # ---- definitions
    u("def_dim", api("def_dim", "define", "def_dim", {"name": hx("pd_def_dim"), "len": 3}), coll=True)
    u("def_dim_inuse", api("def_dim(name in use)", "define", "def_dim", {"name": hx("x"), "len": 3}, argerr=E["ENAMEINUSE"]), coll=True)
    u("def_var", api("def_var", "define", "def_var", {"name": hx("pv_def_var"), "xt": NC_INT, "dims": [D_X], "ndims": 1}), coll=True)
    u("def_var_baddim", api("def_var(dimid=99)", "define", "def_var", {"name": hx("pv_baddim"), "xt": NC_INT, "dims": [99], "ndims": 1}, argerr=E["EBADDIM"]), coll=True)
    u("def_var_fill", api("def_var_fill", "define", "def_var_fill", {"v": V_FL, "nofill": 0}), coll=True)
    u("def_var_fill_notvar", api("def_var_fill(varid=99)", "define", "def_var_fill", {"v": BADV, "nofill": 0}, varerr="notvar"), coll=True)
    u("def_var_fill_global", api("def_var_fill(NC_GLOBAL)", "define", "def_var_fill", {"v": -1, "nofill": 0}, varerr="global"), coll=True)
    u("set_fill", api("set_fill(NC_FILL)", "set_fill", "set_fill", {"mode": 0}), coll=True)
    u("def_dim_badid", api("def_dim(bad ncid)", "define", "def_dim", {"name": hx("pd_badid"), "len": 3}, badid=True))
    # ---- renames (objects reserved for these units)
    u("rename_dim_longer", api("rename_dim(longer)", "rename", "rename_dim", {"v": D_RN, "name": hx("drn_longer")}, longer=True), coll=True)
    u("rename_dim_same", api("rename_dim(same length)", "rename", "rename_dim", {"v": D_RN, "name": hx("drm")}), coll=True)
    u("rename_dim_baddim", api("rename_dim(dimid=99)", "rename", "rename_dim", {"v": 99, "name": hx("zzz")}, argerr=E["EBADDIM"]), coll=True)
    u("rename_var_longer", api("rename_var(longer)", "rename", "rename_var", {"v": V_RN, "name": hx("vrn_longer")}, longer=True), coll=True)
    u("rename_var_same", api("rename_var(same length)", "rename", "rename_var", {"v": V_RN, "name": hx("vrm")}), coll=True)
    u("rename_var_notvar", api("rename_var(varid=99)", "rename", "rename_var", {"v": BADV, "name": hx("zzz")}, varerr="notvar"), coll=True)
    u("rename_var_global", api("rename_var(NC_GLOBAL)", "rename", "rename_var", {"v": -1, "name": hx("zzz")}, varerr="global"), coll=True)
    u("rename_att_longer", api("rename_att(longer)", "rename", "rename_att", {"v": -1, "name": hx("gre1"), "newname": hx("gre1_longer")}, longer=True), coll=True)
    u("rename_att_same", api("rename_att(same length)", "rename", "rename_att", {"v": -1, "name": hx("gre2"), "newname": hx("grf2")}), coll=True)
    u("rename_att_missing", api("rename_att(no such attribute)", "rename", "rename_att", {"v": -1, "name": hx("nope"), "newname": hx("nop2")}, argerr=E["ENOTATT"]), coll=True)
    # ---- attributes
    u("put_att_new", api("put_att_text(new)", "put_att", "put_att", {"v": -1, "name": hx("pa_new"), "xt": NC_CHAR, "mt": "text", "n": 3, "hex": b"new"}, grows=True), coll=True)
    u("put_att_same", api("put_att_text(same size)", "put_att", "put_att", {"v": -1, "name": hx("title"), "xt": NC_CHAR, "mt": "text", "n": 5, "hex": b"HELLO"}), coll=True)
    u("put_att_larger", api("put_att_text(larger)", "put_att", "put_att", {"v": V_I, "name": hx("units"), "xt": NC_CHAR, "mt": "text", "n": 9, "hex": b"kilograms"}, grows=True), coll=True)
    u("put_att_var_new", api("put_att_int(new, variable)", "put_att", "put_att", {"v": V_I, "name": hx("pa_vnew"), "xt": NC_INT, "mt": "int", "n": 1, "hex": ints(1)}, grows=True), coll=True)
    u("put_att_notvar", api("put_att_text(new, varid=99)", "put_att", "put_att", {"v": BADV, "name": hx("pa_nv"), "xt": NC_CHAR, "mt": "text", "n": 3, "hex": b"new"}, grows=True, varerr="notvar"), coll=True)
    u("put_att_echar", api("put_att_int(new, xtype NC_CHAR)", "put_att", "put_att", {"v": -1, "name": hx("pa_ec"), "xt": NC_CHAR, "mt": "int", "n": 1, "hex": ints(1)}, grows=True, echar=True), coll=True)
    u("put_att_badid", api("put_att_text(bad ncid)", "put_att", "put_att", {"v": -1, "name": hx("pa_bi"), "xt": NC_CHAR, "mt": "text", "n": 3, "hex": b"new"}, badid=True))
    u("get_att", api("get_att_text", "get_att", "get_att", {"v": -1, "name": hx("title"), "mt": "text", "cap": 16}, coll=False))
    u("get_att_missing", api("get_att_text(no such attribute)", "get_att", "get_att", {"v": -1, "name": hx("nope"), "mt": "text", "cap": 16}, coll=False, argerr=E["ENOTATT"]))
    u("get_att_echar", api("get_att_int(text attribute)", "get_att", "get_att", {"v": -1, "name": hx("title"), "mt": "int", "cap": 64}, coll=False, argerr=E["ECHAR"]))
    u("get_att_notvar", api("get_att_text(varid=99)", "get_att", "get_att", {"v": BADV, "name": hx("title"), "mt": "text", "cap": 16}, coll=False, argerr=E["ENOTVAR"]))
    u("del_att", api("del_att", "del_att", "del_att", {"v": -1, "name": hx("gdel")}), coll=True)
    u("del_att_missing", api("del_att(no such attribute)", "del_att", "del_att", {"v": -1, "name": hx("nope")}, missing=True), coll=True)
    u("copy_att_new", api("copy_att(new in target)", "copy_att", "copy_att", {"v": V_I, "name": hx("units"), "f2": "f0", "v2": V_C}, grows=True), coll=True)
    u("copy_att_same", api("copy_att(same size in target)", "copy_att", "copy_att", {"v": V_I, "name": hx("units"), "f2": "f0", "v2": V_RN}), coll=True)
    # copy from a SECOND file (created for the purpose, then aborted) onto an existing, smaller attribute: only the mode of the
    # destination file matters; the source file is in define mode (first unit) resp. data mode (second unit)
    H = lambda label, op, **a: api(label, "helper", op, dict(a, f="f1"), coll=True)
    big = b"twelve chars"
    u("copy_att_larger_from_file_in_define_mode", [
        H("helper create", "create", path=hx("h.nc"), mode=0),
        H("helper put_att", "put_att", v=-1, name=hx("cpx"), xt=NC_CHAR, mt="text", n=len(big), hex=big),
        api("copy_att(larger, source file in define mode)", "copy_att", "copy_att", {"f": "f1", "v": -1, "name": hx("cpx"), "f2": "f0", "v2": -1}, grows=True),
        H("helper abort", "abort")], coll=True, fam="copy_att")
    u("copy_att_larger_from_file_in_data_mode", [
        H("helper create", "create", path=hx("h.nc"), mode=0),
        H("helper put_att", "put_att", v=-1, name=hx("cpx"), xt=NC_CHAR, mt="text", n=len(big) + 4, hex=big + b"more"),
        H("helper enddef", "enddef"),
        api("copy_att(larger, source file in data mode)", "copy_att", "copy_att", {"f": "f1", "v": -1, "name": hx("cpx"), "f2": "f0", "v2": -1}, grows=True),
        H("helper close", "close")], coll=True, fam="copy_att")
    # ---- fill
    u("fill_var_rec", api("fill_var_rec", "fill_var_rec", "fill_var_rec", {"v": V_R, "rec": 0}, rec_extent=1), coll=True)
    u("fill_var_rec_notrec", api("fill_var_rec(fixed variable)", "fill_var_rec", "fill_var_rec", {"v": V_I, "rec": 0}, notrec=True), coll=True)
    u("fill_var_rec_notvar", api("fill_var_rec(varid=99)", "fill_var_rec", "fill_var_rec", {"v": BADV, "rec": 0}, varerr="notvar"), coll=True)
    u("fill_var_rec_global", api("fill_var_rec(NC_GLOBAL)", "fill_var_rec", "fill_var_rec", {"v": -1, "rec": 0}, varerr="global"), coll=True)
    # ---- inquiries
    inq = lambda label, args, **c: api(label, "inq", "inq", args, coll=False, **c)
    u("inq_group", [
        inq("inq", {"what": "inq"}), inq("inq_format", {"what": "format"}), inq("inq_unlimdim", {"what": "unlimdim"}),
        inq("inq_dim", {"what": "dim", "v": D_X}), inq("inq_dimid", {"what": "dimid", "name": hx("x")}),
        inq("inq_var", {"what": "var", "v": V_I}), inq("inq_varid", {"what": "varid", "name": hx("vi")}),
        inq("inq_att", {"what": "att", "v": -1, "name": hx("title")}), inq("inq_attname", {"what": "attname", "v": -1, "attnum": 0}),
        inq("inq_nreqs", {"what": "nreqs"}), inq("inq_header_size", {"what": "header_size"}),
        inq("inq_header_extent", {"what": "header_extent"}), inq("inq_recsize", {"what": "recsize"}),
        inq("inq_put_size", {"what": "put_size"}), inq("inq_get_size", {"what": "get_size"}),
        inq("inq_var_fill", {"what": "var_fill", "v": V_R}), inq("inq_varoffset", {"what": "varoffset", "v": V_I}),
        inq("inq_num_rec_vars", {"what": "num_rec_vars"}), inq("inq_path", {"what": "path"}),
    ])
    u("inq_errors", [
        inq("inq_dim(dimid=99)", {"what": "dim", "v": 99}, argerr=E["EBADDIM"]),
        inq("inq_var(varid=99)", {"what": "varname", "v": BADV}, argerr=E["ENOTVAR"]),
        inq("inq_vartype(NC_GLOBAL)", {"what": "vartype", "v": -1}, argerr=E["EGLOBAL"]),
        inq("inq_att(no such attribute)", {"what": "att", "v": -1, "name": hx("nope")}, argerr=E["ENOTATT"]),
        inq("inq(bad ncid)", {"what": "inq"}, badid=True),
    ])
    return U


UNITS = build_units()
UNIT_BY_NAME = {u.name: u for u in UNITS}
assert len(UNIT_BY_NAME) == len(UNITS)


def excluded_unit(unit, stt):
    """named exclusion switch for the confirmed fill_var_rec defect: every call the dispatcher is documented to
    reject reaches the driver; the only rejection the driver repeats itself is ENOTRECVAR in collective rw mode."""
    if unit.fam != "fill_var_rec":
        return False
    out = MD.predict(stt, unit.steps[0].call)
    if out.permitted:
        return False
    if out.allowed == frozenset([E["ENOTRECVAR"]]):
        return False
    return True


# ------------------------------------------------------------------------------------------------ script builder
class Builder:
    def __init__(self, k):
        self.k = k
        self.s = Script(k=k, match=True)
        self.items = []          # evaluation plan
        self.nobs = 0
        self.fresh = False       # True while nothing was called since the last observation
        self.nbuf = 0

    def raw(self, op, coll=True, **kw):
        kw.setdefault("f", "f0")
        return self.s.op(op, step=coll and self.k > 1, **kw)

    def must(self, op, what=None, coll=True, **kw):
        """setup statement that has to succeed (harness precondition, not part of the verdict)"""
        n = self.raw(op, coll=coll, **kw)
        self.items.append({"t": "setup", "n": n, "what": what or op})
        self.fresh = False
        return n

    def emit(self, stp):
        """emit one Step on every rank; returns the statement number"""
        k = self.k
        sn = self.s.same_n()
        for r in range(k):
            kw = {}
            for key, val in stp.args.items():
                kw[key] = val(r, k) if callable(val) else val
            kw.setdefault("f", "f0")
            if stp.types:
                for slot, spec in stp.types(r, k).items():
                    self.s.op("type", ranks=[r], t=slot, spec=spec)
            if stp.buf is not None:
                self.nbuf += 1
                slot = "b%d" % (self.nbuf % 4000)
                self.s.op("buf", ranks=[r], b=slot, size=max(1, len(stp.buf(r, k))), hex=stp.buf(r, k))
                if getattr(stp, "mbuf", False):
                    kw["bufs"] = slot
                else:
                    kw["buf"] = slot
            self.s.op(stp.op, ranks=[r], sn=sn, step=stp.coll and k > 1, **kw)
        return sn

    def observe(self, stt):
        """full observation of the file as the current (model) mode allows it"""
        indata = stt.mode != MD.DEFINE
        nd = self.s.op("dumpall", step=(indata and stt.mode == MD.COLL and self.k > 1), f="f0", data=1 if indata else 0,
                       coll=1 if stt.mode == MD.COLL else 0)
        aux = [self.s.op("inq", f="f0", what=w) for w in ("nreqs", "buffer_size", "put_size")]
        name = "o%d" % self.nobs
        self.nobs += 1
        self.s.op("snapshot", path=hx(PATH), to=name)
        ob = {"t": "obs", "dump": nd, "aux": aux, "snap": name, "mode": stt.mode}
        self.items.append(ob)
        self.fresh = True
        return ob

    def checked(self, kind, label, emit, outcome, stt, unit=None):
        """emit one checked call.  A call the automaton does not predict to be accepted is bracketed by
        observations (the one before it is shared with the previous call when nothing happened in between) and
        followed by the mode witnesses."""
        sure = bool(outcome.permitted)
        if not sure and not self.fresh:
            self.observe(stt)
        n = emit()
        self.fresh = False
        wit = None if sure else emit_witnesses(self, stt)
        self.call(kind, label, n, outcome, stt, unit=unit, witnesses=wit)
        if not sure:
            self.observe(stt)
        return n

    def call(self, kind, stp_label, n, outcome, stt, unit=None, witnesses=None):
        it = {"t": "call", "kind": kind, "label": stp_label, "n": n, "allowed": None if outcome.allowed is None else sorted(outcome.allowed),
              "why": outcome.why, "state": "%s/%s/%s" % stt.key(), "unit": unit, "wit": witnesses or []}
        self.items.append(it)
        return it


WIT_WAIT = wait("witness wait(0)", 0, count=0)
WIT_GET = data("witness get_vara_int_all", "get", "vara", 1, "int", V_I)


def emit_witnesses(b, stt):
    out = []
    for w in (WIT_WAIT, WIT_GET):
        n = b.emit(w)
        o = MD.predict(stt, w.call)
        out.append({"n": n, "label": w.label, "allowed": sorted(o.allowed)})
    return out


def setup_define(b, create=True):
    """create the file and define the fixed schema; leaves the file in define mode"""
    if create:
        b.must("create", path=hx(PATH), mode=0)
    b.must("set_fill", mode=0)                               # NC_FILL: every variable is determinate after enddef
    for name, ln in (("x", X), ("y", Y), ("t", 0), ("drn", 2)):
        b.must("def_dim", name=hx(name), len=ln)
    for name, xt, dims in (("vi", NC_INT, [D_X]), ("vc", NC_CHAR, [D_Y]), ("vr", NC_INT, [D_T, D_X]), ("vrn", NC_INT, [D_X]), ("vfl", NC_INT, [D_X])):
        b.must("def_var", name=hx(name), xt=xt, dims=dims, ndims=len(dims))
    b.must("def_var_fill", v=V_R, nofill=0, fv=struct.pack("=i", -99))   # explicit _FillValue: fill mode of vr survives reopen
    for v, name, val in ((-1, "title", b"hello"), (-1, "gdel", b"d"), (-1, "gre1", b"a"), (-1, "gre2", b"b"), (V_I, "units", b"abc"), (V_RN, "units", b"xyz"), (-1, "cpx", b"ab")):
        b.must("put_att", v=v, name=hx(name), xt=NC_CHAR, mt="text", n=len(val), hex=val)


def setup_data(b):
    """enddef, write every variable, close"""
    b.must("enddef")
    for stp in (data("s", "put", "vara", 1, "int", V_I), data("s", "put", "vara", 1, "text", V_C, geom="y", esz=1),
                data("s", "put", "vara", 1, "int", V_R, geom="rec")):
        n = b.emit(stp)
        b.items.append({"t": "setup", "n": n, "what": "setup put"})
        b.fresh = False
    rec2 = data("s", "put", "vara", 1, "int", V_R, geom="rec")
    rec2.args["start"] = lambda r, k: [1, r * (X // k)]
    n = b.emit(rec2)
    b.items.append({"t": "setup", "n": n, "what": "setup put record 1"})
    b.must("close")


def build(case):
    """case -> (Builder, info).  case = {start, prefix[], probes: 'all' | 'coll' | [unit names], k, exclude: [switch names]}"""
    k = int(case.get("k", 1))
    b = Builder(k)
    start, prefix = case["start"], list(case["prefix"])
    exclude = set(case.get("exclude", []))
    info = {"excluded": 0, "labels": set(), "nprobe_calls": 0, "states": []}
    # ---- start state
    if start == "create":
        setup_define(b)
    else:
        setup_define(b)
        setup_data(b)
        b.must("open", path=hx(PATH), mode=1 if start == "open_rw" else 0)
    stt = MD.start_state(start)
    info["states"].append(stt.key())
    b.items.append({"t": "modecheck", "after": start, "state": "%s/%s/%s" % stt.key(), "wit": emit_witnesses(b, stt)})
    # ---- prefix of mode-changing calls
    for op in prefix:
        calls, nst = MD.step(stt, op)
        if op in ("reopen_rw", "reopen_ro"):
            b.checked("step", "close", lambda: b.raw("close"), calls[0][1], stt)
            b.checked("step", "open", lambda: b.raw("open", path=hx(PATH), mode=1 if op == "reopen_rw" else 0), calls[1][1], stt)
        elif op == "abort_create":
            b.checked("step", "abort", lambda: b.raw("abort"), calls[0][1], stt)
            b.checked("step", "create", lambda: b.raw("create", path=hx(PATH), mode=0), calls[1][1], stt)
            setup_define(b, create=False)
        else:
            b.checked("step", op, lambda: b.raw(op), calls[0][1], stt)
        stt = nst
        info["states"].append(stt.key())
        # both layers of the library must now be in the mode the automaton is in
        b.items.append({"t": "modecheck", "after": op, "state": "%s/%s/%s" % stt.key(), "wit": emit_witnesses(b, stt)})
        b.fresh = False
    info["final"] = stt.key()
    info["nchanges"] = stt.nchanges
    # ---- probe units
    sel = case.get("probes", "all")
    if sel == "all":
        units = UNITS
    elif sel == "coll":
        units = [u for u in UNITS if u.coll]
    else:
        units = [UNIT_BY_NAME[nm] for nm in sel]
    base = stt.copy()        # which units run is a pure function of the state the prefix reached
    for unit in units:
        if unit.when is not None and not unit.when(base):
            continue
        if "fill_var_rec_unchecked" in exclude and excluded_unit(unit, base):
            info["excluded"] += 1
            continue
        ust = stt.copy()
        ust.abuf, ust.pending_bput = False, 0
        for stp in unit.steps:
            out = MD.predict(ust, stp.call)
            b.checked("probe", stp.label, lambda: b.emit(stp), out, ust, unit=unit.name)
            if out.permitted:
                MD.effect(ust, stp.call)
            info["nprobe_calls"] += 1
        stt.numrecs = ust.numrecs
    b.checked("final", "close", lambda: b.raw("close"), MD.Outcome(MD.OK, "close is permitted in every mode [MAN]"), stt)
    return b, info


# ------------------------------------------------------------------------------------------------ evaluation
def _obs_value(res, d, ob, k):
    vals = []
    for r in range(k):
        e = res.get(ob["dump"], r)
        dump = {kk: v for kk, v in (e or {}).items() if kk != "n"}
        aux = []
        for n in ob["aux"]:
            a = res.get(n, r) or {}
            aux.append((a.get("rc"), tuple(a.get("r") or [])))
        vals.append((dump, aux))
    try:
        with open(os.path.join(d, ob["snap"]), "rb") as f:
            snap = f.read()
    except OSError:
        snap = None
    return vals, snap


def _obs_diff(a, b):
    (va, sa), (vb, sb) = a, b
    out = []
    for r, ((da, xa), (db, xb)) in enumerate(zip(va, vb)):
        if da != db:
            keys = [kk for kk in sorted(set(da) | set(db)) if da.get(kk) != db.get(kk)]
            out.append("rank %d: inquiry dump differs in %s" % (r, keys[:6]))
        if xa != xb:
            out.append("rank %d: (nreqs, buffer_size, put_size) %s -> %s" % (r, xa, xb))
    if sa != sb:
        out.append("file bytes changed (%s -> %s bytes)" % (None if sa is None else len(sa), None if sb is None else len(sb)))
    return out


def evaluate(b, res, d, case):
    k = b.k
    probs = []
    facts = {"rejected_then_accepted": False, "nrejected": 0, "naccepted": 0}

    def bad(kind, msg, **sig):
        s = {"kind": kind}
        s.update(sig)
        probs.append({"kind": kind, "msg": msg, "sig": s})

    mode_broken = False      # a mode check after a prefix step already failed: later witness failures are consequences
    prev_obs = None          # observation taken immediately before the next call (None if something was called since)
    pending = None           # call item waiting for its 'after' observation
    seen_rejected_probe = False
    for it in b.items:
        if it["t"] == "setup":
            for r in range(k):
                rc = res.rc(it["n"], r)
                if rc != 0:
                    # the harness could not build its precondition: not a verdict about the property
                    raise SetupFailed("setup statement %s returned %s on rank %d" % (it["what"], rc, r))
            prev_obs = pending = None
            continue
        if it["t"] == "modecheck":
            for w in it["wit"]:
                for r in range(k):
                    rc = res.rc(w["n"], r)
                    if rc not in w["allowed"]:
                        mode_broken = True
                        bad("mode_mismatch_after_step", "after %s (prefix %s from %s) the automaton is in %s but %s returned %s, expected %s" % (
                            it["after"], "+".join(case["prefix"]) or "-", case["start"], it["state"], w["label"], rc, w["allowed"]),
                            call=it["after"], state=it["state"], witness=w["label"], rc=rc)
                        break
            prev_obs = pending = None
            continue
        if it["t"] == "obs":
            cur = _obs_value(res, d, it, k)
            if pending is not None and pending["rejected"] and pending["before"] is not None and pending["kind"] != "final":
                diff = _obs_diff(pending["before"], cur)
                if diff:
                    bad("effect_of_rejected_call", "%s in state %s returned %s but changed the file or its state: %s" % (
                        pending["label"], pending["state"], pending["rcs"], "; ".join(diff[:3])),
                        call=pending["label"], state=pending["state"], unit=pending["unit"])
            pending = None
            prev_obs = cur
            continue
        # ---- a checked call
        rcs = [res.rc(it["n"], r) for r in range(k)]
        if any(rc is None for rc in rcs):
            bad("no_result", "%s produced no result" % it["label"], call=it["label"])
            prev_obs = pending = None
            continue
        allowed = it["allowed"]
        rejected = any(rc != 0 for rc in rcs)
        if it["kind"] == "probe":
            if rejected:
                seen_rejected_probe = True
                facts["nrejected"] += 1
            else:
                facts["naccepted"] += 1
                if seen_rejected_probe:
                    facts["rejected_then_accepted"] = True
        if allowed is not None:
            for r, rc in enumerate(rcs):
                if rc not in allowed:
                    if allowed == [0]:
                        kind = "permitted_call_failed"
                    elif rc == 0:
                        kind = "forbidden_call_accepted"
                    else:
                        kind = "wrong_error_code"
                    bad(kind, "%s in state %s (after %s from %s) returned %d on rank %d, documented: %s  [%s]" % (
                        it["label"], it["state"], "+".join(case["prefix"]) or "no mode change", case["start"], rc, r, allowed, it["why"]),
                        call=it["label"], state=it["state"], rc=rc, unit=it["unit"])
                    break
        if k > 1 and len(set(rcs)) > 1:
            bad("rank_disagreement", "%s returned %s on the ranks of one symmetric call" % (it["label"], rcs), call=it["label"])
        for w in it["wit"]:
            for r in range(k):
                rc = res.rc(w["n"], r)
                if rc not in w["allowed"] and rejected and not mode_broken:
                    bad("mode_changed_by_rejected_call", "after %s was rejected (%s) in state %s, %s returned %s, expected %s: the mode changed" % (
                        it["label"], rcs, it["state"], w["label"], rc, w["allowed"]), call=it["label"], state=it["state"], witness=w["label"], unit=it["unit"])
                    break
                if rc not in w["allowed"] and not rejected:
                    # the call was (wrongly) accepted: already reported above; the witnesses describe the old state
                    break
        pending = {"rejected": rejected, "before": prev_obs, "label": it["label"], "state": it["state"], "rcs": rcs,
                   "unit": it["unit"], "kind": it["kind"]}
        prev_obs = None
    return probs, facts


class SetupFailed(Exception):
    pass


# ------------------------------------------------------------------------------------------------ running
def run_script(ctx, case):
    b, info = build(case)
    env = {}
    if case.get("safe"):
        env["PNETCDF_SAFE_MODE"] = "1"
    if b.k > 1:
        # mpiexec binds the ranks of every 2-process job to the same two cores by default; concurrent pools of the
        # workers would then all share those cores
        env["OMPI_MCA_hwloc_base_binding_policy"] = "none"
    pool = ctx.pool("asan", nprocs=b.k, env=env or None)
    res, d = pool.run(b.s, keepdir=True)
    try:
        probs, facts = evaluate(b, res, d, case)
        cl = res.cleanup(0).get("closed") or []
        if cl:
            probs.append({"kind": "left_open", "msg": "file still open at the end of the script: %s" % cl, "sig": {"kind": "left_open"}})
    finally:
        shutil.rmtree(d, ignore_errors=True)
    return probs, facts, info, b


def run_case(ctx, case):
    """replays one (start, prefix, probe set, k) case; on a crash/hang of a batched case the units are re-run one
    by one so that the problem names the culprit"""
    ctx.no_verdict = False
    try:
        probs, facts, info, b = run_script(ctx, case)
    except SetupFailed as e:
        return no_verdict(ctx, "setup failed: %s case=%s" % (e, case))
    except PoolError as e:
        if e.kind == "start":
            return no_verdict(ctx, "pool did not start: %s" % e.stderr_tail[-300:])
        sel = case.get("probes", "all")
        names = [u.name for u in UNITS] if sel == "all" else [u.name for u in UNITS if u.coll] if sel == "coll" else list(sel)
        if len(names) <= 1 or ctx.stats["crash_fallbacks"] >= MAX_CRASH_FALLBACKS:
            raise
        ctx.stats["crash_fallbacks"] += 1
        out = []
        for nm in [None] + names:
            sub = dict(case)
            sub["probes"] = [] if nm is None else [nm]
            try:
                p = runner.guarded(lambda c, cs: run_script(c, cs)[0])(ctx, sub)
            except SetupFailed as e2:
                return no_verdict(ctx, "setup failed: %s case=%s" % (e2, sub))
            if any(x.get("kind") == "start" for x in p):
                return no_verdict(ctx, "pool did not start")
            for x in p:
                x["minimal_case"] = sub
                x["msg"] = "[unit %s alone] %s" % (nm, x["msg"])
                x.setdefault("sig", {})["unit"] = nm
            out += p
            if len(out) >= 3:
                break
        if not out:
            raise
        return out
    ctx.count("k%d" % b.k, "start_" + case["start"], "final_%s/%s/%s" % info["final"], "depth_%d" % len(case["prefix"]))
    for stkey in set(info["states"]):
        ctx.count("visited_%s/%s/%s" % stkey)
    ctx.stats["probe_calls"] += info["nprobe_calls"]
    ctx.stats["rejected_probe_calls"] += facts["nrejected"]
    ctx.stats["accepted_probe_calls"] += facts["naccepted"]
    if info["excluded"]:
        ctx.stats["excluded_fill_var_rec_unchecked"] += info["excluded"]
    if info["nchanges"] >= 2 and facts["rejected_then_accepted"]:
        ctx.nontrivial(runner.case_hash(case))
    if len(case["prefix"]) >= 2:
        ctx.sample({"case": case, "final_state": info["final"], "script_head": b.s.lines[:60], "script_lines": len(b.s.lines)}, limit=2)
    for p in probs:
        u = (p.get("sig") or {}).get("unit")
        if u and case.get("probes", "all") in ("all", "coll"):
            sub = dict(case)
            sub["probes"] = [u]
            p["minimal_case"] = sub
    return probs


def no_verdict(ctx, why):
    """the harness could not do its job for this case (pool cannot start, setup statement failed): never a violation"""
    ctx.no_verdict = True
    ctx.notes.append("no verdict: " + why[:600])
    ctx.stats["harness_exceptions"] += 1
    return []


def case_script(case):
    return build(case)[0].s.text("<dir>")[0]


def default_exclude():
    return ["fill_var_rec_unchecked"] if EXCLUDE_FILL_VAR_REC_UNCHECKED else []


def enumeration(tier):
    """the deterministic list of cases of a tier, in a fixed order"""
    depth = int(os.environ.get("C14_DEPTH", DEPTH[tier]))
    cases = []
    ex = default_exclude()
    for start in MD.STARTS:
        for prefix in MD.enumerate_prefixes(depth):
            cases.append({"start": start, "prefix": prefix, "probes": "all", "k": 1, "exclude": ex, "part": "enum"})
    # isolation cross-check of the batching: every unit alone after every prefix of depth <= ISOLATION_DEPTH
    for start in MD.STARTS:
        for prefix in MD.enumerate_prefixes(ISOLATION_DEPTH[tier]):
            for u in UNITS:
                cases.append({"start": start, "prefix": prefix, "probes": [u.name], "k": 1, "exclude": ex, "part": "isolated"})
    for start in MD.STARTS:
        for prefix in MD.enumerate_prefixes(DEPTH_K2[tier]):
            cases.append({"start": start, "prefix": prefix, "probes": "coll", "k": 2, "exclude": ex, "part": "enum_k2"})
    # safe mode: the dispatcher takes its error-agreement paths; nothing is excluded there
    for start in MD.STARTS:
        for prefix in MD.enumerate_prefixes(DEPTH_SAFE[tier]):
            cases.append({"start": start, "prefix": prefix, "probes": "all", "k": 1, "exclude": [], "safe": 1, "part": "enum_safe"})
    for start in MD.STARTS:
        for prefix in MD.enumerate_prefixes(DEPTH_SAFE[tier] - 1):
            cases.append({"start": start, "prefix": prefix, "probes": "coll", "k": 2, "exclude": [], "safe": 1, "part": "enum_safe_k2"})
    return cases


def n_enum(tier):
    depth = int(os.environ.get("C14_DEPTH", DEPTH[tier]))
    return len(MD.STARTS) * (len(MD.STEPS) ** (depth + 1) - 1) // (len(MD.STEPS) - 1)


@st.composite
def history_strategy(draw, tier="quick"):
    depth = DEPTH[tier]
    start = draw(st.sampled_from(MD.STARTS))
    prefix = draw(st.lists(st.sampled_from(MD.STEPS), min_size=depth + 1, max_size=depth + 9))
    return {"start": start, "prefix": prefix, "probes": "all", "k": 1, "exclude": default_exclude(), "part": "random"}


def minimise(ctx, run, case, prob):
    """smallest case that still shows a problem of the same kind for the same call: the unit alone, then greedy
    removal of prefix steps (deterministic; every candidate is really executed)"""
    sig = prob.get("sig") or {}

    def fails(c):
        try:
            ps = run(ctx, c)
        except Exception:
            return False
        return any(q.get("kind") == prob.get("kind") and (q.get("sig") or {}).get("call") == sig.get("call") and not ctx.known.match(q) for q in ps)
    best = case
    mc = prob.get("minimal_case")
    if mc is not None and mc != case and fails(mc):
        best = mc
    i = 0
    while i < len(best["prefix"]):
        cand = dict(best)
        cand["prefix"] = best["prefix"][:i] + best["prefix"][i + 1:]
        if fails(cand):
            best = cand
        else:
            i += 1
    return best


def campaign(ctx):
    cases = enumeration(ctx.tier)
    run = runner.guarded(run_case)
    seen_sig = set()
    last_part = None
    # k=2 pools busy-wait: only every second worker takes part in the 2-rank parts so that ranks are not oversubscribed
    half = [w for w in range(ctx.nworkers) if w % 2 == 0]
    counters = {}
    nfailing = 0
    stopped = False
    for case in cases:
        if stopped:
            break
        team = half if case["k"] > 1 else list(range(ctx.nworkers))
        i = counters.get(case["part"], 0)
        counters[case["part"]] = i + 1
        if team[i % len(team)] != ctx.widx:
            continue
        case = {kk: v for kk, v in case.items()}
        part = case.pop("part")
        if part != last_part:
            # one pool at a time: idle ranks of a k=2 pool spin inside MPI_Bcast
            ctx.close()
            if os.environ.get("C14_TIMING"):
                import time
                ctx.notes.append("w%d part %s starts at %.1f" % (ctx.widx, part, time.time() % 1000))
            last_part = part
        try:
            probs = run(ctx, case)
        except Exception:
            import traceback
            ctx.notes.append("harness exception: %s case=%s" % (traceback.format_exc()[-1200:], case))
            ctx.stats["harness_exceptions"] += 1
            continue
        if getattr(ctx, "no_verdict", False):
            continue
        ctx.evaluations += 1
        ctx.stats["cases_" + part] += 1
        real = []
        for p in probs:
            if ctx.known.match(p):
                ctx.excluded_known += 1
            else:
                real.append(p)
        if real:
            nfailing += 1
            if nfailing >= STOP_AFTER_FAILING_CASES:
                ctx.notes.append("worker %d stopped the enumeration after %d failing cases" % (ctx.widx, nfailing))
                stopped = True
        for p in real:
            sig = p.get("sig") or {}
            key = (p.get("kind"), sig.get("call"), sig.get("unit"), sig.get("rc"), sig.get("func"))
            if key in seen_sig:
                ctx.stats["duplicate_failures"] += 1
                continue
            seen_sig.add(key)
            if len(ctx.failures) < 2:
                small = minimise(ctx, run, case, p)
                ctx.failures.append({"case": small, "problems": [{kk: v for kk, v in p.items() if kk != "minimal_case"}], "label": part})
    n = N_HYP[ctx.tier]
    if n and not ctx.failures:
        def hyp_case(c, case):
            case = {kk: v for kk, v in case.items() if kk != "part"}
            ctx.stats["cases_random"] += 1
            return run(c, case)
        runner.run_hypothesis(ctx, history_strategy(ctx.tier), hyp_case, n, label="random")


def coverage_extra(stats, tier):
    want = n_enum(tier)
    got = stats.get("cases_enum", 0)
    # a case is only counted when it was evaluated to a verdict
    out = {"exhaustive": bool(got == want),
           "enumeration": {"depth": int(os.environ.get("C14_DEPTH", DEPTH[tier])), "prefix_cases_expected": want, "prefix_cases_evaluated": got,
                           "isolated_unit_cases": stats.get("cases_isolated", 0), "k2_prefix_cases": stats.get("cases_enum_k2", 0),
                           "safe_mode_prefix_cases": stats.get("cases_enum_safe", 0), "safe_mode_k2_prefix_cases": stats.get("cases_enum_safe_k2", 0),
                           "depth_k2": DEPTH_K2[tier], "depth_safe_mode": DEPTH_SAFE[tier], "isolation_depth": ISOLATION_DEPTH[tier],
                           "random_history_cases": stats.get("cases_random", 0),
                           "units": len(UNITS), "calls_per_full_probe_set": sum(len(u.steps) for u in UNITS),
                           "probe_calls": stats.get("probe_calls", 0), "rejected_probe_calls": stats.get("rejected_probe_calls", 0),
                           "accepted_probe_calls": stats.get("accepted_probe_calls", 0),
                           "states_reached": sorted(kk[len("visited_"):] for kk in stats if kk.startswith("visited_")),
                           "excluded_fill_var_rec_unchecked": stats.get("excluded_fill_var_rec_unchecked", 0)}}
    return out


if __name__ == "__main__":
    runner.main("checks.c14", PROP, default_workers=8, nt_floor=50)
