"""Seed files, dictionary and header field map for C19 part A (malformed input files).

Seeds are produced by the independent encoder pv/cdfspec.py (never by the library under test):
small valid files in CDF-1/2/5 with/without record variables, attributes of every type, a scalar
variable, zero-length lists in both encodings, plus 'big header' files for the fuzzer only and the
foreign-writer sample files shipped with scipy (DESIGN appendix E)."""
import os, glob, struct
import numpy as np
from pv import cdfspec as C

ALL_TYPES = {1: [1, 2, 3, 4, 5, 6], 2: [1, 2, 3, 4, 5, 6], 5: list(range(1, 12))}


def _att(name, xt, n=2):
    if xt == C.NC_CHAR:
        return C.Att(name, xt, (b"text-" * 4)[:max(n, 1) + 3])
    return C.Att(name, xt, np.arange(1, n + 1))


def _data(f, i, k=7):
    v = f.vars[i]
    shape = f.var_shape(v)
    n = int(np.prod(shape)) if shape else 1
    if v.xtype == C.NC_CHAR:
        return bytes((65 + (j + k) % 26) for j in range(n))
    return (np.arange(n) % 100 + k).astype(C.NP_DTYPE[v.xtype]).reshape(shape)


def _finish(f, **kw):
    C.assign_layout(f, **kw)
    data = {i: _data(f, i) for i in range(len(f.vars))}
    b = C.encode(f, data)
    C.decode(b)                      # the encoder's output is specification-valid
    return b


def seed_fixed(ver):
    """two fixed-size variables, one global and one variable attribute"""
    f = C.CDFFile(version=ver, numrecs=0,
                  dims=[C.Dim(b"x", 3), C.Dim(b"y", 2)],
                  gatts=[_att(b"title", C.NC_CHAR, 3)],
                  vars=[C.Var(b"a", C.NC_INT, [0, 1], [_att(b"scale", C.NC_DOUBLE, 1)]),
                        C.Var(b"b", C.NC_SHORT, [0])])
    return _finish(f)


def seed_record(ver):
    """record dimension, two record variables + one fixed variable + a scalar, 3 records"""
    t2 = C.NC_INT64 if ver == 5 else C.NC_FLOAT
    f = C.CDFFile(version=ver, numrecs=3,
                  dims=[C.Dim(b"time", 0), C.Dim(b"lat", 2)],
                  gatts=[_att(b"hist", C.NC_CHAR, 2), _att(b"n", C.NC_INT, 2)],
                  vars=[C.Var(b"fix", C.NC_DOUBLE, [1]),
                        C.Var(b"r1", C.NC_SHORT, [0, 1], [_att(b"u", C.NC_SHORT, 3)]),
                        C.Var(b"sc", C.NC_BYTE, []),
                        C.Var(b"r2", t2, [0])])
    return _finish(f)


def seed_onerec(ver):
    """exactly one record variable (packed records rule), no attributes"""
    f = C.CDFFile(version=ver, numrecs=5, dims=[C.Dim(b"t", 0)], vars=[C.Var(b"v", C.NC_BYTE, [0])])
    return _finish(f)


def seed_alltypes(ver):
    """one global attribute and one variable of every external type legal in the format"""
    ts = ALL_TYPES[ver]
    f = C.CDFFile(version=ver, numrecs=0, dims=[C.Dim(b"d", 2)],
                  gatts=[_att(b"g%d" % t, t, 1 + t % 3) for t in ts],
                  vars=[C.Var(b"v%d" % t, t, [0] if t % 2 else []) for t in ts])
    return _finish(f)


def seed_empty(ver, style=None):
    """no dims / atts / vars; lists encoded as ABSENT or with the tag and nelems 0"""
    ls = {"dims": style, "gatts": style, "vars": style} if style else {}
    f = C.CDFFile(version=ver, numrecs=0, list_style=ls)
    return C.encode(f)


def seed_dimsonly(ver):
    f = C.CDFFile(version=ver, numrecs=0, dims=[C.Dim(b"only", 4), C.Dim(b"rec", 0)], gatts=[_att(b"a", C.NC_BYTE, 5)])
    return C.encode(f)


def seed_padded(ver):
    """header followed by free space and aligned variables (layout PnetCDF produces with hints)"""
    f = C.CDFFile(version=ver, numrecs=2, dims=[C.Dim(b"t", 0), C.Dim(b"x", 3)],
                  vars=[C.Var(b"p", C.NC_FLOAT, [1]), C.Var(b"q", C.NC_INT, [0, 1], [_att(b"m", C.NC_FLOAT, 2)])])
    return _finish(f, header_pad=40, var_align=64, rec_align=32)


def seed_bighdr(ver, ndims=60, natts=45, nvars=22):
    if ver == 5:
        ndims, natts, nvars = 45, 34, 17
    """well over a hundred header objects, sized to stay below the fuzzer's -max_len=4096 (fuzzer seed only; too long
    for the exhaustive enumeration)"""
    ts = ALL_TYPES[ver]
    dims = [C.Dim(b"t", 0)] + [C.Dim(b"d%03d" % i, 1 + i % 3) for i in range(1, ndims)]
    gatts = [_att(b"att%03d" % i, ts[i % len(ts)], 1 + i % 4) for i in range(natts)]
    vars_ = []
    for i in range(nvars):
        dd = [0] if i % 5 == 0 else []
        dd += [1 + (i * 7 + k) % (ndims - 1) for k in range(i % 4)]
        vars_.append(C.Var(b"var%03d" % i, ts[i % len(ts)], dd, [_att(b"va", ts[(i + 1) % len(ts)], 2)] if i % 3 == 0 else []))
    f = C.CDFFile(version=ver, numrecs=2, dims=dims, gatts=gatts, vars=vars_)
    C.assign_layout(f)
    return C.encode(f, {0: _data(f, 0)})


def scipy_samples():
    out = {}
    for root in glob.glob("/opt/veriftools/pyvenv/lib/python3*/site-packages/scipy/io/tests/data"):
        for p in sorted(glob.glob(os.path.join(root, "*.nc"))):
            b = open(p, "rb").read()
            if b[:3] == b"CDF":
                out["scipy_" + os.path.basename(p)[:-3].replace("-", "_")] = b
    return out


def seed_newtypes_v5():
    """the five external types that only CDF-5 has, as attributes and variables"""
    ts = [7, 8, 9, 10, 11]
    f = C.CDFFile(version=5, numrecs=0, dims=[C.Dim(b"d", 2)],
                  gatts=[_att(b"g%d" % t, t, 1 + t % 3) for t in ts],
                  vars=[C.Var(b"v%d" % t, t, [0] if t % 2 else []) for t in ts])
    return _finish(f)


QUICK_ENUM = ["record_v1", "record_v2", "record_v5", "alltypes_v1", "newtypes_v5", "onerec_v1", "onerec_v2", "onerec_v5", "padded_v2",
              "empty_v1", "empty_v5_tag0", "dimsonly_v2", "scipy_example_2"]


def enum_seeds(tier="thorough"):
    """name -> bytes; small headers (<= ~600 bytes in the quick tier) so that the exhaustive enumeration stays cheap.
    quick: one seed per structural feature and format (about 50k inputs); thorough: all of them plus the big-header files"""
    s = {}
    for v in (1, 2, 5):
        s["fixed_v%d" % v] = seed_fixed(v)
        s["record_v%d" % v] = seed_record(v)
        s["onerec_v%d" % v] = seed_onerec(v)
        s["alltypes_v%d" % v] = seed_alltypes(v)
        s["padded_v%d" % v] = seed_padded(v)
    s["newtypes_v5"] = seed_newtypes_v5()
    s["empty_v1"] = seed_empty(1)
    s["empty_v5_tag0"] = seed_empty(5, "tag0")
    s["dimsonly_v2"] = seed_dimsonly(2)
    for k, b in scipy_samples().items():
        s[k] = b
    if tier == "quick":
        return {k: s[k] for k in QUICK_ENUM if k in s}
    for v in (1, 2, 5):
        s["bighdr_v%d" % v] = seed_bighdr(v)
    return s


def fuzz_seeds():
    s = dict(enum_seeds("thorough"))
    s["empty_v2_tag0"] = seed_empty(2, "tag0")
    return s


def fuzz_dictionary():
    """libFuzzer -dict file content: magic numbers, tags, type codes, extreme 32/64-bit big-endian values"""
    toks = [b"CDF\x01", b"CDF\x02", b"CDF\x05", b"\x89HDF\r\n\x1a\n"]
    v32 = list(range(0, 13)) + [0x7f, 0x80, 0xff, 0x100, 0x101, 0x7fff, 0x8000, 0xffff, 0x10000, 0x100000, 0x1000000,
                                0x10000000, 0x7fffffff, 0x80000000, 0xffffffff, 0xfffffffc]
    v64 = [0, 1, 2, 10, 11, 12, 0x100, 0x101, 0xffff, 0x100000, 0x7fffffff, 0x80000000, 0xffffffff, 0x100000000,
           0x7fffffffffffffff, 0x8000000000000000, 0xffffffffffffffff]
    toks += [struct.pack(">I", v) for v in v32] + [struct.pack(">Q", v) for v in v64]
    toks += [struct.pack(">II", t, n) for t in (10, 11, 12) for n in (0, 1, 2)]
    toks += [struct.pack(">IQ", t, n) for t in (10, 11, 12) for n in (0, 1)]
    lines, seen = [], set()
    for t in toks:
        if t in seen:
            continue
        seen.add(t)
        lines.append('"' + "".join("\\x%02x" % b for b in t) + '"')
    return "\n".join(lines) + "\n"


# ---------------------------------------------------------------- field map (diagnostics only)
def field_map(data):
    """[(offset, width, label)] of a valid header: used to say WHICH field a failing substitution hit"""
    out = []
    ver = data[3]
    w = 8 if ver == 5 else 4
    ow = 4 if ver == 1 else 8
    pos = [0]

    def take(n, label):
        out.append((pos[0], n, label))
        pos[0] += n

    def num(label):
        o = pos[0]
        take(w, label)
        return int.from_bytes(data[o:o + w], "big")

    def u32(label):
        o = pos[0]
        take(4, label)
        return int.from_bytes(data[o:o + 4], "big")

    def name(pfx):
        n = num(pfx + ".name_len")
        take(-(-n // 4) * 4, pfx + ".name")

    def atts(pfx):
        u32(pfx + "att_list.tag")
        n = num(pfx + "att_list.nelems")
        for i in range(n):
            p = "%satt[%d]" % (pfx, i)
            name(p)
            t = u32(p + ".nc_type")
            ne = num(p + ".nelems")
            nb = ne * C.TYPE_SIZE.get(t, 1)
            take(-(-nb // 4) * 4, p + ".values")

    take(4, "magic")
    num("numrecs")
    u32("dim_list.tag")
    nd = num("dim_list.nelems")
    for i in range(nd):
        name("dim[%d]" % i)
        num("dim[%d].length" % i)
    atts("g")
    u32("var_list.tag")
    nv = num("var_list.nelems")
    for i in range(nv):
        p = "var[%d]" % i
        name(p)
        k = num(p + ".ndims")
        for j in range(k):
            num(p + ".dimid[%d]" % j)
        atts(p + ".v")
        u32(p + ".nc_type")
        num(p + ".vsize")
        take(ow, p + ".begin")
    return out


def field_of(fmap, off, width):
    """labels of the fields overlapped by [off, off+width), indices stripped (dim[3].length -> dim.length)"""
    import re
    labs = []
    for o, n, lab in fmap:
        if o < off + width and off < o + n:
            lab = re.sub(r"\[\d+\]", "", lab)
            if lab not in labs:
                labs.append(lab)
    return "+".join(labs) if labs else "data"
