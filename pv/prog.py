"""Program builder: turns logical requests into pncx statements while
simulating the reference model, and records deferred checks that are
evaluated against the executor's results."""
import numpy as np
from pv.pool import Script, hx
from pv import model as M

FILL_BYTE = 0xEE


def req_geometry(fm, req, numrecs_view):
    """(idx (N,nd) in buffer order, mempos (N,), n_logical) for a request dict"""
    v = fm.vars[req["var"]]
    nd = len(v.dimids)
    form = req["form"]
    if form == "var":
        shp = list(fm.shape(v, numrecs_view))
        idx = M.box_indices([0] * nd, shp)
        return idx, np.arange(len(idx), dtype=np.int64), len(idx)
    if form == "var1":
        idx = M.box_indices(req["start"], [1] * nd)
        return idx, np.arange(len(idx), dtype=np.int64), len(idx)
    if form == "vara":
        idx = M.box_indices(req["start"], req["count"])
        return idx, np.arange(len(idx), dtype=np.int64), len(idx)
    if form == "vars":
        idx = M.box_indices(req["start"], req["count"], req.get("stride"))
        return idx, np.arange(len(idx), dtype=np.int64), len(idx)
    if form == "varm":
        idx = M.box_indices(req["start"], req["count"], req.get("stride"))
        if req.get("imap") is None or nd == 0 or len(idx) == 0:
            return idx, np.arange(len(idx), dtype=np.int64), len(idx)
        mp = M.imap_positions(req["count"], req["imap"])
        return idx, mp, int(mp.max()) + 1
    if form == "varn":
        parts = [M.box_indices(s, c if c is not None else [1] * nd) for s, c in zip(req["starts"], req["counts"] or [None] * len(req["starts"]))]
        idx = np.concatenate(parts) if parts else np.zeros((0, nd), dtype=np.int64)
        return idx, np.arange(len(idx), dtype=np.int64), len(idx)
    if form == "vard":
        idx = M.box_indices(req["start"], req["count"], req.get("stride"))
        # elements are consumed in file-offset order
        if len(idx):
            off = fm.elem_offsets_rel(req["var"], idx)
            order = np.argsort(off, kind="stable")
            idx = idx[order]
        return idx, np.arange(len(idx), dtype=np.int64), len(idx)
    raise ValueError(form)


def vard_filetype(fm, req, idx):
    """filetype (datatype-language tuple) selecting the elements idx of the variable"""
    v = fm.vars[req["var"]]
    prim = M.MT_PRIM[M.XT_NATIVE_MT[v.xt]]
    if len(idx) == 0:
        return ("ctg", 0, ("prim", prim))
    off = fm.elem_offsets_rel(req["var"], idx)
    kind = req.get("ftkind", "hidx")
    shp = [fm.dims[d][1] for d in v.dimids]
    stride = req.get("stride")
    if kind == "sub" and not fm.is_rec(v) and len(shp) > 0 and (stride is None or all(s == 1 for s in stride)):
        return ("sub", shp, list(req["count"]), list(req["start"]), ("prim", prim))
    # merge consecutive elements into blocks
    xs = M.XT_SIZE[v.xt]
    blocks = []
    for o in off.tolist():
        if blocks and blocks[-1][1] + blocks[-1][0] * xs == o:
            blocks[-1][0] += 1
        else:
            blocks.append([1, o])
    return ("hidx", [(b, d) for b, d in blocks], ("prim", prim))


class Prog:
    def __init__(self, k=1, match=True):
        self.s = Script(k=k, match=match)
        self.k = k
        self.checks = []      # functions res -> list of problems
        self.nbuf = 0
        self.ntype = 0
        self.nreq = 0
        self.labels = set()

    # ---- slots
    def newbuf(self):
        self.nbuf += 1
        return "b%d" % (self.nbuf % 4000)

    def newtype(self):
        self.ntype += 1
        return "t%d" % (self.ntype % 4000)

    def newreq(self):
        self.nreq += 1
        return "q%d" % (self.nreq % 4000)

    # ---- generic statement with expected return code on every executing rank
    def op(self, _op, ranks="*", step=False, expect=0, sn=None, what=None, **kw):
        name = _op
        n = self.s.op(_op, ranks=ranks, step=step, sn=sn, **kw)
        if expect is not None:
            rk = range(self.k) if ranks == "*" else ranks
            self.expect_rc(n, rk, expect, what or name)
        return n

    def expect_rc(self, n, ranks, expect, what):
        ranks = list(ranks)

        def chk(res):
            out = []
            for r in ranks:
                e = res.get(n, r)
                rc = None if e is None else e.get("rc")
                ok = (rc in expect) if isinstance(expect, (list, tuple, set)) else (rc == expect)
                if not ok:
                    out.append({"kind": "rc", "msg": "stmt %d (%s) rank %d returned %s, expected %s" % (n, what, r, rc, expect),
                                "sig": {"kind": "rc", "op": what, "rc": rc, "expect": expect if not isinstance(expect, (list, tuple, set)) else sorted(expect)}})
            return out
        self.checks.append(chk)

    def check(self, fn):
        self.checks.append(fn)

    def evaluate(self, res):
        probs = []
        for c in self.checks:
            p = c(res)
            if p:
                probs += p
                if len(probs) > 20:
                    break
        return probs

    # ---- data operations
    def _buffer(self, rank, fm, req, nview, idx, mempos, nlog, values):
        """create the user buffer for a request on `rank`; returns (slot, offs, extra kwargs, size, mem dtype, initial bytes)"""
        v = fm.vars[req["var"]]
        mt = req["mt"]
        kw = {}
        if mt == "flex":
            prim = req["prim"]
            md = np.dtype(M.MT_DTYPE[M.mt_key(req)])
        else:
            md = np.dtype(M.MT_DTYPE[mt])
        esz = md.itemsize
        bt = req.get("bt")
        if mt == "flex" and bt is not None:
            bt = _tup(bt)
            offs, size = M.t_layout(bt, req["bufcount"])
            tname = self.newtype()
            self.s.op("type", ranks=[rank], t=tname, spec=M.t_spec(bt))
            kw["buftype"] = tname
            kw["bufcount"] = req["bufcount"]
        else:
            offs = np.arange(nlog, dtype=np.int64) * esz
            size = nlog * esz
            if mt == "flex":
                kw["buftype"] = req["prim"]
                kw["bufcount"] = req.get("bufcount_override", len(idx))
        size = max(size, 1)
        phys = np.full(size, FILL_BYTE, dtype=np.uint8)
        if values is not None and len(idx):
            logical = np.zeros(nlog, dtype=md)
            lb = logical.view(np.uint8)
            lb[:] = FILL_BYTE
            logical[mempos] = values.astype(md)
            lbytes = logical.view(np.uint8).reshape(nlog, esz)
            pos = (offs[:nlog, None] + np.arange(esz)[None, :]).reshape(-1)
            phys[pos] = lbytes.reshape(-1)
        slot = self.newbuf()
        self.s.op("buf", ranks=[rank], b=slot, size=size, hex=phys.tobytes())
        return slot, offs, kw, size, md, phys

    def _index_args(self, fm, req, rank, idx):
        form = req["form"]
        kw = {}
        if form in ("var1", "vara", "vars", "varm"):
            kw["start"] = req["start"]
        if form in ("vara", "vars", "varm"):
            kw["count"] = req["count"]
        if form in ("vars", "varm"):
            kw["stride"] = req.get("stride")
        if form == "varm":
            kw["imap"] = req.get("imap")
        if form == "varn":
            kw["num"] = len(req["starts"])
            kw["starts"] = req["starts"] if req["starts"] else None
            kw["counts"] = req["counts"] if req["counts"] is not None else None
        if form == "vard":
            ft = vard_filetype(fm, req, idx)
            tname = self.newtype()
            self.s.op("type", ranks=[rank], t=tname, spec=M.t_spec(ft))
            kw["ftype"] = tname
        for k in list(kw):
            if isinstance(kw[k], list) and len(kw[k]) == 0 and k in ("start", "count", "stride", "imap"):
                kw[k] = None if not req.get("empty_nonnull") else []
        return kw

    def put(self, fm, rank, req, nview, f="f0", coll=False, api="put", sn=None, step=False, expect=0, apply=True, reqslot=None, values=None):
        """emit a put-family statement for `rank`; applies the write to the model if apply.
        returns (n, slot, values)"""
        v = fm.vars[req["var"]]
        idx, mempos, nlog = req_geometry(fm, req, nview)
        if values is None:
            values = M.value_pattern(req["seed"], len(idx), v.xt, M.mt_key(req), req.get("vclass", "pos"))
        slot, offs, bkw, size, md, phys = self._buffer(rank, fm, req, nview, idx, mempos, nlog, values)
        kw = self._index_args(fm, req, rank, idx)
        kw.update(bkw)
        if api in ("iput", "bput"):
            kw["req"] = reqslot
        n = self.s.op("data", ranks=[rank], sn=sn, step=step, api=api, form=req["form"], coll=1 if coll else 0,
                      mt=req["mt"], f=f, v=req["var"], buf=slot, **kw)
        if expect is not None:
            self.expect_rc(n, [rank], expect, "%s_%s%s" % (api, req["form"], "_all" if coll else ""))
        if api == "put":
            self.check_wbuf(n, rank, "%s_%s" % (api, req["form"]))
        if apply:
            fm.write(req["var"], idx, values)
        return n, slot, values, idx

    def check_wbuf(self, n, rank, what):
        def chk(res):
            e = res.get(n, rank)
            if e is None:
                return []
            out = []
            if e.get("same") == 0:
                out.append({"kind": "wbuf", "msg": "stmt %d (%s) rank %d: caller's write buffer was modified" % (n, what, rank), "sig": {"kind": "wbuf_modified", "op": what}})
            if e.get("guards") == 0:
                out.append({"kind": "guard", "msg": "stmt %d (%s) rank %d: guard zone damaged" % (n, what, rank), "sig": {"kind": "guard", "op": what}})
            return out
        self.checks.append(chk)

    def get(self, fm, rank, req, nview, f="f0", coll=False, api="get", sn=None, step=False, expect=0, reqslot=None, compare=True):
        """emit a get-family statement; for blocking gets the buffer is compared right away;
        returns (n, slot, verifier) where verifier(res, n_of_bufchk_or_None) performs the comparison"""
        v = fm.vars[req["var"]]
        idx, mempos, nlog = req_geometry(fm, req, nview)
        slot, offs, bkw, size, md, phys = self._buffer(rank, fm, req, nview, idx, mempos, nlog, None)
        kw = self._index_args(fm, req, rank, idx)
        kw.update(bkw)
        if api == "iget":
            kw["req"] = reqslot
        n = self.s.op("data", ranks=[rank], sn=sn, step=step, api=api, form=req["form"], coll=1 if coll else 0,
                      mt=req["mt"], f=f, v=req["var"], buf=slot, rb=1 if api == "get" else 0, **kw)
        what = "%s_%s%s" % (api, req["form"], "_all" if coll else "")
        if expect is not None:
            self.expect_rc(n, [rank], expect, what)
        holder = {}

        def refresh(model=fm):
            """(re)capture the expected values: for nonblocking gets call this when the wait completes"""
            if len(idx):
                ev, em = model.read(req["var"], idx)
                holder["vals"] = np.array(ev).astype(md)
                holder["mask"] = np.array(em).copy()
            else:
                holder["vals"] = np.zeros(0, dtype=md)
                holder["mask"] = np.zeros(0, dtype=np.uint8)
        refresh()
        esz = md.itemsize

        def verify(res, nn):
            e = res.get(nn, rank)
            if e is None or "hex" not in e:
                return [{"kind": "nodata", "msg": "stmt %d (%s) rank %d: no buffer returned" % (nn, what, rank), "sig": {"kind": "nodata"}}]
            got = np.frombuffer(bytes.fromhex(e["hex"]), dtype=np.uint8)
            out = []
            if e.get("guards") == 0:
                out.append({"kind": "guard", "msg": "stmt %d (%s) rank %d: guard zone damaged" % (nn, what, rank), "sig": {"kind": "guard", "op": what}})
            sel = np.zeros(len(got), dtype=bool)
            if len(idx):
                pos = (offs[mempos][:, None] + np.arange(esz)[None, :])
                sel[pos.reshape(-1)] = True
                gv = got[pos.reshape(-1)].reshape(len(idx), esz).copy().view(md).reshape(-1)
                known = holder["mask"] != 0
                ev = holder["vals"]
                bad = known & (gv.view(np.uint8).reshape(len(idx), esz) != np.ascontiguousarray(ev).view(np.uint8).reshape(len(idx), esz)).any(axis=1)
                if bad.any():
                    j = int(np.argmax(bad))
                    out.append({"kind": "value", "msg": "stmt %d (%s) rank %d var %d: element %s read %r expected %r (%d of %d wrong)" % (
                        nn, what, rank, req["var"], idx[j].tolist(), gv[j].item(), ev[j].item(), int(bad.sum()), len(idx)),
                        "sig": {"kind": "value", "op": what, "form": req["form"]}})
            if (got[~sel] != FILL_BYTE).any():
                out.append({"kind": "rbuf_extra", "msg": "stmt %d (%s) rank %d: read modified bytes outside the selected elements" % (nn, what, rank),
                            "sig": {"kind": "rbuf_extra", "op": what}})
            return out
        verify.refresh = refresh
        verify.idx = idx
        verify.holder = holder
        if api == "get" and compare:
            self.checks.append(lambda res: verify(res, n) if (res.rc(n, rank) in (0, M.E["ERANGE"])) else [])
        return n, slot, verify


def _tup(t):
    """JSON round trip turns tuples into lists; normalise a datatype description"""
    if isinstance(t, (list, tuple)):
        if len(t) and isinstance(t[0], str):
            k = t[0]
            if k == "prim":
                return ("prim", t[1])
            if k in ("idx", "hidx", "struct"):
                return (k, [tuple(x) for x in t[1]], _tup(t[2]))
            if k == "sub":
                return (k, list(t[1]), list(t[2]), list(t[3]), _tup(t[4]))
            return tuple([k] + list(t[1:-1]) + [_tup(t[-1])])
    return t


def define_schema(p, fm_case, f="f0", path="t.nc", k=None, info=None, extra_mode=0, enddef=True):
    """emit create + definitions for a schema case {'fmt','dims','vars'}; returns FileM"""
    fmt = fm_case["fmt"]
    mode = {1: 0, 2: 0x200, 5: 0x20}[fmt] | extra_mode
    kw = {}
    if info:
        kw["info"] = info
    p.op("create", step=True, f=f, path=hx(path), mode=mode, **kw)
    fm = M.FileM(fmt)
    for i, l in enumerate(fm_case["dims"]):
        name = "d%d" % i
        n = p.op("def_dim", step=True, f=f, name=hx(name), len=l)
        _expect_id(p, n, i)
        fm.dims.append((name, l))
    for i, v in enumerate(fm_case["vars"]):
        name = "v%d" % i
        n = p.op("def_var", step=True, f=f, name=hx(name), xt=v["xt"], dims=v["dims"], ndims=len(v["dims"]))
        _expect_id(p, n, i)
        fm.add_var(name, v["xt"], v["dims"])
    if enddef:
        p.op("enddef", step=True, f=f)
    return fm


def _expect_id(p, n, want):
    def chk(res):
        out = []
        for r in range(p.k):
            e = res.get(n, r)
            if e is not None and e.get("rc") == 0 and e.get("id") != want:
                out.append({"kind": "id", "msg": "stmt %d rank %d: id %s expected %d" % (n, r, e.get("id"), want), "sig": {"kind": "id"}})
        return out
    p.check(chk)
