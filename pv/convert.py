"""convert - reference model of netCDF numeric type conversion and range checking
(DESIGN.md Appendix D).  Nothing here calls, imports or copies the library.

Two independent implementations live in this file:
  * `convert()`       vectorised numpy model used by the checks;
  * `scalar_convert()` slow exact model on Python ints / Fractions;
`selftest()` (python3-vt -m pv.convert) compares them on every pair of numeric
types over the boundary value sets, so a slip in one of them is noticed.

Status of a source value with respect to a destination type:
  IN   representable: the converted value is fixed (`val`);
  OUT  not representable: the call must return NC_ERANGE, the element holds a fill value;
  AMB  ambiguity band (nothing asserted about the return code; the element must hold
       either the fill value or `val`):
         - floating value strictly between MAX and MAX+1 (or MIN-1 and MIN) of an integer
           target: val = trunc(x) (= MAX resp. MIN);
         - the single value fl(MAX) of a 64-bit integer target (2^63, 2^64): val = MAX;
         - +-Inf between the two floating types: val = +-Inf;
         - |x| in (FLT_MAX, 2^128-2^103) double -> float, i.e. values above FLT_MAX that
           IEEE round-to-nearest still maps to FLT_MAX: val = +-FLT_MAX.
NaN -> integer and +-Inf -> integer are OUT.  NaN between floating types is IN (any NaN).
"""
import math
from fractions import Fraction
import numpy as np

IN, OUT, AMB = 0, 1, 2

FLT_MAX = float(np.finfo(np.float32).max)          # 2^128 - 2^104
F32_RNE_LIMIT = 2.0 ** 128 - 2.0 ** 103            # |x| >= this rounds to Inf under round-to-nearest-even

# external type -> default fill value (pnetcdf.h NC_FILL_*), by numpy dtype string of the external type
NC_FILL_BY_XT = {1: -127, 2: 0, 3: -32767, 4: -2147483647, 5: 9.9692099683868690e+36, 6: 9.9692099683868690e+36,
                 7: 255, 8: 65535, 9: 4294967295, 10: -9223372036854775806, 11: 18446744073709551614}
# memory type -> external type whose default fill value is substituted on read; long: no counterpart (unconstrained)
MT_FILL_XT = {"schar": 1, "uchar": 7, "short": 3, "ushort": 8, "int": 4, "uint": 9, "float": 5, "double": 6,
              "longlong": 10, "ulonglong": 11, "long": None}


def irange(dt):
    i = np.iinfo(np.dtype(dt))
    return int(i.min), int(i.max)


def fill_scalar(xt, dtype):
    """default fill value of external type xt as a 0-d array of `dtype`"""
    return np.array(NC_FILL_BY_XT[xt]).astype(dtype)


# ------------------------------------------------------------------ vectorised model
def convert(src, dst, exempt=False):
    """src: 1-D numpy array (integer or floating dtype, native endian); dst: numpy dtype.
    returns (status int8[n], val dst[n]); val is meaningful where status is IN or AMB."""
    src = np.ascontiguousarray(src)
    sd, dd = src.dtype, np.dtype(dst)
    n = len(src)
    st = np.zeros(n, np.int8)
    if exempt:
        # CDF-1/2: unsigned char <-> NC_BYTE moves the bit pattern, never a range error
        assert sd.itemsize == 1 and dd.itemsize == 1 and sd.kind in "iu" and dd.kind in "iu"
        return st, src.view(dd).copy()
    sk, dk = sd.kind, dd.kind
    with np.errstate(all="ignore"):
        if sk in "iu" and dk in "iu":
            lo, hi = irange(dd)
            if sk == "u":
                ok = src.astype(np.uint64) <= np.uint64(hi)
            else:
                s = src.astype(np.int64)
                if dk == "u":
                    nonneg = s >= 0
                    ok = nonneg & (np.where(nonneg, s, 0).astype(np.uint64) <= np.uint64(hi))
                else:
                    ok = (s >= lo) & (s <= hi)
            st[~ok] = OUT
            return st, src.astype(dd)
        if sk in "iu" and dk == "f":
            return st, src.astype(dd)               # IEEE round-to-nearest-even, always in range
        if sk == "f" and dk in "iu":
            x = src.astype(np.float64)              # exact
            lo, hi = irange(dd)
            finite = np.isfinite(x)
            t = np.trunc(np.where(finite, x, 0.0))
            flo = float(lo)                         # 0 or -2^k: exact
            fhi1 = float(hi + 1)                    # 2^k: exact
            inr = finite & (t >= flo) & (t < fhi1)
            st[:] = OUT
            st[inr] = IN
            # in range after truncation, but the value itself lies beyond the bound
            # (for 64-bit targets float(hi) is 2^k and no double lies in the band, so this is empty there)
            band = inr & ((x > float(hi)) | (x < flo))
            st[band] = AMB
            tt = np.where(inr, t, 0.0)
            if dd == np.dtype(np.uint64):
                big = tt >= 2.0 ** 63
                v = np.where(big, 0.0, tt).astype(np.uint64)
                vb = (np.where(big, tt - 2.0 ** 63, 0.0)).astype(np.uint64) + np.uint64(1 << 63)
                val = np.where(big, vb, v).astype(np.uint64)
            else:
                val = tt.astype(np.int64).astype(dd)
            if float(hi) != hi:                     # 64-bit target: the single value fl(MAX)
                flmax = finite & (x == float(hi))
                st[flmax] = AMB
                val[flmax] = hi
            return st, val
        if sk == "f" and dk == "f":
            if sd == dd:
                return st, src.copy()
            x = src.astype(np.float64)
            inf = np.isinf(x)
            if dd.itemsize > sd.itemsize:           # float -> double: exact
                st[inf] = AMB
                return st, x.astype(dd)
            a = np.abs(x)
            nan = np.isnan(x)
            val = x.astype(np.float32)
            over = ~nan & ~inf & (a > FLT_MAX)
            st[over] = OUT
            near = over & (a < F32_RNE_LIMIT)
            st[near] = AMB
            val[near] = np.copysign(np.float32(FLT_MAX), x[near]).astype(np.float32)
            st[inf] = AMB
            return st, val
    raise ValueError("unsupported conversion %s -> %s" % (sd, dd))


# ------------------------------------------------------------------ exact scalar model
def round_int_to_float(xi, p):
    """integer -> nearest binary floating value with p significand bits (ties to even), as a Python float
    (exact for p <= 53 and |xi| <= 2^64)"""
    if xi == 0:
        return 0.0
    s = -1 if xi < 0 else 1
    a = abs(xi)
    nb = a.bit_length()
    if nb > p:
        sh = nb - p
        q = a >> sh
        rem = a & ((1 << sh) - 1)
        half = 1 << (sh - 1)
        if rem > half or (rem == half and (q & 1)):
            q += 1
        a = q << sh
    return s * float(a)


def scalar_convert(x, sd, dd):
    """x: numpy scalar of dtype sd.  returns (status, value as Python int/float or None)"""
    sd, dd = np.dtype(sd), np.dtype(dd)
    if sd.kind in "iu":
        xi = int(x)
        if dd.kind in "iu":
            lo, hi = irange(dd)
            return (IN, xi) if lo <= xi <= hi else (OUT, None)
        return IN, round_int_to_float(xi, 24 if dd.itemsize == 4 else 53)
    xf = float(x)
    if dd.kind in "iu":
        if math.isnan(xf) or math.isinf(xf):
            return OUT, None
        lo, hi = irange(dd)
        F = Fraction(xf)
        if dd.itemsize == 8 and F == hi + 1:
            return AMB, hi                              # fl(MAX) of a 64-bit target
        if hi < F < hi + 1:
            return AMB, hi
        if lo - 1 < F < lo:
            return AMB, lo
        t = math.trunc(F)
        return (IN, t) if lo <= t <= hi else (OUT, None)
    if sd == dd:
        return IN, xf
    if math.isnan(xf):
        return IN, xf
    if math.isinf(xf):
        return AMB, xf
    if dd.itemsize > sd.itemsize:
        return IN, xf
    F = abs(Fraction(xf))
    fmax = Fraction(2) ** 128 - Fraction(2) ** 104
    if F <= fmax:
        return IN, float(np.float32(xf))
    if F < Fraction(2) ** 128 - Fraction(2) ** 103:
        return AMB, math.copysign(FLT_MAX, xf)
    return OUT, None


# ------------------------------------------------------------------ value sets
def int_candidates():
    c = set()
    for dt in ("i1", "u1", "i2", "u2", "i4", "u4", "i8", "u8"):
        lo, hi = irange(dt)
        for b in (lo, hi):
            for d in (-2, -1, 0, 1, 2):
                c.add(b + d)
    for k in range(0, 65):
        for d in (-1, 0, 1):
            c.add((1 << k) + d)
            c.add(-(1 << k) + d)
    c.update([0, 1, -1, 2, -2, 3, -3, 10, -10, 100, -100, 1000, -1000, 12345, -12345,
              -127, -32767, -2147483647, -9223372036854775806, 18446744073709551614])   # default fill values
    return sorted(c)


_ICAND = int_candidates()


def _uniq_bits(a):
    """unique by bit pattern, keeping first occurrences in order"""
    a = np.ascontiguousarray(a)
    bits = a.view("u%d" % a.dtype.itemsize)
    _, idx = np.unique(bits, return_index=True)
    return a[np.sort(idx)]


def boundary_values(sd, include_nan=True):
    """boundary value set of source dtype sd: every bound of every integer type +-{0,1,2}, powers of two +-1,
    zero, sign changes; for floating sources additionally the nextafter neighbours, halves/quarters around the
    integer bounds, FLT_MAX/DBL_MAX neighbourhoods, denormals, +-Inf and NaN"""
    sd = np.dtype(sd)
    if sd.kind in "iu":
        lo, hi = irange(sd)
        return np.array([c for c in _ICAND if lo <= c <= hi], dtype=sd)
    with np.errstate(all="ignore"):
        base = np.array([float(c) for c in _ICAND], dtype=np.float64).astype(sd)
        parts = [base]
        up = base
        dn = base
        for _ in range(2):
            up = np.nextafter(up, sd.type(np.inf))
            dn = np.nextafter(dn, sd.type(-np.inf))
            parts += [up, dn]
        small = np.array([float(c) for c in _ICAND if abs(c) < (1 << (22 if sd.itemsize == 4 else 51))], dtype=np.float64)
        for d in (0.5, -0.5, 0.25, -0.25, 0.75, -0.75, 0.999, -0.999):
            parts.append((small + d).astype(sd))
        f4, f8 = np.finfo(np.float32), np.finfo(np.float64)
        sp = [0.0, -0.0, float(f4.tiny), float(f4.smallest_subnormal), float(f8.tiny), float(f8.smallest_subnormal),
              FLT_MAX, float(np.nextafter(np.float32(FLT_MAX), np.float32(0))), float(np.nextafter(FLT_MAX, np.inf)),
              float(np.nextafter(FLT_MAX, 0.0)), F32_RNE_LIMIT, float(np.nextafter(F32_RNE_LIMIT, 0.0)),
              float(np.nextafter(F32_RNE_LIMIT, np.inf)), 2.0 ** 128, float(np.nextafter(2.0 ** 128, np.inf)),
              float(f8.max), float(np.nextafter(f8.max, 0.0)), 9.9692099683868690e+36, 0.1, 1.0 / 3, 1e-10, 1e10, 1e19, 1e20,
              1.8e19, 9.3e18, 1e30, 1e38, 3.5e38, 1e39, 1e300, 1e-300, 1e-40, 1e-45, 1e-320]
        sp = np.array(sp + [-v for v in sp] + [np.inf, -np.inf], dtype=np.float64).astype(sd)
        parts.append(sp)
        if include_nan:
            if sd.itemsize == 4:
                nb = np.array([0x7fc00000, 0xffc00000, 0x7f800001, 0x7fffffff], dtype=np.uint32).view(np.float32)
            else:
                nb = np.array([0x7ff8000000000000, 0xfff8000000000000, 0x7ff0000000000001, 0x7fffffffffffffff], dtype=np.uint64).view(np.float64)
            parts.append(nb)
        out = np.concatenate([p.astype(sd) for p in parts])
    if not include_nan:
        out = out[~np.isnan(out)]
    return _uniq_bits(out)


def random_values(sd, dd, seed, n, include_nan=True):
    """n pseudo-random source values of dtype sd aimed at destination dtype dd; a pure function of the arguments"""
    sd, dd = np.dtype(sd), np.dtype(dd)
    rng = np.random.Generator(np.random.PCG64(int(seed) & 0xFFFFFFFFFFFF))
    n1 = n // 3
    n2 = n // 3
    n3 = n - n1 - n2
    # destination bounds as Python numbers
    if dd.kind in "iu":
        dlo, dhi = irange(dd)
    else:
        m = float(np.finfo(dd).max)
        dlo, dhi = -m, m
    with np.errstate(all="ignore"):
        if sd.kind in "iu":
            slo, shi = irange(sd)
            bits = rng.integers(0, 256, size=(n1, sd.itemsize), dtype=np.uint8).view(sd).reshape(-1)
            # around the destination bounds (clipped into the source range)
            cen = [b for b in (dlo, dhi, 0) if isinstance(b, int)] or [0]
            near = []
            offs = rng.integers(-1000, 1001, size=n2)
            pick = rng.integers(0, len(cen), size=n2)
            for o, p in zip(offs.tolist(), pick.tolist()):
                near.append(min(max(cen[p] + o, slo), shi))
            near = np.array(near, dtype=object).astype(sd) if near else np.zeros(0, sd)
            # log-uniform magnitudes
            k = rng.integers(0, sd.itemsize * 8 + (0 if sd.kind == "u" else -1) + 1, size=n3)
            mag = [int(rng_bits) & ((1 << int(kk)) - 1) | ((1 << int(kk)) >> 1) for rng_bits, kk in zip(rng.integers(0, 1 << 62, size=n3).tolist(), k.tolist())]
            sign = rng.integers(0, 2, size=n3).tolist() if sd.kind == "i" else [0] * n3
            lg = [min(max(-m_ if s else m_, slo), shi) for m_, s in zip(mag, sign)]
            lg = np.array(lg, dtype=object).astype(sd) if lg else np.zeros(0, sd)
            out = np.concatenate([bits, near, lg])
        else:
            bits = rng.integers(0, 256, size=(n1, sd.itemsize), dtype=np.uint8).view(sd).reshape(-1)
            # around the destination bounds with fractional offsets (ambiguity band and its neighbours)
            cen = np.array([float(dlo), float(dhi), 0.0], dtype=np.float64)
            c = cen[rng.integers(0, 3, size=n2)]
            scale = np.where(rng.integers(0, 2, size=n2) == 0, 3.0, np.maximum(np.abs(c) * 1e-6, 3.0))
            near = (c + rng.uniform(-1.0, 1.0, size=n2) * scale).astype(sd)
            # uniform over 1.5x the destination range, and log-uniform magnitudes
            span = max(abs(float(dlo)), abs(float(dhi)))
            if not math.isfinite(span * 1.5):
                span = float(np.finfo(np.float64).max) / 2
            h = n3 // 2
            uni = (rng.uniform(-1.5, 1.5, size=h) * span).astype(sd)
            e = rng.uniform(-20, 70 if dd.kind in "iu" else (130 if sd.itemsize == 8 else 127), size=n3 - h)
            lg = (np.exp2(e) * np.where(rng.integers(0, 2, size=n3 - h) == 0, 1.0, -1.0)).astype(sd)
            out = np.concatenate([bits, near, uni, lg])
            if not include_nan:
                out = np.where(np.isnan(out), sd.type(1.5), out).astype(sd)
    return out


# ------------------------------------------------------------------ judging
def neq_bits(a, b):
    a = np.ascontiguousarray(a)
    b = np.ascontiguousarray(b)
    isz = a.dtype.itemsize
    return (a.view(np.uint8).reshape(-1, isz) != b.view(np.uint8).reshape(-1, isz)).any(axis=1)


def judge(got, status, val, fill):
    """got: array of destination dtype as delivered by the library; status/val from convert(); fill: 0-d array of the
    destination dtype, or None when the substituted value is unconstrained.
    returns boolean array `bad` (element violates the model) and a reason code array (1 in-range value wrong,
    2 out-of-range element is not the fill value, 3 ambiguous element is neither fill nor the converted value)"""
    got = np.ascontiguousarray(got)
    val = np.ascontiguousarray(val).astype(got.dtype, copy=False)
    n = len(got)
    differs = neq_bits(got, val)
    if got.dtype.kind == "f":
        differs &= ~(np.isnan(got) & np.isnan(val))      # any NaN for NaN
        # -0.0 vs 0.0 is a real difference for float results and is kept
    if fill is None:
        isfill = np.ones(n, bool)
    else:
        f = np.full(n, fill, dtype=got.dtype)
        isfill = ~neq_bits(got, f)
    reason = np.zeros(n, np.int8)
    reason[(status == IN) & differs] = 1
    reason[(status == OUT) & ~isfill] = 2
    reason[(status == AMB) & differs & ~isfill] = 3
    return reason != 0, reason


# ------------------------------------------------------------------ self test
ALL_DT = ["i1", "u1", "i2", "u2", "i4", "u4", "i8", "u8", "f4", "f8"]


def selftest(verbose=True, nrand=3000):
    bad = 0
    total = 0
    for s in ALL_DT:
        for d in ALL_DT:
            sd, dd = np.dtype(s), np.dtype(d)
            if sd.itemsize <= 2 and sd.kind in "iu":
                lo, hi = irange(sd)
                vals = np.arange(lo, hi + 1, dtype=np.int64).astype(sd)
            else:
                vals = np.concatenate([boundary_values(sd), random_values(sd, dd, 12345, nrand)])
            st, val = convert(vals, dd)
            for i in range(len(vals)):
                es, ev = scalar_convert(vals[i], sd, dd)
                total += 1
                ok = es == st[i]
                if ok and es != OUT:
                    g = val[i]
                    if dd.kind == "f":
                        ok = (math.isnan(ev) and np.isnan(g)) or (float(g) == ev and math.copysign(1, float(g)) == math.copysign(1, ev))
                    else:
                        ok = int(g) == ev
                if not ok:
                    bad += 1
                    if verbose and bad < 30:
                        print("MISMATCH %s->%s x=%r vector=(%d,%r) scalar=(%d,%r)" % (s, d, vals[i], st[i], val[i], es, ev))
    if verbose:
        print("convert selftest: %d comparisons, %d mismatches" % (total, bad))
    return bad


if __name__ == "__main__":
    import sys
    sys.exit(1 if selftest() else 0)
