"""Persistent mpiexec pool running the pncx executor, plus the Script builder."""
import os, sys, json, subprocess, tempfile, shutil, select, time, hashlib, signal, itertools

VERIF = os.path.dirname(os.path.dirname(os.path.abspath(__file__)))
BASE_ENV = {
    "OMPI_ALLOW_RUN_AS_ROOT": "1", "OMPI_ALLOW_RUN_AS_ROOT_CONFIRM": "1",
    "OMPI_MCA_rmaps_base_oversubscribe": "1", "OMPI_MCA_mpi_yield_when_idle": "1",
    "OMPI_MCA_btl": "self,vader", "OMPI_MCA_btl_vader_single_copy_mechanism": "none",
    "ASAN_OPTIONS": "detect_leaks=0:abort_on_error=0:exitcode=87:allocator_may_return_null=1:detect_stack_use_after_return=0",
    "UBSAN_OPTIONS": "print_stacktrace=1:halt_on_error=0",
    "TMPDIR": "/tmp",
    # without this mpiexec binds the ranks of EVERY pool to the same first cores: concurrent pools then run several times slower
    "OMPI_MCA_hwloc_base_binding_policy": "none",
    # MPI-IO layer: ROMIO.  OpenMPI 4.1.4's default (ompio, fcoll vulcan/dynamic) returns wrong data for collective
    # reads whose regions overlap between ranks (reproduced with a 30-line pure MPI program), which is outside PnetCDF.
    "OMPI_MCA_io": "romio321",
}


def hx(s):
    """name / byte string -> hex token"""
    if isinstance(s, str):
        s = s.encode("utf-8")
    return s.hex()


def _fmt(v):
    if v is None:
        return "NULL"
    if isinstance(v, bool):
        return "1" if v else "0"
    if isinstance(v, (bytes, bytearray)):
        return bytes(v).hex()
    if isinstance(v, (list, tuple)):
        if len(v) and isinstance(v[0], (list, tuple)) or (len(v) and v[0] is None and any(isinstance(x, (list, tuple)) for x in v)):
            return ";".join("NULL" if x is None else ("-" if len(x) == 0 else ",".join(str(int(y)) for y in x)) for x in v)
        return ",".join(str(x) for x in v)
    return str(v)


class Script:
    """Builds the text of one pncx script.  Statement numbers are assigned
    sequentially; `ranks` is '*' or a list of ranks; step=True marks a
    statement that is collective by specification (a STEP_END marker is posted
    to the collective matcher after it)."""

    def __init__(self, k=1, match=True):
        self.k = k
        self.match = match
        self.lines = []
        self.n = 0
        self.meta = {}

    def op(self, _op, ranks="*", step=False, sn=None, **kw):
        n = sn
        if n is None:
            n = self.n
            self.n += 1
        r = "*" if ranks == "*" else ",".join(str(x) for x in ranks)
        toks = ["%d%s" % (n, "!" if step else ""), r, _op]
        for k, v in kw.items():
            if k.endswith("_"):
                k = k[:-1]
            toks.append("%s=%s" % (k.replace("__", "."), _fmt(v)))
        self.lines.append(" ".join(toks))
        return n

    def same_n(self):
        """reserve one statement number to be used by several per-rank lines"""
        n = self.n
        self.n += 1
        return n

    def text(self, dirpath, sid=None):
        body = "\n".join(self.lines)
        if sid is None:
            sid = hashlib.sha1(body.encode()).hexdigest()[:12]
        return "SCRIPT k=%d dir=%s id=%s match=%d\n%s\nEND\n" % (self.k, dirpath, sid, 1 if self.match else 0, body), sid

    def hash(self):
        return hashlib.sha1(("%d\n" % self.k + "\n".join(self.lines)).encode()).hexdigest()[:16]


class PoolError(Exception):
    def __init__(self, kind, detail, stderr_tail=""):
        Exception.__init__(self, "%s: %s" % (kind, detail))
        self.kind = kind          # 'crash' | 'hang' | 'mismatch'
        self.detail = detail
        self.stderr_tail = stderr_tail


class Pool:
    _ctr = itertools.count()

    def __init__(self, builddir, nprocs=1, extra_env=None, timeout=90, keep=False):
        self.builddir = builddir
        self.nprocs = nprocs
        self.timeout = timeout
        self.extra_env = dict(extra_env or {})
        self.proc = None
        self.keep = keep
        self.root = tempfile.mkdtemp(prefix="pncv.%d." % os.getpid(), dir="/tmp")
        self.nscripts = 0
        self.nstarts = 0
        self.stderr_pos = 0
        self.start()

    # ------------------------------------------------------------------
    def start(self):
        self.stop()
        self.nstarts += 1
        cf = os.path.join(self.root, "cmd.%d" % self.nstarts)
        rf = os.path.join(self.root, "res.%d" % self.nstarts)
        os.mkfifo(cf)
        os.mkfifo(rf)
        env = dict(os.environ)
        env.update(BASE_ENV)
        env.update(self.extra_env)
        self.errpath = os.path.join(self.root, "stderr.%d" % self.nstarts)
        self.errf = open(self.errpath, "wb")
        exe = os.path.join(self.builddir, "pncx")
        if self.nprocs == 1:
            cmd = [exe, "--pool", cf, rf]       # MPI singleton: no mpiexec needed
        else:
            cmd = ["mpiexec", "--oversubscribe", "-n", str(self.nprocs), exe, "--pool", cf, rf]
        self.proc = subprocess.Popen(cmd, stdin=subprocess.DEVNULL, stdout=self.errf, stderr=self.errf, env=env,
                                     start_new_session=True)
        # opening the FIFOs blocks until the peer opens them; guard with a timeout through O_NONBLOCK polling
        t0 = time.time()
        self.cmdfd = None
        while True:
            try:
                self.cmdfd = os.open(cf, os.O_WRONLY | os.O_NONBLOCK)
                break
            except OSError:
                if self.proc.poll() is not None or time.time() - t0 > 60:
                    raise PoolError("start", "pool did not start", self._stderr_tail())
                time.sleep(0.01)
        self.resfd = os.open(rf, os.O_RDONLY | os.O_NONBLOCK)
        self.resbuf = b""
        self.stderr_pos = 0

    def stop(self):
        if self.proc is not None:
            try:
                if self.proc.poll() is None:
                    try:
                        os.write(self.cmdfd, b"QUIT\n")
                    except OSError:
                        pass
                    try:
                        self.proc.wait(timeout=3)
                    except subprocess.TimeoutExpired:
                        pass
                if self.proc.poll() is None:
                    os.killpg(self.proc.pid, signal.SIGKILL)
                    self.proc.wait()
            except (ProcessLookupError, OSError):
                pass
            for fd in (self.cmdfd, self.resfd):
                try:
                    os.close(fd)
                except OSError:
                    pass
            self.errf.close()
            self.proc = None

    def close(self):
        self.stop()
        if not self.keep:
            shutil.rmtree(self.root, ignore_errors=True)

    def __enter__(self):
        return self

    def __exit__(self, *a):
        self.close()

    def _stderr_tail(self, n=6000):
        try:
            with open(self.errpath, "rb") as f:
                data = f.read()
            return data[-n:].decode(errors="replace")
        except OSError:
            return ""

    def stderr_delta(self):
        """stderr/stdout text the pool produced since the last call (UBSan diagnostics, library warnings)"""
        try:
            self.errf.flush()
            with open(self.errpath, "rb") as f:
                f.seek(self.stderr_pos)
                data = f.read()
            self.stderr_pos += len(data)
            return data.decode(errors="replace")
        except OSError:
            return ""

    # ------------------------------------------------------------------
    def newdir(self):
        d = os.path.join(self.root, "s%d" % self.nscripts)
        os.makedirs(d, exist_ok=True)
        return d

    def run(self, script, keepdir=False, timeout=None):
        """Run a Script; returns (result dict, scratch dir).  The caller removes
        the directory (or passes keepdir=False and reads nothing from it)."""
        if self.proc is None or self.proc.poll() is not None:
            self.start()
        self.nscripts += 1
        d = self.newdir()
        text, sid = script.text(d)
        data = text.encode()
        try:
            os.set_blocking(self.cmdfd, True)
            os.write(self.cmdfd, data)
        except OSError as e:
            tail = self._stderr_tail()
            self.start()
            raise PoolError("crash", "write to pool failed: %s" % e, tail)
        timeout = timeout or self.timeout
        t0 = time.time()
        while b"\n" not in self.resbuf:
            r, _, _ = select.select([self.resfd], [], [], 0.5)
            if r:
                try:
                    chunk = os.read(self.resfd, 1 << 20)
                except BlockingIOError:
                    chunk = None
                if chunk == b"":
                    # writer closed: pool died
                    time.sleep(0.3)
                    tail = self._stderr_tail()
                    rc = self.proc.poll()
                    self.stop()
                    if not keepdir:
                        shutil.rmtree(d, ignore_errors=True)
                    raise PoolError("crash", "pool exited (rc=%s) while running script %s" % (rc, sid), tail)
                if chunk:
                    self.resbuf += chunk
            elif self.proc.poll() is not None and not r:
                tail = self._stderr_tail()
                self.stop()
                if not keepdir:
                    shutil.rmtree(d, ignore_errors=True)
                raise PoolError("crash", "pool exited while running script %s" % sid, tail)
            if time.time() - t0 > timeout:
                tail = self._stderr_tail()
                self.stop()
                if not keepdir:
                    shutil.rmtree(d, ignore_errors=True)
                raise PoolError("hang", "no result for script %s within %ds" % (sid, timeout), tail)
        line, self.resbuf = self.resbuf.split(b"\n", 1)
        res = json.loads(line)
        if "mismatch" in res:
            time.sleep(0.3)
            tail = self._stderr_tail()
            self.stop()
            if not keepdir:
                shutil.rmtree(d, ignore_errors=True)
            e = PoolError("mismatch", json.dumps(res["mismatch"]), tail)
            e.records = res["mismatch"]
            raise e
        if not keepdir:
            shutil.rmtree(d, ignore_errors=True)
            return Result(res), None
        return Result(res), d


class Result:
    """Per-rank, per-statement results indexed by statement number."""

    def __init__(self, raw):
        self.raw = raw
        self.k = raw["k"]
        self.by = []
        for rk in raw["ranks"]:
            m = {}
            for ent in rk:
                m[ent["n"]] = ent
                if ent.get("err") == "type":
                    # the executor could not build a datatype of the script: a harness problem, never a verdict on the library
                    raise PoolError("harness", "statement %s: datatype specification rejected by pncx" % ent.get("n"))
            self.by.append(m)

    def get(self, n, rank=0):
        return self.by[rank].get(n)

    def all(self, n):
        return [self.by[r].get(n) for r in range(self.k)]

    def rc(self, n, rank=0):
        e = self.by[rank].get(n)
        return None if e is None else e.get("rc")

    def shim(self, rank=0):
        return self.by[rank][-1]["shim"]

    def cleanup(self, rank=0):
        return self.by[rank][-1]
