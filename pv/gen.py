"""Hypothesis strategies shared by the checks.  Everything random comes from
Hypothesis draws (or is a pure function of drawn seeds)."""
from hypothesis import strategies as st
import numpy as np
from pv import model as M


def chance(draw, pct):
    return draw(st.integers(0, 99)) < pct


@st.composite
def schema(draw, fmts=(1, 2, 5), max_dims=4, max_len=5, max_vars=4, p_rec=70, max_ndims=4, min_vars=1, types=None):
    fmt = draw(st.sampled_from(fmts))
    has_rec = chance(draw, p_rec)
    nfix = draw(st.integers(1 if max_ndims > 0 else 0, max_dims))
    dims = [draw(st.integers(1, max_len)) for _ in range(nfix)]
    recdim = -1
    if has_rec:
        recdim = draw(st.integers(0, len(dims)))
        dims.insert(recdim, 0)
    fixed_ids = [i for i, l in enumerate(dims) if l != 0]
    legal = types or (M.XT_CDF12 if fmt != 5 else M.XT_ALL)
    nv = draw(st.integers(min_vars, max_vars))
    vars_ = []
    for _ in range(nv):
        xt = draw(st.sampled_from(legal))
        isrec = has_rec and chance(draw, 55)
        nd = draw(st.integers(0, max_ndims - (1 if isrec else 0))) if fixed_ids else 0
        vd = [draw(st.sampled_from(fixed_ids)) for _ in range(nd)]
        # keep variables small
        while vd and int(np.prod([dims[d] for d in vd])) > 400:
            vd.pop()
        if isrec:
            vd = [recdim] + vd
        vars_.append({"xt": xt, "dims": vd})
    if has_rec and not any(v["dims"] and v["dims"][0] == recdim for v in vars_):
        vars_[0]["dims"] = [recdim] + vars_[0]["dims"][:max(0, max_ndims - 1)]
    return {"fmt": fmt, "dims": dims, "vars": vars_}


@st.composite
def box(draw, shape, allow_zero=True, max_stride=3, stride=True):
    """(start, count, stride) inside `shape` (list of extents, all >= 1 except where zero-length)"""
    start, count, strd = [], [], []
    for L in shape:
        if L <= 0:
            start.append(0)
            count.append(0)
            strd.append(1)
            continue
        c = draw(st.integers(0 if (allow_zero and chance(draw, 6)) else 1, L))
        if c == 0:
            start.append(draw(st.integers(0, L)))   # start == len is legal with count 0 (relaxed bound)
            count.append(0)
            strd.append(1)
            continue
        smax = (L - 1) // (c - 1) if c > 1 else max_stride
        s = draw(st.integers(1, max(1, min(max_stride, smax)))) if stride else 1
        span = (c - 1) * s + 1
        st0 = draw(st.integers(0, L - span))
        start.append(st0)
        count.append(c)
        strd.append(s)
    return start, count, strd


def split_box(draw, start, count, stride, k, p_empty=15):
    """split a box along one dimension into k slabs (some possibly empty); returns list of (start,count,stride)"""
    nd = len(count)
    if nd == 0 or k == 1:
        parts = [(list(start), list(count), list(stride))]
        # scalar: only one rank writes
        for _ in range(1, k):
            parts.append(None)
        return parts
    d = draw(st.integers(0, nd - 1))
    c = count[d]
    cuts = sorted(draw(st.lists(st.integers(0, c), min_size=k - 1, max_size=k - 1)))
    edges = [0] + cuts + [c]
    parts = []
    for r in range(k):
        a, b = edges[r], edges[r + 1]
        s = list(start)
        cn = list(count)
        s[d] = start[d] + a * stride[d]
        cn[d] = b - a
        if b - a == 0:
            s[d] = start[d]   # keep a valid start for zero-length requests
        parts.append((s, cn, list(stride)))
    perm = draw(st.permutations(range(k)))
    return [parts[i] for i in perm]


@st.composite
def buftype(draw, n, prim):
    """a derived datatype (and bufcount) describing exactly n primitive elements"""
    P = ("prim", prim)
    esz = M.PRIM_SIZE[prim]
    kinds = ["ctg", "vec1", "idx", "hidx", "rsz", "dup"]
    divs = [d for d in range(2, n + 1) if n % d == 0] if n >= 2 else []
    if divs:
        kinds += ["vec", "sub", "bc", "nest", "struct"]
    kind = draw(st.sampled_from(kinds))
    if n == 0:
        return ("ctg", 0, P), draw(st.integers(0, 2))
    if kind == "ctg":
        return ("ctg", n, P), 1
    if kind == "dup":
        return ("dup", ("ctg", n, P)), 1
    if kind == "vec1":
        return ("vec", n, 1, draw(st.integers(1, 3)), P), 1
    if kind == "vec":
        c = draw(st.sampled_from(divs))
        b = n // c
        return ("vec", c, b, b + draw(st.integers(0, 2)), P), 1
    if kind in ("idx", "hidx", "struct"):
        nb = draw(st.integers(1, min(n, 4)))
        cuts = sorted(draw(st.lists(st.integers(1, n - 1), min_size=nb - 1, max_size=nb - 1, unique=True))) if n > 1 and nb > 1 else []
        edges = [0] + cuts + [n]
        blocks, pos = [], draw(st.integers(0, 2))
        for i in range(len(edges) - 1):
            bl = edges[i + 1] - edges[i]
            blocks.append((bl, pos if kind == "idx" else pos * esz))
            pos += bl + draw(st.integers(0, 2))
        return (kind, blocks, P), 1
    if kind == "sub":
        a = draw(st.sampled_from(divs))
        b = n // a
        pad0, pad1 = draw(st.integers(0, 2)), draw(st.integers(0, 2))
        var = draw(st.sampled_from(["last", "first", "both", "1d", "3d", "bc"]))
        if var == "last":        # ghost cells along the fastest dimension
            return ("sub", [a, b + pad0 + pad1], [a, b], [0, pad0], P), 1
        if var == "first":       # ghost rows along the slowest dimension only: one contiguous run that does not start at the buffer address
            return ("sub", [a + pad0 + pad1, b], [a, b], [pad0, 0], P), 1
        if var == "both":
            q0, q1 = draw(st.integers(0, 2)), draw(st.integers(0, 2))
            return ("sub", [a + pad0 + pad1, b + q0 + q1], [a, b], [pad0, q0], P), 1
        if var == "1d":
            return ("sub", [n + pad0 + pad1], [n], [pad0], P), 1
        if var == "3d":
            return ("sub", [a + pad0, 1 + pad1, b], [a, 1, b], [pad0, pad1, 0], P), 1
        # several instances of a subarray type (extent = the whole array)
        return ("sub", [b + pad0 + pad1], [b], [pad0], P), a
    if kind == "rsz":
        return ("rsz", 0, (n + draw(st.integers(0, 3))) * esz, ("ctg", n, P)), 1
    if kind == "bc":
        bc = draw(st.sampled_from(divs))
        per = n // bc
        inner = draw(st.sampled_from(["ctg", "vec", "rsz", "sub"]))
        if inner == "sub":
            p0, p1 = draw(st.integers(0, 2)), draw(st.integers(0, 2))
            return ("sub", [per + p0 + p1], [per], [p0], P), bc
        if inner == "ctg":
            return ("ctg", per, P), bc
        if inner == "vec":
            return ("vec", per, 1, 2, P), bc
        return ("rsz", 0, (per + draw(st.integers(1, 2))) * esz, ("ctg", per, P)), bc
    if kind == "nest":
        c = draw(st.sampled_from(divs))
        b = n // c
        return ("vec", c, 1, 2, ("ctg", b, P)), 1
    raise AssertionError(kind)


def numeric_mts_for(xt, fmt):
    """memory types usable for a variable of external type xt without ECHAR"""
    if xt == M.NC_CHAR:
        return ["text"]
    return list(M.MT_NUMERIC)


@st.composite
def memtype(draw, xt, p_flex=35, p_derived=60, n=None):
    """returns dict(mt=..., prim=..., bt=None|type, bufcount=...) ; n = number of elements when known"""
    mts = numeric_mts_for(xt, None)
    mt = draw(st.sampled_from(mts)) if not chance(draw, 30) else M.XT_NATIVE_MT[xt]
    if chance(draw, p_flex):
        prim = M.MT_PRIM[mt]
        out = {"mt": "flex", "prim": prim, "bt": None, "bufcount": n}
        if n is not None and chance(draw, p_derived):
            bt, bc = draw(buftype(n, prim))
            out["bt"], out["bufcount"] = bt, bc
        return out
    return {"mt": mt}


@st.composite
def imap_for(draw, count, allow_gaps=True):
    """an injective imap for the count box: a permutation of canonical strides, optionally stretched"""
    nd = len(count)
    if nd == 0:
        return []
    perm = draw(st.permutations(range(nd)))
    # memory layout: dimension perm[0] slowest ... perm[-1] fastest
    imap = [0] * nd
    stride = 1
    for d in reversed(perm):
        imap[d] = stride
        ext = max(count[d], 1)
        gap = draw(st.integers(0, 1)) if allow_gaps else 0
        stride *= ext + gap
    return imap


def forms_for(fm_shape_full, start, count, stride, is_rec, numrecs_view, ndims):
    """API forms able to express the box"""
    forms = ["vars", "varm"]
    if all(s == 1 for s in stride):
        forms += ["vara", "varn", "vard"]
    else:
        forms += ["vard"]
    if all(c == 1 for c in count):
        forms.append("var1")
    full = list(fm_shape_full)
    if is_rec:
        full[0] = numrecs_view
    if list(count) == full and all(s == 0 for s in start) and all(s == 1 for s in stride) and all(c > 0 for c in count):
        forms.append("var")
    if ndims == 0:
        forms = ["var", "var1", "vara", "vars", "varm", "varn"]
    return forms


@st.composite
def varn_split(draw, start, count, max_pieces=4):
    """split a stride-1 box into a list of disjoint sub-boxes (starts, counts) in random order"""
    pieces = [(list(start), list(count))]
    nd = len(count)
    if nd == 0:
        return [[]], [[]]
    for _ in range(draw(st.integers(0, max_pieces - 1))):
        i = draw(st.integers(0, len(pieces) - 1))
        s, c = pieces[i]
        d = draw(st.integers(0, nd - 1))
        if c[d] < 2:
            continue
        cut = draw(st.integers(1, c[d] - 1))
        s2, c2 = list(s), list(c)
        c1 = list(c)
        c1[d] = cut
        s2[d] = s[d] + cut
        c2[d] = c[d] - cut
        pieces[i] = (s, c1)
        pieces.append((s2, c2))
    order = draw(st.permutations(range(len(pieces))))
    pieces = [pieces[i] for i in order]
    return [p[0] for p in pieces], [p[1] for p in pieces]


@st.composite
def request(draw, fm_case_var, shape_view, start, count, stride, is_rec, numrecs_view, vi, seed=None, forms=None, allow_flex=True, allow_vard=True, mtsel=None):
    """build a request dict expressing the box through a randomly chosen API form"""
    xt = fm_case_var["xt"]
    nd = len(count)
    fs = forms_for(shape_view, start, count, stride, is_rec, numrecs_view, nd)
    if forms is not None:
        fs = [f for f in fs if f in forms] or ["vars"]
    if not allow_vard:
        fs = [f for f in fs if f != "vard"] or ["vars"]
    form = draw(st.sampled_from(fs))
    n = int(np.prod(count)) if nd else 1
    req = {"var": vi, "form": form, "seed": draw(st.integers(0, 10 ** 6)) if seed is None else seed}
    if form in ("var1", "vara", "vars", "varm", "vard"):
        req["start"] = list(start)
    if form in ("vara", "vars", "varm", "vard"):
        req["count"] = list(count)
    if form in ("vars", "varm", "vard"):
        req["stride"] = list(stride) if not (all(s == 1 for s in stride) and chance(draw, 30)) else None
        if form == "vard" and req["stride"] is None:
            req["stride"] = [1] * nd
    gapfree = True
    if form == "varm":
        if chance(draw, 15):
            req["imap"] = None
        else:
            req["imap"] = draw(imap_for(count, allow_gaps=True))
            gapfree = nd == 0 or n == 0 or (int(M.imap_positions(count, req["imap"]).max()) + 1 == n)
    if form == "varn":
        req["starts"], req["counts"] = draw(varn_split(start, count))
        if all(all(c == 1 for c in cc) for cc in req["counts"]) and chance(draw, 30):
            req["counts"] = None     # NULL counts: each sub-request is a single element
    if form == "vard":
        req["ftkind"] = draw(st.sampled_from(["hidx", "sub"]))
    if form == "vard" or mtsel == "flex":
        m = draw(memtype(xt, p_flex=100, n=n if gapfree else None))
    elif mtsel is not None:
        m = {"mt": mtsel}
    elif not allow_flex:
        m = draw(memtype(xt, p_flex=0, n=n))
    else:
        m = draw(memtype(xt, n=n if gapfree else None))
    req.update(m)
    if req["mt"] == "flex" and req.get("bufcount") is None:
        req["bufcount"] = n
    return req
