#!/usr/bin/env python3-vt
"""Tests for cdfspec.py.  Run: python3-vt /verif/pv/test_cdfspec.py  (exit 0 = pass)

1. random round trip (encode -> decode -> logical/data/offsets), all versions
2. cross-check with scipy.io.netcdf_file (CDF-1/2)
3. cross-check with files written by PnetCDF (repo files, ncmpigen output,
   ncoffsets, ncvalidator)
4. negative tests on hand-assembled headers (independent of the encoder)
"""
import glob
import os
import random
import re
import shutil
import struct
import subprocess
import sys
import tempfile
import time
import warnings

sys.path.insert(0, os.path.dirname(os.path.abspath(__file__)))
import numpy as np
import cdfspec as C

NCHECK = [0]
NOTES = []


def check(cond, msg='check failed'):
    NCHECK[0] += 1
    if not cond:
        raise AssertionError(msg)


def expect_error(data, must_contain=None, strict=True, lo=None, hi=None):
    try:
        C.decode(data, strict=strict)
    except C.CDFError as e:
        NCHECK[0] += 1
        if must_contain is not None:
            check(must_contain in str(e), 'error %r lacks %r' % (str(e), must_contain))
        if lo is not None:
            check(e.offset is not None and lo <= e.offset < hi,
                  'error offset %r not in [%d,%d): %s' % (e.offset, lo, hi, e))
        return e
    raise AssertionError('CDFError expected (%s)' % must_contain)


# ------------------------------------------------------------ random objects
SCODE = {1: 'b', 3: 'h', 4: 'i', 5: 'f', 6: 'd', 7: 'B', 8: 'H', 9: 'I', 10: 'q', 11: 'Q'}
NATIVE = {1: 'i1', 3: 'i2', 4: 'i4', 5: 'f4', 6: 'f8', 7: 'u1', 8: 'u2', 9: 'u4', 10: 'i8', 11: 'u8'}
FIRST = list('abcxyzABCXYZ_0159') + ['é', '水', '\U0001F600']
REST = FIRST + list('-.+@ ')


def rand_name(rng, used, legal=True):
    while True:
        n = rng.randint(1, 9)
        if legal:
            s = rng.choice(FIRST) + ''.join(rng.choice(REST) for _ in range(n - 1))
            b = s.rstrip(' ').encode('utf-8')
        else:
            b = bytes(rng.randrange(256) for _ in range(n))
        if b not in used:
            used.add(b)
            return b


def rand_values(rng, xtype, n):
    """python values + their external bytes built with struct (not numpy)"""
    if xtype == C.NC_CHAR:
        b = bytes(rng.randrange(256) for _ in range(n))
        return b, b
    if xtype in (C.NC_FLOAT, C.NC_DOUBLE):
        vals = [rng.choice([0.0, -0.0, 1.5, float('inf'), rng.randint(-10 ** 6, 10 ** 6) / 8.0])
                for _ in range(n)]
    else:
        bits = 8 * C.TYPE_SIZE[xtype]
        lo, hi = (0, 2 ** bits - 1) if xtype in (7, 8, 9, 11) else (-2 ** (bits - 1), 2 ** (bits - 1) - 1)
        vals = [rng.choice([lo, hi, 0, rng.randint(lo, hi)]) for _ in range(n)]
    return vals, struct.pack('>%d%s' % (n, SCODE[xtype]), *vals)


def rand_att(rng, version, used, legal):
    xtype = rng.choice(list(C.legal_types(version)))
    n = rng.choice([0, 1, 1, 2, 3, 5, 8])
    vals, ext = rand_values(rng, xtype, n)
    a = C.Att(rand_name(rng, used, legal), xtype, vals)
    check(a.value_bytes() == ext and a.nelems == n, 'Att external bytes')
    return a


def gen_file(rng, version, special=None, legal_names=True):
    f = C.CDFFile(version=version)
    used = set()
    nd = rng.randint(0, 6)
    if special:
        nd = max(nd, 2)
    recpos = rng.randrange(nd) if nd and (special or rng.random() < 0.7) else -1
    for i in range(nd):
        f.dims.append(C.Dim(rand_name(rng, used, legal_names), 0 if i == recpos else rng.randint(1, 4)))
    fixed_ids = [i for i in range(nd) if i != recpos]
    if special:                             # dimension of length 3 for the odd-size case
        f.dims[fixed_ids[0]].length = 3
    used = set()
    for _ in range(rng.randint(0, 4)):
        f.gatts.append(rand_att(rng, version, used, legal_names))
    used = set()
    for _ in range(rng.randint(0, 6)):
        k = rng.randint(0, 3) if fixed_ids else 0
        dimids = [rng.choice(fixed_ids) for _ in range(k)]
        if recpos >= 0 and not special and rng.random() < 0.5:
            dimids.insert(0, recpos)
        aused = set()
        atts = [rand_att(rng, version, aused, legal_names) for _ in range(rng.randint(0, 3))]
        f.vars.append(C.Var(rand_name(rng, used, legal_names),
                            rng.choice(list(C.legal_types(version))), dimids, atts))
    if special:                             # exactly one record variable, odd record size
        xt = {'byte3': C.NC_BYTE, 'short3': C.NC_SHORT, 'char3': C.NC_CHAR}[special]
        f.vars.insert(rng.randint(0, len(f.vars)),
                      C.Var(rand_name(rng, used, legal_names), xt, [recpos, fixed_ids[0]]))
    if recpos >= 0:
        f.numrecs = rng.choice([0, 1, 2, 3, 5])
    for key, n in [('dims', len(f.dims)), ('gatts', len(f.gatts)), ('vars', len(f.vars))] + \
                  [(('vatts', i), len(v.atts)) for i, v in enumerate(f.vars)]:
        if n == 0 and rng.random() < 0.3:
            f.list_style[key] = 'tag0'
    return f


def rand_data(rng, f):
    data, ext = {}, {}
    for i, v in enumerate(f.vars):
        shape = f.var_shape(v)
        n = int(np.prod(shape, dtype=np.int64)) if shape else 1
        vals, eb = rand_values(rng, v.xtype, n)
        ext[i] = eb
        if v.xtype == C.NC_CHAR:
            data[i] = np.frombuffer(vals, dtype='S1').reshape(shape) if rng.random() < 0.5 else vals
        else:                               # native (little-endian) dtype: encode must convert
            data[i] = np.array(vals, dtype=NATIVE[v.xtype]).reshape(shape)
    return data, ext


def ref_offsets(f, i):
    """independent pure-python element offsets straight from the data rules"""
    rup = lambda n: (n + 3) // 4 * 4
    v = f.vars[i]
    sz = C.TYPE_SIZE[v.xtype]
    isrec = lambda u: bool(u.dimids) and f.dims[u.dimids[0]].length == 0
    def per(u):
        n = 1
        for d in (u.dimids[1:] if isrec(u) else u.dimids):
            n *= f.dims[d].length
        return n
    if not isrec(v):
        return [v.begin + k * sz for k in range(per(v))]
    recs = [u for u in f.vars if isrec(u)]
    if len(recs) == 1:
        stride = per(v) * sz
    else:
        stride = sum(rup(per(u) * C.TYPE_SIZE[u.xtype]) for u in recs)
    return [v.begin + r * stride + k * sz for r in range(f.numrecs) for k in range(per(v))]


def roundtrip_case(rng, version, special=None, legal_names=True):
    f = gen_file(rng, version, special, legal_names)
    pad = rng.choice([0, 0, 4, 100, 513])
    va, ra = rng.choice([4, 4, 8, 512]), rng.choice([4, 4, 8, 512])
    fixed, rec = f.fixed_vars(), f.record_vars()
    gaps = {i: rng.choice([0, 4, 64]) for i in fixed + rec[:1] if rng.random() < 0.4}
    C.assign_layout(f, header_pad=pad, var_align=va, rec_align=ra, gaps=gaps)
    hs = f.header_size
    # assign_layout post-conditions
    if fixed:
        check(f.vars[fixed[0]].begin == -(-(hs + pad) // va) * va + gaps.get(fixed[0], 0), 'first begin')
    if rec:
        endf = max([f.vars[i].begin + f.var_vsize_computed(f.vars[i]) for i in fixed] or [hs + pad])
        check(f.vars[rec[0]].begin == -(-endf // ra) * ra + gaps.get(rec[0], 0), 'first rec begin')
    check(C.layout_problems(f) == [], 'layout_problems on assigned layout: %r' % C.layout_problems(f))
    if special:
        check(len(rec) == 1 and f.recsize() == 3 * C.TYPE_SIZE[f.vars[rec[0]].xtype],
              'single record variable must be packed')
    data, ext = rand_data(rng, f)
    enc = C.encode(f, data)
    check(enc[:hs] == C.header_bytes(f), 'encode starts with header')
    g = C.decode(enc, strict=True)
    check(g.logical() == f.logical(), 'logical round trip')
    check(g.header_size == hs, 'header_size round trip')
    check(C.header_bytes(g) == enc[:hs], 'decoded header re-encodes identically')
    check([(v.begin, v.vsize) for v in g.vars] == [(v.begin, v.vsize) for v in f.vars], 'begin/vsize')
    check(C.layout_problems(g, len(enc)) == [], 'layout of decoded file')
    covered = np.zeros(len(enc), dtype=bool)
    covered[:hs] = True
    for i, v in enumerate(g.vars):
        a = C.read_var(enc, g, i)
        check(a.shape == g.var_shape(v) and a.dtype == np.dtype(C.NP_DTYPE[v.xtype]), 'shape/dtype')
        check(a.tobytes() == ext[i], 'read_var data of var %d' % i)
        check(bool(C.read_var_mask(enc, g, i).all()), 'mask all inside')
        off = C.var_element_offsets(g, i)
        check(off.shape == a.shape and off.dtype == np.int64, 'offsets shape')
        ref = ref_offsets(g, i)
        check(off.reshape(-1).tolist() == ref, 'offsets vs independent rule, var %d' % i)
        sz = C.TYPE_SIZE[v.xtype]
        for k, o in enumerate(ref):         # bytes really are at those offsets
            check(enc[o:o + sz] == ext[i][k * sz:(k + 1) * sz], 'element bytes in file')
            check(not covered[o:o + sz].any(), 'element overlaps other content')
            covered[o:o + sz] = True
    # gap filling: every byte not covered by header/data carries the pattern
    enc2 = C.encode(f, data, fill_gap=b'\xAB')
    check(len(enc2) == len(enc), 'fill_gap length')
    e2 = np.frombuffer(enc2, dtype=np.uint8)
    check(bool((e2[~covered] == 0xAB).all()) and
          bool((e2[covered] == np.frombuffer(enc, dtype=np.uint8)[covered]).all()), 'gap pattern')
    check(bool((np.frombuffer(enc, dtype=np.uint8)[~covered] == 0).all()), 'default gaps are zero')
    calls = []
    enc3 = C.encode(f, data, fill_gap=lambda n: (calls.append(n), b'\x01' * n)[1])
    check(sum(calls) == int((~covered).sum()) and len(enc3) == len(enc), 'callable fill_gap')
    # truncation / extension and masks
    if len(enc) > hs:
        cut = rng.randint(hs, len(enc))
        t = C.encode(f, data, file_size=cut)
        check(t == enc[:cut], 'file_size truncation')
        for i, v in enumerate(g.vars):
            a, m = C.read_var(t, g, i), C.read_var_mask(t, g, i)
            sz = C.TYPE_SIZE[v.xtype]
            ab = a.tobytes()
            for k, o in enumerate(ref_offsets(g, i)):
                check(bool(m.reshape(-1)[k]) == (o + sz <= cut), 'mask value')
                check(ab[k * sz:(k + 1) * sz] == t[o:o + sz].ljust(sz, b'\0'), 'zero beyond EOF')
    check(C.encode(f, data, file_size=len(enc) + 7) == enc + b'\0' * 7, 'file_size extension')
    return f, data, ext, enc


def test_roundtrip():
    rng = random.Random(20261003)
    n = 0
    for version in (1, 2, 5):
        for it in range(120):
            special = [None, None, None, 'byte3', 'short3', 'char3'][it % 6]
            roundtrip_case(rng, version, special, legal_names=(it % 2 == 0))
            n += 1
    print('1. round trip: %d random files ok' % n)


# ------------------------------------------------------------- scipy
def test_scipy(tmp):
    from scipy.io import netcdf_file
    warnings.simplefilter('ignore')
    for version in (1, 2):
        for nrecvars in (1, 2):
            p = os.path.join(tmp, 'sp_%d_%d.nc' % (version, nrecvars))
            nc = netcdf_file(p, 'w', version=version)
            nc.createDimension('t', None)
            nc.createDimension('x', 3)
            nc.createDimension('y', 2)
            nc.title = b'hello'
            nc.scale = np.array([1.5, 2.5], dtype='f8')
            fx = nc.createVariable('fx', 'i4', ('y', 'x'))
            fx[:] = np.arange(6).reshape(2, 3) - 2
            fx.units = b'm'
            # (no scalar variable here: this scipy sorts 0-d variables into the record
            #  section and writes a file it cannot read back itself)
            s = nc.createVariable('s', 'i2', ('t', 'x'))
            sdat = np.arange(12, dtype='i2').reshape(4, 3) * 7 - 5
            s[:] = sdat
            if nrecvars == 2:
                b = nc.createVariable('b', 'i1', ('t', 'y', 'x'))
                bdat = (np.arange(24).reshape(4, 2, 3) - 12).astype('i1')
                b[:] = bdat
            nc.close()
            raw = open(p, 'rb').read()
            f = C.decode(raw, strict=False)
            check(f.version == version and f.numrecs == 4, 'scipy numrecs')
            check([(d.name, d.length) for d in f.dims] == [(b't', 0), (b'x', 3), (b'y', 2)], 'scipy dims')
            ga = {a.name: a for a in f.gatts}
            check(ga[b'title'].values == b'hello' and ga[b'scale'].values.tolist() == [1.5, 2.5], 'scipy gatts')
            vi = {v.name: i for i, v in enumerate(f.vars)}
            check(C.read_var(raw, f, vi[b'fx']).tolist() == (np.arange(6).reshape(2, 3) - 2).tolist(), 'fx')
            check(C.read_var(raw, f, vi[b's']).tolist() == sdat.tolist(), 'scipy record var s')
            if nrecvars == 2:
                check(C.read_var(raw, f, vi[b'b']).tolist() == bdat.tolist(), 'scipy record var b')
                check(f.recsize() == 8 + 8, 'recsize 2 vars')
            else:
                check(f.recsize() == 6, 'packed recsize')
            probs = C.layout_problems(f, len(raw))
            if nrecvars == 1:               # scipy stores the UNPADDED vsize (6) for a lone record variable
                check(len(probs) == 1 and 'vsize field 6 != 8' in probs[0], 'scipy vsize quirk %r' % probs)
                probs = []
            check(probs == [], 'scipy layout %r' % probs)
            check(f.vars[vi[b'fx']].atts[0].logical() == (b'units', C.NC_CHAR, 1, b'm'), 'vatt')
            # reverse direction: cdfspec writes the same content, scipy reads
            g = C.CDFFile(version=version, numrecs=4,
                          dims=[C.Dim(b't', 0), C.Dim(b'x', 3), C.Dim(b'y', 2)],
                          gatts=[C.Att(b'title', C.NC_CHAR, b'hello'), C.Att(b'scale', C.NC_DOUBLE, [1.5, 2.5]),
                                 C.Att(b'n', C.NC_INT, [7, -8, 9])])
            g.vars.append(C.Var(b's', C.NC_SHORT, [0, 1]))
            g.vars.append(C.Var(b'fx', C.NC_INT, [2, 1], [C.Att(b'units', C.NC_CHAR, b'm')]))
            g.vars.append(C.Var(b'sc', C.NC_DOUBLE, []))
            g.vars.append(C.Var(b'fl', C.NC_FLOAT, [1]))
            data = {0: sdat, 1: np.arange(6).reshape(2, 3) - 2, 2: 3.25, 3: [0.5, -1.5, 8.0]}
            if nrecvars == 2:
                g.vars.insert(1, C.Var(b'b', C.NC_BYTE, [0, 2, 1]))
                data = {0: sdat, 1: bdat, 2: data[1], 3: data[2], 4: data[3]}
            C.assign_layout(g, header_pad=12 * version, var_align=8)
            if nrecvars == 1:
                # scipy's reader takes the record stride from the vsize FIELD, so it cannot read
                # the spec-conformant padded value (8) here; give it its own unpadded 6.  The data
                # placement (packed records, stride 6) is what is being cross-checked.
                g.vars[0].vsize = 6
            p2 = p + '.enc'
            with open(p2, 'wb') as fh:
                enc = C.encode(g, data)
                # scipy reads numrecs*recsize bytes in one go: needs the trailing record padding
                fh.write(C.encode(g, data, file_size=-(-len(enc) // 4) * 4))
            nc = netcdf_file(p2, 'r', mmap=False)
            check(nc.dimensions == {'t': None, 'x': 3, 'y': 2}, 'scipy reads dims %r' % nc.dimensions)
            check(nc.title == b'hello' and list(nc.scale) == [1.5, 2.5] and list(nc.n) == [7, -8, 9], 'scipy reads gatts')
            check(nc.variables['s'][:].tolist() == sdat.tolist(), 'scipy reads s: %r' % nc.variables['s'][:].tolist())
            check(nc.variables['fx'][:].tolist() == (np.arange(6).reshape(2, 3) - 2).tolist(), 'scipy reads fx')
            check(nc.variables['fx'].units == b'm', 'scipy reads vatt')
            check(float(nc.variables['sc'].getValue()) == 3.25, 'scipy reads sc')
            check(nc.variables['fl'][:].tolist() == [0.5, -1.5, 8.0], 'scipy reads fl')
            if nrecvars == 2:
                check(nc.variables['b'][:].tolist() == bdat.tolist(), 'scipy reads b')
            nc.close()
    # scipy's own sample files
    import scipy.io
    for p in sorted(glob.glob(os.path.join(os.path.dirname(scipy.io.__file__), 'tests', 'data', '*.nc'))):
        raw = open(p, 'rb').read()
        f = C.decode(raw, strict=False)
        check(C.layout_problems(f, len(raw)) == [], p)
        nc = netcdf_file(p, 'r', mmap=False, maskandscale=False)
        for i, v in enumerate(f.vars):
            check(C.read_var(raw, f, i).tobytes() == np.asarray(nc.variables[v.name.decode()][...]).tobytes(), p)
        nc.close()
    print('2. scipy cross-check ok')


# ------------------------------------------------------------- PnetCDF
ENV = dict(os.environ, OMPI_ALLOW_RUN_AS_ROOT='1', OMPI_ALLOW_RUN_AS_ROOT_CONFIRM='1',
           OMPI_MCA_rmaps_base_oversubscribe='1')
NCVALIDATOR = '/repo/src/utils/ncvalidator/ncvalidator'
NCMPIGEN = '/repo/src/utils/ncmpigen/ncmpigen'
NCOFFSETS = '/repo/src/utils/ncoffsets/ncoffsets'

CDL_ONE = """netcdf one { dimensions: t = UNLIMITED ; x = 3 ; y = 2 ;
variables: byte b(x) ; short s(t, x) ; int fx(y, x) ; char c ; double d(y) ;
 :title = "abc" ; s:valid = 1s, 2s, 3s ;
data: b = -1, 2, 3 ; s = 1, 2, 3, 4, 5, 6, 7, 8, -9 ; fx = 10, 11, 12, 13, 14, -15 ; c = "Q" ; d = 0.5, -2 ; }
"""
CDL_TWO = """netcdf two { dimensions: x = 3 ; t = UNLIMITED ;
variables: short s(t, x) ; float f ; byte b(t, x) ; int r(t) ;
data: s = 1, 2, 3, 4, 5, 6 ; f = 1.5 ; b = 1, 2, 3, -4, -5, -6 ; r = 100, 200 ; }
"""
EXPECT = {'one': {b'b': [-1, 2, 3], b's': [[1, 2, 3], [4, 5, 6], [7, 8, -9]],
                  b'fx': [[10, 11, 12], [13, 14, -15]], b'c': b'Q', b'd': [0.5, -2.0]},
          'two': {b's': [[1, 2, 3], [4, 5, 6]], b'f': 1.5, b'b': [[1, 2, 3], [-4, -5, -6]], b'r': [100, 200]}}


def run(cmd):
    return subprocess.run(cmd, env=ENV, stdout=subprocess.PIPE, stderr=subprocess.STDOUT,
                          timeout=120, cwd='/tmp')


def validator_ok(path):
    r = run([NCVALIDATOR, '-q', path])
    return r.returncode == 0, r.stdout.decode(errors='replace')


def test_pnetcdf(tmp):
    files = [p for p in subprocess.run("find /repo -name '*.nc' -size -2M | head -50", shell=True,
                                       stdout=subprocess.PIPE).stdout.decode().split()]
    expect = {}
    if os.access(NCMPIGEN, os.X_OK):
        cdls = {'c0': '/repo/src/utils/ncmpigen/c0.cdl', 'test0': '/repo/src/utils/ncmpidump/test0.cdl'}
        for nm, txt in (('one', CDL_ONE), ('two', CDL_TWO)):
            cdls[nm] = os.path.join(tmp, nm + '.cdl')
            open(cdls[nm], 'w').write(txt)
        for nm, cdl in sorted(cdls.items()):
            for version in (1, 2, 5):
                out = os.path.join(tmp, 'gen_%s_%d.nc' % (nm, version))
                r = run([NCMPIGEN, '-v', str(version), '-o', out, cdl])
                if r.returncode == 0 and os.path.exists(out):
                    files.append(out)
                    expect[out] = (version, EXPECT.get(nm))
                else:
                    NOTES.append('ncmpigen failed for %s v%d: %s' % (nm, version, r.stdout.decode()[:200]))
    else:
        NOTES.append('ncmpigen not built: PnetCDF-written corpus limited to files found in /repo')
    ngood = 0
    for p in files:
        raw = open(p, 'rb').read()
        if raw[:3] != b'CDF':
            expect_error(raw, 'bad magic')
            continue
        f = C.decode(raw, strict=True)
        ngood += 1
        check(C.layout_problems(f, len(raw)) == [], '%s: %r' % (p, C.layout_problems(f, len(raw))))
        check(C.header_bytes(f) == raw[:f.header_size], p + ': header re-encodes identically')
        if os.access(NCVALIDATOR, os.X_OK):
            check(validator_ok(p)[0], 'ncvalidator rejects ' + p)
        if os.access(NCOFFSETS, os.X_OK):   # independent tool: header size and begins
            txt = run([NCOFFSETS, p]).stdout.decode()
            m = re.search(r'size\s*=\s*(\d+) bytes', txt)
            check(m and int(m.group(1)) == f.header_size, p + ': ncoffsets header size')
            starts = [int(x) for x in re.findall(r'start file offset =\s*(\d+)', txt)]
            mine = [f.vars[i].begin for i in f.fixed_vars()] + [f.vars[i].begin for i in f.record_vars()]
            check(starts == mine, p + ': ncoffsets begins')
        if p in expect:
            version, exp = expect[p]
            check(f.version == version, p + ' version')
            for name, val in (exp or {}).items():
                i = [v.name for v in f.vars].index(name)
                a = C.read_var(raw, f, i)
                got = a.tobytes() if f.vars[i].xtype == C.NC_CHAR else a.tolist()
                check(got == val, '%s var %r: %r != %r' % (p, name, got, val))
            if exp is EXPECT['one']:
                check(f.recsize() == 6, 'PnetCDF packs the single record variable')
            if exp is EXPECT['two']:
                check(f.recsize() == 8 + 4 + 4, 'PnetCDF record stride with padding')
    check(ngood >= 4, 'too few PnetCDF files')
    print('3a. %d files written by PnetCDF decode strictly with clean layout' % ngood)
    # the repo's corpus of deliberately corrupt files
    bad = sorted(glob.glob('/repo/test/cdf_format/bad_*') + glob.glob('/repo/src/utils/ncvalidator/bad_*'))
    nflag = 0
    for p in bad:
        raw = open(p, 'rb').read()
        try:
            f = C.decode(raw, strict=True)
            probs = C.layout_problems(f, len(raw))
        except C.CDFError as e:
            probs = [str(e)]
        if probs:
            nflag += 1
        else:
            NOTES.append('corrupt-corpus file accepted by decode+layout_problems (format-limit '
                         'violation, outside the grammar): ' + p)
    print('3b. %d/%d deliberately corrupt repo files flagged' % (nflag, len(bad)))
    # encoder output accepted by ncvalidator
    if os.access(NCVALIDATOR, os.X_OK):
        rng = random.Random(77)
        nv = 0
        for it in range(60):
            version = (1, 2, 5)[it % 3]
            f, data, ext, enc = roundtrip_case(rng, version, [None, 'byte3', 'short3', None][it % 4])
            p = os.path.join(tmp, 'enc_%d.nc' % it)
            open(p, 'wb').write(enc)
            ok, out = validator_ok(p)
            if not ok:
                keep = '/tmp/cdfspec_rejected_%d.nc' % it
                shutil.copy(p, keep)
                out = run([NCVALIDATOR, p]).stdout.decode(errors='replace')
                raise AssertionError('ncvalidator rejects encoder output %s (kept): %s' % (keep, out))
            nv += 1
        print('3c. ncvalidator accepts %d/%d encoded files' % (nv, 60))
    else:
        NOTES.append('ncvalidator not built: step 3c skipped')


# ------------------------------------------------------------- negative tests
def base_parts(ver):
    """hand-assembled header as ordered (label, bytes) parts; independent of cdfspec.encode"""
    nn = (lambda v: struct.pack('>q', v)) if ver == 5 else (lambda v: struct.pack('>i', v))
    off = (lambda v: struct.pack('>i', v)) if ver == 1 else (lambda v: struct.pack('>q', v))
    t4 = lambda v: struct.pack('>I', v)
    P = [('magic', b'CDF'), ('version', bytes([ver])), ('numrecs', nn(2)),
         ('dim_tag', t4(0x0A)), ('dim_n', nn(2)),
         ('d0_nlen', nn(1)), ('d0_name', b't'), ('d0_pad', b'\0\0\0'), ('d0_len', nn(0)),
         ('d1_nlen', nn(5)), ('d1_name', b'x\xc3\xa9 yz'[:5]), ('d1_pad', b'\0\0\0'), ('d1_len', nn(3)),
         ('ga_tag', t4(0x0C)), ('ga_n', nn(1)),
         ('ga0_nlen', nn(2)), ('ga0_name', b'ga'), ('ga0_pad', b'\0\0'), ('ga0_type', t4(2)),
         ('ga0_n', nn(3)), ('ga0_val', b'abc'), ('ga0_vpad', b'\0'),
         ('var_tag', t4(0x0B)), ('var_n', nn(1)),
         ('v0_nlen', nn(1)), ('v0_name', b'v'), ('v0_pad', b'\0\0\0'), ('v0_nd', nn(2)),
         ('v0_dimid0', nn(0)), ('v0_dimid1', nn(1)),
         ('va_tag', t4(0x0C)), ('va_n', nn(1)),
         ('va0_nlen', nn(2)), ('va0_name', b'va'), ('va0_pad', b'\0\0'), ('va0_type', t4(3)),
         ('va0_n', nn(1)), ('va0_val', b'\x00\x07'), ('va0_vpad', b'\0\0'),
         ('v0_type', t4(3)), ('v0_vsize', nn(8)), ('v0_begin', off(0))]
    total = sum(len(b) for _, b in P)
    P[-1] = ('v0_begin', off(total))
    return P, nn, t4, off


def mutate(P, **repl):
    """-> (bytes, {label: (start, end)}) with parts replaced"""
    out, pos, span = [], 0, {}
    for label, b in P:
        b = repl.get(label, b)
        span[label] = (pos, pos + max(len(b), 1))
        out.append(b)
        pos += len(b)
    assert not set(repl) - set(span)
    return b''.join(out), span


def test_negative():
    for ver in (1, 2, 5):
        P, nn, t4, off = base_parts(ver)
        good, span = mutate(P)
        w = 8 if ver == 5 else 4
        # positive control: decode, and encoder reproduces the hand-made bytes exactly
        f = C.decode(good)
        check(f.logical() == {'version': ver, 'numrecs': 2, 'dims': [(b't', 0), (b'x\xc3\xa9 y', 3)],
                              'gatts': [(b'ga', 2, 3, b'abc')],
                              'vars': [(b'v', 3, (0, 1), [(b'va', 3, 1, b'\x00\x07')])]}, 'hand vector logical')
        check(f.header_size == len(good) and f.vars[0].begin == len(good) and f.vars[0].vsize == 8, 'hand vector')
        check(C.layout_problems(f) == [], 'hand vector layout')
        h = C.CDFFile(version=ver, numrecs=2, dims=[C.Dim(b't', 0), C.Dim(b'x\xc3\xa9 y', 3)],
                      gatts=[C.Att(b'ga', C.NC_CHAR, b'abc')],
                      vars=[C.Var(b'v', C.NC_SHORT, [0, 1], [C.Att(b'va', C.NC_SHORT, [7])])])
        C.assign_layout(h)
        check(C.header_bytes(h) == good and C.encode(h) == good, 'encoder reproduces hand vector')
        check(f.rec_dimid() == 0 and f.is_record(f.vars[0]) and f.var_shape(f.vars[0]) == (2, 3), 'shape')
        check(f.var_nbytes_unpadded(f.vars[0]) == 6 and f.var_vsize_computed(f.vars[0]) == 8
              and f.recsize() == 6, 'sizes')

        def bad(what, label=None, strict_only=False, **repl):
            data, sp = mutate(P, **repl)
            lo, hi = (None, None) if label == '' else sp[label or next(iter(repl))]
            expect_error(data, what, True, lo, hi)
            if strict_only:
                g = C.decode(data, strict=False)
                check(g is not None, 'non-strict accepts')
                return g
            expect_error(data, what, False, lo, hi)

        bad('bad magic', magic=b'CDG')
        bad('bad magic', magic=b'\x89HD')
        for v in (0, 3, 4, 6, 255):
            bad('version', version=bytes([v]))
        bad('tag', dim_tag=t4(0x0B))                           # wrong list tag
        bad('tag', dim_tag=t4(0x0D))
        bad('tag', ga_tag=t4(0x0B))                            # expected tag missing
        bad('tag', var_tag=t4(0x0A))
        bad('tag', va_tag=t4(0x0A000000))
        # tag ZERO with nelems != 0: remove the elements so that non-strict can continue
        dimless = dict(d0_nlen=b'', d0_name=b'', d0_pad=b'', d0_len=b'', d1_nlen=b'', d1_name=b'',
                       d1_pad=b'', d1_len=b'', v0_nd=nn(0), v0_dimid0=b'', v0_dimid1=b'')
        g = C.decode(mutate(P, **dimless, dim_tag=t4(0), dim_n=nn(0))[0])
        check(g.dims == [] and g.var_shape(g.vars[0]) == () and g.list_style == {}, 'ABSENT dims')
        g = C.decode(mutate(P, **dimless, dim_n=nn(0))[0])
        check(g.dims == [] and g.list_style == {'dims': 'tag0'}, '(tag, 0) list is legal and remembered')
        g = bad('ABSENT', label='dim_n', strict_only=True, **dimless, dim_tag=t4(0), dim_n=nn(2))
        check(g.dims == [] and len(g.vars) == 1 and g.warnings, 'non-strict treats it as empty')
        neg = nn(-2)      # (-1 would be STREAMING in the numrecs field)
        top = b'\x80' + b'\0' * (w - 1)
        for label in ('numrecs', 'dim_n', 'd0_nlen', 'd1_len', 'ga_n', 'ga0_nlen', 'ga0_n', 'var_n',
                      'v0_nlen', 'v0_nd', 'v0_dimid1', 'va_n', 'va0_n'):
            bad('negative', **{label: neg})
            bad('negative', **{label: top})
        for label in ('d1_nlen', 'ga0_nlen', 'v0_nlen', 'va0_nlen'):        # zero-length names
            lab = label[:-4]
            bad('length 0', **{label: nn(0), lab + 'name': b'', lab + 'pad': b''})
        for label in ('d0_pad', 'd1_pad', 'ga0_pad', 'ga0_vpad', 'v0_pad', 'va0_pad', 'va0_vpad'):
            old = dict(P)[label]
            for k in range(len(old)):
                g = bad('padding', strict_only=True, **{label: old[:k] + b'\x01' + old[k + 1:]})
                check(g.logical() == f.logical(), 'non-strict ignores padding content')
        illegal = [0, 12, 13, 0x01000000] + ([7, 11] if ver != 5 else [])
        for t in illegal:
            bad('nc_type', ga0_type=t4(t))
            bad('nc_type', va0_type=t4(t))
            bad('nc_type', v0_type=t4(t))
        bad('out of range', v0_dimid1=nn(2))
        bad('out of range', v0_dimid0=nn(2 ** 31 - 1))
        bad('more than one record', d1_len=nn(0))
        bad('record dimension', v0_dimid1=nn(0))                # record dim as 2nd dimension
        bad('record dimension', v0_dimid0=nn(1), v0_dimid1=nn(0), label='v0_dimid1')
        for cut in range(len(good)):                            # every proper prefix is truncated
            expect_error(good[:cut], 'truncated' if cut >= 4 else None, True)
            expect_error(good[:cut], None, False)
        bad('truncated', ga0_n=nn(2 ** 28), label='ga0_val')                     # huge counts run off the end
        bad('truncated', var_n=nn(2 ** 31 - 1), label='')
        # STREAMING
        g = C.decode(mutate(P, numrecs=b'\xff' * w)[0])
        check(g.numrecs is None and g.streaming and g.var_shape(g.vars[0]) == (0, 3), 'streaming')
        check(g.numrecs_from_size(len(good) + 13) == 3 and C.header_bytes(g)[4:4 + w] == b'\xff' * w, 'streaming helpers')
        # layout problems (decode itself does not validate begin / vsize)
        for repl, word in ((dict(v0_begin=off(len(good) + 2)), 'multiple of 4'),
                           (dict(v0_begin=off(len(good) - 4)), 'inside the header'),
                           (dict(v0_begin=b'\xff' * len(dict(P)['v0_begin'])), 'negative'),
                           (dict(v0_vsize=nn(6)), 'vsize'), (dict(v0_vsize=nn(12)), 'vsize')):
            g = C.decode(mutate(P, **repl)[0])
            probs = C.layout_problems(g)
            check(len(probs) >= 1 and any(word in p for p in probs), 'layout problem %r in %r' % (word, probs))
        check(C.layout_problems(f, len(good) - 1) != [], 'header longer than file')
    print('4. negative tests ok')


def test_layout_and_misc():
    # vsize saturation (CDF-1/2) and large sizes; nothing is allocated
    for ver in (1, 2, 5):
        f = C.CDFFile(version=ver, dims=[C.Dim(b'a', 2 ** 16), C.Dim(b'b', 2 ** 16), C.Dim(b'c', 2 ** 14 * 3)],
                      vars=[C.Var(b'small', C.NC_INT, [0]), C.Var(b'three_gib', C.NC_BYTE, [2, 0]),
                            C.Var(b'big', C.NC_INT, [0, 1])])
        # three_gib: 3*2^14 * 2^16 bytes = 3 GiB: vsize has the sign bit set but is not saturated
        if ver == 1:
            f.vars = f.vars[:1] + f.vars[2:]                    # begins beyond 2^31 do not fit CDF-1
        C.assign_layout(f)
        big = f.vars[-1]
        check(f.var_vsize_computed(big) == 2 ** 34, 'computed vsize')
        check(big.vsize == (2 ** 34 if ver == 5 else 2 ** 32 - 1), 'saturated vsize')
        g = C.decode(C.header_bytes(f))
        check(g.vars[-1].vsize == big.vsize and C.layout_problems(g) == [], 'saturation is legal: %r' % C.layout_problems(g))
        if ver != 1:
            check(g.vars[1].vsize == 3 * 2 ** 30, 'unsigned 32-bit vsize')
        g.vars[-1].vsize = 2 ** 34 % 2 ** 32 if ver != 5 else 2 ** 32 - 1
        check(any('vsize' in p for p in C.layout_problems(g)), 'wrong vsize reported')
    # ordering / overlap / record section problems
    def mk():
        f = C.CDFFile(version=2, numrecs=3, dims=[C.Dim(b't', 0), C.Dim(b'x', 5)],
                      vars=[C.Var(b'a', C.NC_INT, [1]), C.Var(b'r1', C.NC_SHORT, [0, 1]),
                            C.Var(b'b', C.NC_BYTE, [1]), C.Var(b'r2', C.NC_INT, [0])])
        C.assign_layout(f)
        return f
    f = mk()
    check(C.layout_problems(f) == [] and f.recsize() == 12 + 4, 'clean')
    check([v.begin for v in f.vars] == [f.header_size, f.header_size + 28, f.header_size + 20,
                                        f.header_size + 40], 'fixed-before-record placement')
    cases = [(lambda f: setattr(f.vars[2], 'begin', f.vars[0].begin), 'out of order'),
             (lambda f: setattr(f.vars[2], 'begin', f.vars[0].begin + 16), 'overlap'),
             (lambda f: setattr(f.vars[3], 'begin', f.vars[1].begin + 8), 'overlap'),
             (lambda f: setattr(f.vars[3], 'begin', f.vars[1].begin - 4), 'out of order'),
             (lambda f: setattr(f.vars[1], 'begin', f.vars[2].begin + 4), 'record section begin'),
             (lambda f: setattr(f.vars[3], 'begin', f.vars[3].begin + 4), 'consecutive records overlap'),
             (lambda f: setattr(f.vars[0], 'begin', f.vars[0].begin - 4), 'inside the header'),
             (lambda f: setattr(f.vars[2], 'begin', f.vars[2].begin + 2), 'multiple of 4')]
    for mut, word in cases:
        f = mk()
        mut(f)
        probs = C.layout_problems(f)
        check(any(word in p for p in probs), '%r expected in %r' % (word, probs))
    # gaps are allowed between fixed variables
    f = mk()
    C.assign_layout(f, gaps={2: 64, 1: 128}, header_pad=40, var_align=512, rec_align=1024)
    check(C.layout_problems(f) == [] and f.vars[0].begin == 512 and f.vars[1].begin == 1024 + 128, 'gaps')
    # encode argument checking
    for baddata in ({0: np.zeros(4)}, {0: b'123'}, {2: np.array([300] * 5)}):
        try:
            C.encode(f, baddata)
        except ValueError:
            NCHECK[0] += 1
        else:
            raise AssertionError('ValueError expected for %r' % baddata)
    # any bytes-like input is accepted
    enc = C.encode(f, {0: [1, 2, 3, 4, 5], 3: [7, 8, 9]})
    for conv in (bytearray, memoryview, lambda b: np.frombuffer(b, dtype=np.uint8)):
        g = C.decode(conv(enc))
        check(g.logical() == f.logical() and C.read_var(conv(enc), g, 3).tolist() == [7, 8, 9]
              and C.read_var(conv(enc), g, 0).tolist() == [1, 2, 3, 4, 5], 'bytes-like input')
    enc0 = C.encode(f, {0: [1, 2, 3, 4, 5]})                    # file ends after the first fixed variable
    check(len(enc0) == f.vars[0].begin + 20, 'length = end of last data written')
    check(not C.read_var_mask(enc0, f, 1).any() and not C.read_var(enc0, f, 1).any()
          and C.read_var(enc0, f, 1).shape == (3, 5), 'variable beyond EOF reads as zeros, mask False')
    # performance: 5000 dims + 5000 attributes + 2000 variables
    f = C.CDFFile(version=5, dims=[C.Dim(b'dim%05d' % i, i + 1) for i in range(5000)],
                  gatts=[C.Att(b'att%05d' % i, 1 + i % 11, list(range(i % 7))) for i in range(5000)],
                  vars=[C.Var(b'v%d' % i, 1 + i % 11, [i, i + 1], [C.Att(b'u', C.NC_CHAR, b'metre')]) for i in range(2000)])
    C.assign_layout(f)
    hdr = C.header_bytes(f)
    t0 = time.time()
    g = C.decode(hdr)
    dt = time.time() - t0
    check(g.logical() == f.logical() and C.layout_problems(g) == [], 'large header')
    check(dt < 1.0, 'decode of %d-byte header took %.2fs' % (len(hdr), dt))
    print('5. layout/misc ok (decode of %d-byte header with 5000 dims/5000 atts/2000 vars: %.3fs)' % (len(hdr), dt))


def main():
    tmp = tempfile.mkdtemp(prefix='cdfspec_test_')
    try:
        test_roundtrip()
        test_scipy(tmp)
        test_pnetcdf(tmp)
        test_negative()
        test_layout_and_misc()
    finally:
        shutil.rmtree(tmp, ignore_errors=True)
    for n in NOTES:
        print('NOTE:', n)
    print('ALL OK (%d checks)' % NCHECK[0])
    return 0


if __name__ == '__main__':
    sys.exit(main())
