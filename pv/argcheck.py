"""Reference predicate for the index / buffer arguments of the PnetCDF data APIs (DESIGN.md appendix B).

Written from the documentation, not from the implementation:

  [P]  header comment of test/testcases/error_precedence.m4 and RELEASE_NOTES 1.8.0: for put/get variable APIs the
       error precedence is  NC_EBADID, NC_EPERM, NC_EINDEFINE, NC_ENOTVAR, NC_ECHAR, NC_EINVALCOORDS, NC_EEDGE,
       NC_ESTRIDE, NC_EINVAL, NC_ERANGE.  The body of that test also fixes: start == NULL -> NC_EINVALCOORDS,
       start == dimension length with count == NULL -> NC_EINVALCOORDS, count == NULL for vara/vars/varm ->
       NC_EEDGE, non-positive stride -> NC_ESTRIDE.
  [R]  RELEASE_NOTES 1.8.0 "--enable-relax-coord-bound" / 1.10.0 PNETCDF_RELAX_COORD_BOUND: strict rule
       "NC_EINVALCOORDS when the value of start is larger than or equal to the defined dimension size"; relaxed
       rule "start[i] can be the size of dimension i only when count[i] is zero".
  [H]  pnetcdf.h: NC_EEDGE "Start+count exceeds dimension bound", NC_ESTRIDE "Illegal stride", NC_ENEGATIVECNT
       "Negative count is specified", NC_EIOMISMATCH "Input/Output data amount mismatch", NC_ENULLSTART /
       NC_ENULLCOUNT "argument start/count is a NULL pointer", NC_COUNT_IGNORE "buftype must be a predefined MPI
       datatype", varn comment "counts can be NULL, equivalent to counts with all 1s".
  [N]  netCDF semantics of the record dimension: writes may extend a record variable (dimension 0 has no upper
       bound for writes); reads are bounded by the current number of records.

Where these sources leave the outcome open the predicate returns every code they allow (a *set* of acceptable
return codes); it never returns a set containing both NC_NOERR and an error unless the documentation really leaves
acceptance open (only: bufcount == 0 / zero-length request combined with a buffer element count that disagrees).
The open points, all cross-read against src/dispatchers/var_getput.m4 so that the model does not demand more than
is documented:

  * NC_ENEGATIVECNT is not part of the documented precedence list.  It is placed after NC_EINVALCOORDS
    (appendix B); against NC_EEDGE / NC_ESTRIDE either code is accepted.
  * relaxed mode, start[i] == len[i] with count[i] < 0: [R] says NC_EINVALCOORDS ("only when count is zero"), the
    negative count is an error of its own -> either.
  * a non-positive stride in a dimension makes "start + (count-1)*stride" meaningless; whether the edge test then
    uses the stride or the plain start+count ([H] wording) is open -> if the two readings disagree in such a
    dimension NC_EEDGE and NC_ESTRIDE are both accepted.
  * start == NULL: NC_EINVALCOORDS [P] or NC_ENULLSTART [H]; count == NULL: NC_EEDGE [P] or NC_ENULLCOUNT [H].
  * varn: the documentation does not say which sub-request's error is reported -> the union over all failing
    sub-requests is accepted (`first` holds the set of the first failing one, in order, for statistics).
  * NC_EIOMISMATCH is not part of the precedence list -> when an index error and a buffer size mismatch are both
    present either is accepted.
"""
from pv.model import E

NOERR = 0
EINVALCOORDS = E["EINVALCOORDS"]
EEDGE = E["EEDGE"]
ESTRIDE = E["ESTRIDE"]
ENEGATIVECNT = E["ENEGATIVECNT"]
ENULLSTART = E["ENULLSTART"]
ENULLCOUNT = E["ENULLCOUNT"]
EINVAL = E["EINVAL"]
EIOMISMATCH = E["EIOMISMATCH"]
X_UINT_MAX = 4294967295

OK = frozenset([NOERR])


class Verdict:
    """allowed: frozenset of acceptable return codes; accepted: NC_NOERR is the only acceptable code;
    nelems: number of elements addressed when accepted (0 = zero-length request)."""
    __slots__ = ("allowed", "nelems", "first", "why")

    def __init__(self, allowed, nelems=0, first=None, why=""):
        self.allowed = frozenset(allowed)
        self.nelems = nelems
        self.first = frozenset(first) if first is not None else self.allowed
        self.why = why

    @property
    def accepted(self):
        return self.allowed == OK

    @property
    def rejected(self):
        return NOERR not in self.allowed

    def __repr__(self):
        return "Verdict(%s, nelems=%d, %s)" % (sorted(self.allowed), self.nelems, self.why)


def check_box(shape, is_rec, is_read, strict, form, start, count, stride=None, fmt=1):
    """One (start, count, stride) request against a variable of rank >= 1.

    shape   : current extents; for a record variable shape[0] is the caller's current view of the record count
    is_rec  : dimension 0 is the record dimension
    is_read : get family (bounded by shape[0]) or put family (dimension 0 of a record variable unbounded above)
    strict  : PNETCDF_RELAX_COORD_BOUND=0
    form    : 'var1' (count ignored: all ones), 'vara', 'vars', 'varm'
    start/count/stride : lists or None (NULL pointer); stride None = contiguous
    """
    nd = len(shape)
    if start is None:
        return Verdict([EINVALCOORDS, ENULLSTART], why="start NULL")
    if form == "var1":
        count = None
        stride = None
    if form == "vara":
        stride = None

    # ---- 2. NC_EINVALCOORDS
    coords = False
    coords_maybe = False
    for i in range(nd):
        s = start[i]
        c = 1 if count is None else count[i]
        if s < 0:
            coords = True
            continue
        if is_rec and i == 0 and not is_read:
            # record dimension of a write: no upper bound [N], except what the format can represent
            if fmt in (1, 2) and s > X_UINT_MAX:
                coords = True
            continue
        L = shape[i]
        if strict:
            if s >= L:
                coords = True
        else:
            if s > L:
                coords = True
            elif s == L:
                if c > 0:
                    coords = True
                elif c < 0:
                    coords_maybe = True
    if coords:
        return Verdict([EINVALCOORDS], why="coords")

    # ---- 3. count: NULL, negative, edge
    if count is None:
        if form != "var1":
            return Verdict([EEDGE, ENULLCOUNT], why="count NULL")
        # var1: a single element at an in-range start
        return Verdict(OK, nelems=1, why="ok")

    neg = any(c < 0 for c in count)
    edge = False
    edge_maybe = False
    bad_stride = False
    for i in range(nd):
        sd = 1 if stride is None else stride[i]
        if sd <= 0:
            bad_stride = True
        if is_rec and i == 0 and not is_read:
            continue
        s, c, L = start[i], count[i], shape[i]
        if c > L:
            edge = True
        elif c > 0:
            aware = s + (c - 1) * sd >= L
            blind = s + c > L
            if sd >= 1:
                if aware:            # blind implies aware for sd >= 1
                    edge = True
            else:
                if aware and blind:
                    edge = True
                elif aware or blind:
                    edge_maybe = True
    errs = set()
    if neg:
        errs.add(ENEGATIVECNT)
        if bad_stride:
            errs.add(ESTRIDE)       # relative order of NC_ENEGATIVECNT and NC_ESTRIDE is not documented
    if edge:
        errs.add(EEDGE)
    elif edge_maybe:
        errs.add(EEDGE)
        errs.add(ESTRIDE)
    if errs:
        if coords_maybe:
            errs.add(EINVALCOORDS)
        return Verdict(errs, why="count/edge")

    # ---- 4. NC_ESTRIDE
    if bad_stride:
        return Verdict([ESTRIDE], why="stride")

    n = 1
    for c in count:
        n *= c
    return Verdict(OK, nelems=n, why="ok")


def check_varn(shape, is_rec, is_read, strict, num, starts, counts, fmt=1):
    """varn request on a variable of rank >= 1.  starts: None or list of (list | None); counts: None or list of
    (list | None) (NULL = single elements)."""
    if num == 0:
        return Verdict(OK, nelems=0, why="num 0")
    if starts is None:
        return Verdict([ENULLSTART], why="starts NULL")
    allowed = set()
    first = None
    total = 0
    for i in range(num):
        if starts[i] is None:
            v = Verdict([ENULLSTART], why="starts[i] NULL")
        else:
            c = None if counts is None else counts[i]
            v = check_box(shape, is_rec, is_read, strict, "var1" if c is None else "vara", starts[i], c, None, fmt)
        if v.accepted:
            total += v.nelems
        else:
            allowed |= v.allowed
            if first is None:
                first = v.allowed
    if allowed:
        return Verdict(allowed, first=first, why="varn sub-request")
    return Verdict(OK, nelems=total, why="ok")


def check_flex(index_verdict, bufcount, buf_nelems, derived, buftype_null=False):
    """Combine the verdict on the index arguments with the buffer description of a flexible call.

    bufcount    : the bufcount argument (-1 = NC_COUNT_IGNORE)
    buf_nelems  : number of primitive elements described by ONE buftype
    derived     : buftype is not an MPI predefined datatype
    buftype_null: buftype == MPI_DATATYPE_NULL (bufcount ignored, buffer matches the variable)
    """
    v = index_verdict
    if buftype_null:
        return v
    # a request is zero-length when its index arguments address nothing or when bufcount == 0; the documentation says such
    # requests succeed without effect but not whether the buffer description is still validated -> NC_NOERR also accepted
    zero_len = (v.accepted and v.nelems == 0) or bufcount == 0
    if bufcount == -1:
        if not derived:
            return v                                   # operates as the high-level API
        if v.rejected:
            # [P] ranks the index errors before NC_EINVAL for the blocking var1/vara/vars/varm calls; for the other
            # entry points (varn, nonblocking) the order is not documented -> either fault may be reported
            return Verdict(set(v.allowed) | {EINVAL}, first=v.first, why=v.why + " (+NC_COUNT_IGNORE with derived buftype)")
        if zero_len:
            return Verdict([NOERR, EINVAL], nelems=0, why="zero-length, NC_COUNT_IGNORE with derived buftype")
        return Verdict([EINVAL], why="NC_COUNT_IGNORE with derived buftype")
    if bufcount < 0:
        raise ValueError("negative bufcount other than NC_COUNT_IGNORE is outside the model")
    have = bufcount * buf_nelems
    if v.rejected:
        # the request's element count may be undefined (negative counts); position of NC_EIOMISMATCH undocumented;
        # bufcount == 0 may short-cut the call before the index arguments are looked at
        extra = {EIOMISMATCH} | ({NOERR} if bufcount == 0 else set())
        return Verdict(set(v.allowed) | extra, first=v.first, why=v.why + " (+mismatch / bufcount 0?)")
    if have == v.nelems:
        return v
    if zero_len:
        # zero-length request with a disagreeing buffer description: success without any effect or a size mismatch
        # error - either way nothing may change
        return Verdict([NOERR, EIOMISMATCH], nelems=0, why="zero-length with size mismatch")
    return Verdict([EIOMISMATCH], why="size mismatch")


def boundary_classes(shape, start, count, stride=None):
    """names of the boundary classes a tuple falls in (for evidence): start == len, start+count == len+1,
    last strided index == len"""
    out = set()
    if start is None:
        return out
    for i, L in enumerate(shape):
        s = start[i]
        c = 1 if count is None else count[i]
        sd = 1 if stride is None else stride[i]
        if s == L:
            out.add("b_start_eq_len")
        if c > 0 and s + c == L + 1:
            out.add("b_end_eq_len_plus_1")
        if c > 0 and sd > 1 and s + (c - 1) * sd == L:
            out.add("b_last_strided_eq_len")
        if c > 0 and s >= 0 and s + (c - 1) * max(sd, 1) == L - 1:
            out.add("b_last_index_is_last_element")
    return out
