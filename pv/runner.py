"""Common driver for all checks: build, workers, Hypothesis campaigns, triage,
known findings, evidence, replay."""
import zlib, os, sys, json, time, argparse, subprocess, importlib, traceback, hashlib, multiprocessing, collections, random

VERIF = os.path.dirname(os.path.dirname(os.path.abspath(__file__)))
sys.path.insert(0, VERIF)
from pv.pool import Pool, PoolError, Script  # noqa


def ensure_build(variant):
    r = subprocess.run([sys.executable, os.path.join(VERIF, "tools", "build.py"), variant], stdout=subprocess.PIPE)
    if r.returncode != 0:
        return None
    return r.stdout.decode().strip().splitlines()[-1]


class Known:
    """known_findings.json: read-only at run time.  An entry with status 'known'
    suppresses (and announces) discrepancies whose signature it matches; an
    entry with status 'fixed' suppresses nothing."""

    def __init__(self, prop):
        self.prop = prop
        self.entries = []
        p = os.path.join(VERIF, "known_findings.json")
        if os.path.exists(p):
            for e in json.load(open(p)).get("findings", []):
                if prop in e.get("properties", [e.get("property")]):
                    self.entries.append(e)
        self.hits = collections.Counter()

    def match(self, problem):
        sig = problem.get("sig") or {}
        for e in self.entries:
            if e.get("status") != "known":
                continue
            if all(sig.get(k) == v for k, v in e["signature"].items()):
                self.hits[e["id"]] += 1
                return e
        return None


class Ctx:
    def __init__(self, prop, tier, seed, widx=0, nworkers=1):
        self.prop = prop
        self.tier = tier
        self.seed = seed
        self.widx = widx
        self.nworkers = nworkers
        self.stats = collections.Counter()
        self.nt = set()          # hashes of distinct non-trivial cases
        self.samples = []
        self.evaluations = 0
        self.failures = []       # list of dicts {case, problems}
        self.known = Known(prop)
        self.build = {}
        self.pools = {}
        self.notes = []
        self.last_fail = None
        self.excluded_known = 0

    def pool(self, variant="asan", nprocs=1, env=None):
        key = (variant, nprocs, json.dumps(env or {}, sort_keys=True))
        p = self.pools.get(key)
        if p is None:
            p = Pool(self.build[variant], nprocs=nprocs, extra_env=env)
            self.pools[key] = p
        return p

    def close(self):
        for p in self.pools.values():
            p.close()
        self.pools = {}

    def count(self, *labels):
        for l in labels:
            self.stats[l] += 1

    def nontrivial(self, h):
        self.nt.add(h)

    def sample(self, obj, limit=4):
        if len(self.samples) < limit:
            self.samples.append(obj)


def case_hash(case):
    return hashlib.sha1(json.dumps(case, sort_keys=True, default=str).encode()).hexdigest()[:16]


def run_hypothesis(ctx, strategy, run_case, n_examples, label=""):
    """Drive run_case(ctx, case) -> list of problems with Hypothesis.  The
    minimal failing case (after shrinking) is appended to ctx.failures."""
    from hypothesis import given, settings, seed, HealthCheck, Phase, Verbosity

    state = {"last": None}

    @seed(ctx.seed * 1000003 + ctx.widx * 7919 + (zlib.crc32(label.encode()) % 1000 if label else 0))
    @settings(max_examples=n_examples, database=None, deadline=None, derandomize=False,
              suppress_health_check=list(HealthCheck), report_multiple_bugs=False,
              phases=[Phase.generate, Phase.shrink], verbosity=Verbosity.quiet, print_blob=False)
    @given(strategy)
    def t(case):
        ctx.evaluations += 1
        probs = run_case(ctx, case)
        real = []
        for p in probs:
            if ctx.known.match(p):
                ctx.excluded_known += 1
            else:
                real.append(p)
        if real:
            state["last"] = (case, real)
            raise AssertionError(real[0].get("msg", "problem"))

    try:
        t()
    except AssertionError:
        if state["last"] is not None:
            case, probs = state["last"]
            ctx.failures.append({"case": case, "problems": probs, "label": label})
    except Exception as e:   # harness trouble, not a verdict
        ctx.notes.append("harness exception in %s: %s" % (label, traceback.format_exc()[-1500:]))
        ctx.stats["harness_exceptions"] += 1


def guarded(run_case):
    """wrap a run_case so pool crashes / hangs / collective mismatches become problems"""
    def f(ctx, case):
        try:
            return run_case(ctx, case)
        except PoolError as e:
            if e.kind in ("start", "harness"):
                raise RuntimeError("harness problem (%s): %s" % (e.kind, e.detail))     # harness trouble, never a verdict
            tail = e.stderr_tail[-3000:]
            sig = {"kind": e.kind}
            if e.kind == "crash":
                # classify by the sanitizer headline / signal
                import re
                m = re.search(r"(AddressSanitizer: [\w-]+|SEGV|Segmentation fault|Assertion .* failed|signal \d+)", tail)
                sig["what"] = m.group(1) if m else "exit"
                m2 = re.search(r"#\d+ 0x[0-9a-f]+ in (\w+) /repo/src/([\w/\.]+):", tail)
                if m2:
                    sig["func"] = m2.group(1)
            return [{"kind": e.kind, "msg": "%s: %s" % (e.kind, e.detail[:300]), "sig": sig, "stderr": tail}]
    return f


def _worker(args):
    modname, prop, tier, seed, widx, nworkers, builds = args
    mod = importlib.import_module(modname)
    ctx = Ctx(prop, tier, seed, widx, nworkers)
    ctx.build = builds
    t0 = time.time()
    try:
        mod.campaign(ctx)
    except Exception:
        ctx.notes.append("worker %d exception: %s" % (widx, traceback.format_exc()[-2000:]))
        ctx.stats["harness_exceptions"] += 1
    finally:
        ctx.close()
    return {"stats": dict(ctx.stats), "nt": list(ctx.nt), "samples": ctx.samples, "evaluations": ctx.evaluations,
            "failures": ctx.failures, "notes": ctx.notes, "known_hits": dict(ctx.known.hits), "excluded_known": ctx.excluded_known,
            "wall": time.time() - t0}


def write_evidence(prop, tier, seed, level, coverage, assumptions, wall, violations):
    evdir = os.environ.get("VERIF_EVIDENCE_DIR") or os.path.join(VERIF, "evidence")    # override: evaluation of seeded changes
    os.makedirs(evdir, exist_ok=True)
    ev = {"property_id": prop, "tier": tier, "seed": seed, "level": level, "coverage": coverage,
          "assumptions": assumptions, "wall_s": round(wall, 2), "violations": violations}
    tmp = os.path.join(evdir, prop + ".json.tmp")
    with open(tmp, "w") as f:
        json.dump(ev, f, indent=1, default=str)
    os.replace(tmp, os.path.join(evdir, prop + ".json"))


def main(modname, prop, level="exploration", variants=("asan",), default_workers=6, nt_floor=10):
    ap = argparse.ArgumentParser()
    ap.add_argument("--tier", default=os.environ.get("VERIF_TIER", "quick"))
    ap.add_argument("--seed", type=int, default=int(os.environ.get("VERIF_SEED", "1") or 1))
    ap.add_argument("--replay", default=None)
    ap.add_argument("--workers", type=int, default=int(os.environ.get("VERIF_WORKERS", default_workers)))
    a = ap.parse_args()
    if a.tier not in ("quick", "thorough"):
        a.tier = "quick"
    t0 = time.time()
    mod = importlib.import_module(modname)
    builds = {}
    for v in variants:
        b = ensure_build(v)
        if b is None:
            print("BUILD-FAILED variant=%s: /repo does not build; no verdict" % v)
            sys.exit(2)
        builds[v] = b

    # ---- replay mode -------------------------------------------------
    if a.replay:
        ctx = Ctx(prop, a.tier, a.seed)
        ctx.build = builds
        rp = json.load(open(a.replay))
        try:
            probs = guarded(mod.run_case)(ctx, rp["case"])
        finally:
            ctx.close()
        probs = [p for p in probs if not ctx.known.match(p)]
        if probs:
            for p in probs[:5]:
                print("  problem:", p.get("msg"))
            print("VIOLATION property=%s replay=%s" % (prop, a.replay))
            sys.exit(1)
        print("replay passes")
        sys.exit(0)

    # ---- regression replays (seconds) --------------------------------
    violations = []
    rdir = os.path.join(VERIF, "replays", prop)
    reg = Ctx(prop, a.tier, a.seed)
    reg.build = builds
    nreg = 0
    if os.path.isdir(rdir):
        for fn in sorted(os.listdir(rdir)):
            if not fn.endswith(".json"):
                continue
            rp = json.load(open(os.path.join(rdir, fn)))
            try:
                probs = guarded(mod.run_case)(reg, rp["case"])
            except Exception:
                reg.notes.append("replay %s raised %s" % (fn, traceback.format_exc()[-800:]))
                continue
            nreg += 1
            probs = [p for p in probs if not reg.known.match(p)]
            if probs:
                violations.append((os.path.join(rdir, fn), probs))
    reg.close()

    # ---- campaign ----------------------------------------------------
    nw = max(1, a.workers)
    args = [(modname, prop, a.tier, a.seed, i, nw, builds) for i in range(nw)]
    if nw == 1:
        results = [_worker(args[0])]
    else:
        with multiprocessing.get_context("fork").Pool(nw) as mp:
            results = mp.map(_worker, args)
    stats = collections.Counter()
    nt = set()
    samples, notes, failures = [], list(reg.notes), []
    evaluations = 0
    known_hits = collections.Counter(reg.known.hits)
    excluded_known = 0
    for r in results:
        stats.update(r["stats"])
        nt.update(r["nt"])
        samples += r["samples"][:2]
        notes += r["notes"]
        failures += r["failures"]
        evaluations += r["evaluations"]
        known_hits.update(r["known_hits"])
        excluded_known += r["excluded_known"]

    # ---- triage: replay each failure 3x in a fresh pool ---------------
    os.makedirs(rdir, exist_ok=True)
    flaky = 0
    for fl in failures:
        ctx = Ctx(prop, a.tier, a.seed)
        ctx.build = builds
        nfail = 0
        last = None
        for _ in range(3):
            try:
                probs = guarded(mod.run_case)(ctx, fl["case"])
            except Exception:
                probs = []
                notes.append("triage replay raised: " + traceback.format_exc()[-800:])
            probs = [p for p in probs if not ctx.known.match(p)]
            ctx.close()
            if probs:
                nfail += 1
                last = probs
        if nfail == 3:
            h = case_hash(fl["case"])
            fdir = os.environ.get("VERIF_FOUND_DIR") or os.path.join(VERIF, "replays", prop)
            os.makedirs(fdir, exist_ok=True)
            path = os.path.join(fdir, "found-%s.json" % h)
            script = None
            try:
                script = mod.case_script(fl["case"]) if hasattr(mod, "case_script") else None
            except Exception:
                pass
            with open(path, "w") as f:
                json.dump({"property": prop, "case": fl["case"], "problems": [{k: v for k, v in p.items() if k != "stderr"} for p in last[:5]],
                           "stderr": (last[0].get("stderr") or "")[-3000:], "script": script, "seed": a.seed, "tier": a.tier}, f, indent=1, default=str)
            violations.append((path, last))
        else:
            flaky += 1
            notes.append("failure not reproduced 3/3 (inconclusive, not reported): %s" % (fl["problems"][0].get("msg", "")[:300]))

    # ---- known findings announcement ---------------------------------
    kn = Known(prop)
    for e in kn.entries:
        if e.get("status") == "known":
            print("KNOWN-FINDING: property=%s %s (id=%s, hits this run: %d)" % (prop, e["description"], e["id"], known_hits.get(e["id"], 0)))

    wall = time.time() - t0
    rule = getattr(mod, "RULE", "")
    cov = {"evaluations": max(evaluations, 0), "distinct_nontrivial": len(nt), "rule": rule, "samples": samples[:5],
           "classes": dict(sorted(stats.items())), "excluded_known": excluded_known, "regression_replays": nreg,
           "workers": nw, "build": {k: os.path.basename(v) for k, v in builds.items()},
           "inconclusive_failures": flaky, "notes": notes[:20]}
    if hasattr(mod, "coverage_extra"):
        cov.update(mod.coverage_extra(stats, a.tier))
    write_evidence(prop, a.tier, a.seed, level, cov, getattr(mod, "ASSUMPTIONS", []), wall, len(violations))
    for n in notes[:10]:
        print("note:", n[:400])
    print("%s tier=%s seed=%d evaluations=%d distinct_nontrivial=%d wall=%.1fs violations=%d" % (prop, a.tier, a.seed, evaluations, len(nt), wall, len(violations)))
    if violations:
        seen_paths = set()
        for path, probs in violations:
            if path in seen_paths:
                continue
            seen_paths.add(path)
            for p in probs[:3]:
                print("  problem:", str(p.get("msg"))[:500])
            print("VIOLATION property=%s replay=%s" % (prop, path))
        sys.exit(1)
    if stats.get("harness_exceptions", 0) > 0 and evaluations == 0:
        print("HARNESS-ERROR: no case could be evaluated")
        sys.exit(3)
    if len(nt) < nt_floor:
        print("GENERATOR-HEALTH: only %d distinct non-trivial cases (floor %d)" % (len(nt), nt_floor))
        sys.exit(3)
    sys.exit(0)
