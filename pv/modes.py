"""Reference automaton for the PnetCDF API mode state machine and the documented
error precedence (property C14).  Nothing here calls the library.

State = {define, coll, indep} x {rw, ro} x {new, old}  (+ auxiliary facts that decide
whether a probe is *permitted*: attached buffer, pending bput, record count).

Every rule carries its source.  Sources (all inside /repo):
  [EP]   test/testcases/error_precedence.m4 header comment and DEVELOPER_NOTES.md
         "NC error code precedence":
           put att : NC_EBADID, NC_EPERM, NC_ENOTVAR, NC_EBADNAME, NC_EBADTYPE, NC_ECHAR, NC_EINVAL,
                     NC_ENOTINDEFINE, NC_ERANGE
           get att : NC_EBADID, NC_ENOTVAR, NC_EBADNAME, NC_ENOTATT, NC_ECHAR, NC_EINVAL, NC_ERANGE
           put/get : NC_EBADID, NC_EPERM, NC_EINDEFINE, NC_ENOTVAR, NC_ECHAR, NC_EINVALCOORDS, NC_EEDGE,
                     NC_ESTRIDE, NC_EINVAL, NC_ERANGE
         and the guideline "the most serious ones are related to ncid, such as NC_EBADID, NC_EPERM and
         NC_EINDEFINE; the next is related to varid, such as NC_ENOTVAR".
  [H]    src/include/pnetcdf.h.in error code comments (NC_EPERM "Write to read only", NC_ENOTINDEFINE
         "Operation not allowed in data mode", NC_EINDEFINE "Operation not allowed in define mode",
         NC_ENOTINDEP "Operation not allowed in collective data mode", NC_EINDEP "Operation not allowed in
         independent data mode", NC_ENULLABUF "no attached buffer is found", NC_EPREVATTACHBUF "previous
         attached buffer is found", NC_EPENDINGBPUT "pending bput is found, cannot detach buffer",
         NC_EGLOBAL "Action prohibited on NC_GLOBAL varid", NC_ENOTRECVAR).
  [SC]   src/dispatchers/var_getput.m4 sanity_check(): comments "check file write permission for put
         APIs", "blocking get/put APIs must be called in data mode", "check if file is currently in
         collective/independent data mode", "variable NC_GLOBAL is illegal in get/put APIs"; comment on
         the nonblocking APIs: "can be called in either collective or independent data mode or even in
         define mode".
  [F]    src/dispatchers/file.c comments (enddef/redef/sync/flush/begin/end_indep_data/wait/wait_all/cancel).
  [FM]   src/drivers/ncmpio/ncmpio_file_misc.c comments: begin_indep_data "must not be in define mode";
         "starting from 1.2.0, calling begin_indep_data() in independent data mode is no longer considered
         illegal"; end_indep_data "must not be in define mode"; "starting from 1.9.0, calling
         end_indep_data() in collective data mode is no longer considered illegal"; ncmpio_abort.
  [W]    src/drivers/ncmpio/ncmpio_wait.c: "wait must be called in data mode"; "ncmpi_wait which must be
         called in independent data mode, illegal in collective mode"; "ncmpi_wait_all which must be called
         in collective data mode, illegal in independent mode"; ncmpio_cancel "1.7.0 and after nonblocking
         APIs can be called in define mode".
  [S]    src/drivers/ncmpio/ncmpio_sync.c: sync/sync_numrecs "cannot be in define mode".
  [MAN]  man/pnetcdf.m4: def_dim/def_var "must be in define mode"; rename_* / put_att "If the new name is
         longer than the old name (the space required is greater than before) the netCDF dataset must be
         in define mode"; put/get "must be open and in data mode"; "In PnetCDF, changing fill mode must be
         done in define mode"; close "If the dataset is in define mode, enddef will be called before
         closing"; abort.
  [V]    src/dispatchers/variable.c comments: def_var_fill "collective, and must be called in define mode";
         fill_var_rec "collective and can only be called in collective data mode", "cannot be read-only",
         "must be called in data mode", "using NC_GLOBAL in varid is illegal for this API".
  [A]    src/dispatchers/attribute.c comments: del_att "must be called in define mode"; rename/copy/del
         "cannot be read-only".
"""
from pv.model import E

DEFINE, COLL, INDEP = "define", "coll", "indep"
MODES = (DEFINE, COLL, INDEP)
STARTS = ("create", "open_rw", "open_ro")
# mode-changing calls of the enumeration
STEPS = ("enddef", "redef", "begin_indep", "end_indep", "reopen_rw", "reopen_ro", "abort_create")

OK = frozenset([0])


class Outcome:
    """allowed = frozenset of return codes the documentation allows (None = unconstrained);
    permitted = True/False/None (model's verdict whether the call is permitted in the state)"""
    __slots__ = ("allowed", "why")

    def __init__(self, allowed, why):
        self.allowed = None if allowed is None else frozenset(allowed)
        self.why = why

    @property
    def permitted(self):
        if self.allowed is None:
            return None
        return self.allowed == OK

    def __repr__(self):
        return "Outcome(%s, %s)" % (None if self.allowed is None else sorted(self.allowed), self.why)


class State:
    """one open file as the reference automaton sees it"""
    __slots__ = ("mode", "rw", "new", "numrecs", "abuf", "pending_bput", "nchanges", "has_data")

    def __init__(self, mode, rw, new, numrecs=0, has_data=False):
        self.mode, self.rw, self.new = mode, rw, new
        self.numrecs = numrecs          # record count of the fixed schema's record variable
        self.has_data = has_data        # variables hold written (not only filled) data
        self.abuf = False               # bput buffer attached
        self.pending_bput = 0
        self.nchanges = 0               # successful mode changes so far

    def key(self):
        return (self.mode, "rw" if self.rw else "ro", "new" if self.new else "old")

    def copy(self):
        s = State(self.mode, self.rw, self.new, self.numrecs, self.has_data)
        s.abuf, s.pending_bput, s.nchanges = self.abuf, self.pending_bput, self.nchanges
        return s

    def __repr__(self):
        return "%s/%s/%s" % self.key()


def start_state(start):
    if start == "create":
        return State(DEFINE, True, True, 0, False)     # [MAN] create leaves the dataset in define mode
    if start == "open_rw":
        return State(COLL, True, False, 2, True)       # open enters (collective) data mode
    if start == "open_ro":
        return State(COLL, False, False, 2, True)
    raise ValueError(start)


# --------------------------------------------------------------------------- mode-changing calls
def step(st, op):
    """-> (list of (api call name, Outcome) the step consists of, new state).
    A rejected step leaves the state unchanged."""
    n = st.copy()
    if op == "enddef":
        if st.mode != DEFINE:
            # [F] "if (!(pncp->flag & NC_MODE_DEF)) NC_ENOTINDEFINE", [H]; for a read-only file NC_EPERM
            # also applies and the relative order of the two is not documented for enddef
            al = [E["ENOTINDEFINE"]] if st.rw else [E["ENOTINDEFINE"], E["EPERM"]]
            return [("enddef", Outcome(al, "enddef outside define mode [F][H]"))], n
        n.mode, n.new = COLL, False                    # [F] "default enters collective data mode"
        n.nchanges += 1
        return [("enddef", Outcome(OK, "enddef in define mode [MAN]"))], n
    if op == "redef":
        if not st.rw:
            return [("redef", Outcome([E["EPERM"]], "redef on read-only file [F] 'read-only' NC_EPERM"))], n
        if st.mode == DEFINE:
            return [("redef", Outcome([E["EINDEFINE"]], "redef in define mode [F] 'cannot be in define mode, must enter from data mode'"))], n
        n.mode = DEFINE                                # [FM] ncmpio_redef leaves independent mode implicitly
        n.nchanges += 1
        return [("redef", Outcome(OK, "redef from data mode [MAN]"))], n
    if op == "begin_indep":
        if st.mode == DEFINE:
            return [("begin_indep", Outcome([E["EINDEFINE"]], "begin_indep_data in define mode [FM] 'must not be in define mode'"))], n
        if st.mode == COLL:
            n.mode = INDEP
            n.nchanges += 1
        return [("begin_indep", Outcome(OK, "begin_indep_data in data mode [FM] (legal in independent mode since 1.2.0)"))], n
    if op == "end_indep":
        if st.mode == DEFINE:
            return [("end_indep", Outcome([E["EINDEFINE"]], "end_indep_data in define mode [FM] 'must not be in define mode'"))], n
        if st.mode == INDEP:
            n.mode = COLL
            n.nchanges += 1
        return [("end_indep", Outcome(OK, "end_indep_data in data mode [FM] (legal in collective mode since 1.9.0)"))], n
    if op in ("reopen_rw", "reopen_ro"):
        # [MAN] close: "If the dataset is in define mode, enddef will be called before closing"
        n = State(COLL, op == "reopen_rw", False, st.numrecs, st.has_data)
        n.nchanges = st.nchanges + 1
        return [("close", Outcome(OK, "close is permitted in every mode [MAN]")),
                ("open", Outcome(OK, "open of the file just closed"))], n
    if op == "abort_create":
        # [MAN][FM] abort: in data mode same as close, after redef the new definitions are dropped, after
        # create and before enddef the dataset disappears; create(NC_CLOBBER) then gives a new file in define mode
        n = State(DEFINE, True, True, 0, False)
        n.nchanges = st.nchanges + 1
        return [("abort", Outcome(OK, "abort is permitted in every mode [MAN]")),
                ("create", Outcome(OK, "create with NC_CLOBBER"))], n
    raise ValueError(op)


# --------------------------------------------------------------------------- probes
def _first(cands):
    """cands: list of (applies, code); returns first applicable code or None"""
    for ap, code in cands:
        if ap:
            return code
    return None


def _varerr(call):
    v = call.get("varerr")
    if v == "global":
        return E["EGLOBAL"]
    if v == "notvar":
        return E["ENOTVAR"]
    return None


def predict(st, call):
    """Outcome of one non-mode-changing API call `call` (abstract descriptor, see checks/c14.py) in state st."""
    fam = call["fam"]
    if call.get("badid"):
        return Outcome([E["EBADID"]], "invalid ncid comes first in every documented precedence list [EP]")
    if fam == "helper":
        return Outcome(OK, "harness helper acting on a second file (not the file whose mode is modelled)")
    ro, mode = (not st.rw), st.mode
    ve = _varerr(call)

    if fam == "blocking":
        # [EP] + [SC]: EPERM, EINDEFINE, EINDEP/ENOTINDEP, EGLOBAL/ENOTVAR, ECHAR, coordinates
        code = _first([
            (call["write"] and ro, E["EPERM"]),
            (mode == DEFINE, E["EINDEFINE"]),
            (call["coll"] and mode == INDEP, E["EINDEP"]),
            ((not call["coll"]) and mode == COLL, E["ENOTINDEP"]),
            (ve is not None, ve),
            (call.get("echar"), E["ECHAR"]),
            (call.get("coord"), E["EINVALCOORDS"]),
        ])
        return Outcome(OK if code is None else [code], "blocking put/get precedence [EP][SC]")

    if fam == "post":      # iput / iget / bput
        cands = [
            (call["write"] and ro, E["EPERM"]),
            (ve is not None, ve),
            (call.get("echar"), E["ECHAR"]),
        ]
        code = _first(cands)
        if code is not None:
            return Outcome([code], "nonblocking post precedence [EP][SC]; legal in every mode [SC]")
        noabuf = call.get("bput") and not st.abuf
        if noabuf and call.get("coord"):
            # relative order of NC_ENULLABUF and the coordinate errors is not documented
            return Outcome([E["ENULLABUF"], E["EINVALCOORDS"]], "bput without attached buffer and bad start [H]")
        if noabuf:
            return Outcome([E["ENULLABUF"]], "bput without attached buffer [H]")
        if call.get("coord"):
            return Outcome([E["EINVALCOORDS"]], "bad start [EP]")
        return Outcome(OK, "nonblocking posts are legal in define, collective and independent mode [SC]")

    if fam == "wait":
        code = _first([
            (mode == DEFINE, E["EINDEFINE"]),
            (call["coll"] and mode == INDEP, E["EINDEP"]),
            ((not call["coll"]) and mode == COLL, E["ENOTINDEP"]),
        ])
        return Outcome(OK if code is None else [code], "wait/wait_all mode rules [W]")

    if fam == "cancel":
        return Outcome(OK, "cancel is legal in every mode [W]")

    if fam == "sync":
        if mode == DEFINE:
            return Outcome([E["EINDEFINE"]], "sync 'cannot be in define mode' [S][F]")
        return Outcome(OK, "sync in data mode, collective or independent [F]")

    if fam == "flush":
        if mode == DEFINE:
            return Outcome(None, "flush 'must be called in data mode' [F] but no error code is documented")
        return Outcome(OK, "flush in data mode [F]")

    if fam == "sync_numrecs":
        if mode == DEFINE:
            return Outcome([E["EINDEFINE"]], "sync_numrecs 'cannot be in define mode' [S]")
        if ro:
            return Outcome(None, "sync_numrecs on a read-only file: undocumented")
        return Outcome(OK, "sync_numrecs 'collective, but can be called in independent data mode' [F]")

    if fam == "define":    # def_dim, def_var, def_var_fill
        arg = ve if ve is not None else call.get("argerr")
        if mode != DEFINE:
            # [MAN][V][H] the mode error is documented; that it precedes an argument error that applies as well, or
            # NC_EPERM on a read-only file, is only the general guideline of [EP] -> either code is allowed
            al = [E["ENOTINDEFINE"]] + ([E["EPERM"]] if ro else []) + ([arg] if arg is not None else [])
            return Outcome(al, "definition outside define mode [MAN][V][H]")
        if arg is not None:
            return Outcome([arg], "argument error of a definition in define mode [V]")
        return Outcome(OK, "definition in define mode [MAN]")

    if fam == "set_fill":
        if ro:
            # a read-only file is never in define mode: both errors apply, their order is not documented for set_fill
            return Outcome([E["EPERM"], E["ENOTINDEFINE"]], "set_fill on a read-only file [F]")
        if mode != DEFINE:
            return Outcome([E["ENOTINDEFINE"]], "set_fill 'not allowed to call in data mode' [F][MAN]")
        return Outcome(OK, "set_fill in define mode [MAN]")

    if fam == "rename":    # rename_dim / rename_var / rename_att
        arg = ve if ve is not None else call.get("argerr")
        needdef = bool(call.get("longer")) and mode != DEFINE
        if ro:
            # 'cannot be read-only' [A][V]; NC_EPERM precedes varid/argument errors [EP]; versus NC_ENOTINDEFINE undocumented
            return Outcome([E["EPERM"]] + ([E["ENOTINDEFINE"]] if needdef else []), "rename on a read-only file [A][V][EP]")
        if arg is not None:
            return Outcome([arg] + ([E["ENOTINDEFINE"]] if needdef else []), "rename argument error")
        if needdef:
            return Outcome([E["ENOTINDEFINE"]], "longer name outside define mode [MAN]")
        return Outcome(OK, "rename in define mode, or to a name that is not longer in data mode [MAN]")

    if fam == "put_att":
        # [EP] put att: EPERM, ENOTVAR, EBADNAME, EBADTYPE, ECHAR, EINVAL, ENOTINDEFINE
        code = _first([
            (ro, E["EPERM"]),
            (ve is not None, ve),
            (call.get("echar"), E["ECHAR"]),
            (call.get("grows") and mode != DEFINE, E["ENOTINDEFINE"]),
        ])
        return Outcome(OK if code is None else [code], "put attribute precedence [EP]; new/larger attribute needs define mode [MAN]")

    if fam == "del_att":
        # [A] 'cannot be read-only', 'must be called in define mode'; the order among the errors that apply together is
        # not documented for del_att -> any of them
        ap = ([E["EPERM"]] if ro else []) + ([E["ENOTINDEFINE"]] if mode != DEFINE else []) + \
             ([ve] if ve is not None else []) + ([E["ENOTATT"]] if call.get("missing") else [])
        return Outcome(ap or OK, "del_att [A]")

    if fam == "copy_att":
        needdef = bool(call.get("grows")) and mode != DEFINE
        extra = [E["ENOTINDEFINE"]] if needdef else []
        if ro:
            return Outcome([E["EPERM"]] + extra, "copy_att 'cannot be read-only' [A]; NC_EPERM precedes varid errors [EP]")
        if ve is not None:
            return Outcome([ve] + extra, "copy_att varid error")
        if needdef:
            return Outcome(extra, "copy_att: a new attribute needs define mode (same rule as put_att [MAN])")
        return Outcome(OK, "copy_att in define mode, or onto an attribute of the same size in data mode")

    if fam in ("inq", "get_att"):
        # legal in every mode; argument errors are mode independent
        if call.get("argerr") is not None:
            return Outcome([call["argerr"]], "inquiry / get_att argument error [EP]")
        return Outcome(OK, "inquiry and get_att are legal in every mode")

    if fam == "fill_var_rec":
        # [V] order of the documented checks: EPERM, EINDEFINE, EGLOBAL, ENOTVAR, ENOTRECVAR, EINDEP
        ap = []
        if ro:
            ap.append(E["EPERM"])
        if mode == DEFINE:
            ap.append(E["EINDEFINE"])
        if ve is not None:
            ap.append(ve)
        if call.get("notrec"):
            ap.append(E["ENOTRECVAR"])
        if mode == INDEP:
            ap.append(E["EINDEP"])
        if not ap:
            return Outcome(OK, "fill_var_rec in collective data mode on a writable file [V]")
        # EPERM and EINDEFINE precede argument errors [EP]; the position of EINDEP relative to the varid errors
        # differs between [SC] and [V], so either is allowed when both apply
        if ap[0] in (E["EPERM"], E["EINDEFINE"]):
            return Outcome([ap[0]], "fill_var_rec 'cannot be read-only' / 'must be called in data mode' [V][EP]")
        return Outcome(ap, "fill_var_rec argument / collective-mode errors [V]")

    if fam == "buffer_attach":
        if st.abuf:
            return Outcome([E["EPREVATTACHBUF"]], "second buffer_attach [H]")
        return Outcome(OK, "buffer_attach is legal in every mode")

    if fam == "buffer_detach":
        if not st.abuf:
            return Outcome([E["ENULLABUF"]], "buffer_detach without attached buffer [H]")
        if st.pending_bput:
            return Outcome([E["EPENDINGBPUT"]], "buffer_detach with pending bput [H]")
        return Outcome(OK, "buffer_detach")

    if fam == "inq_buffer":
        if not st.abuf:
            return Outcome([E["ENULLABUF"]], "inq_buffer_* without attached buffer [H]")
        return Outcome(OK, "inq_buffer_*")

    raise ValueError(fam)


def effect(st, call):
    """auxiliary state after an ACCEPTED call (mode never changes through a probe)"""
    fam = call["fam"]
    if fam == "buffer_attach":
        st.abuf = True
    elif fam == "buffer_detach":
        st.abuf = False
    elif fam == "post" and call.get("bput"):
        st.pending_bput += 1
    elif fam == "cancel" or fam == "wait":
        st.pending_bput = 0
    if call.get("rec_extent"):
        st.numrecs = max(st.numrecs, call["rec_extent"])
    return st


def enumerate_prefixes(depth):
    """all sequences of mode-changing calls of length 0..depth, in a fixed order"""
    out = [[]]
    frontier = [[]]
    for _ in range(depth):
        nxt = []
        for p in frontier:
            for s in STEPS:
                nxt.append(p + [s])
        out += nxt
        frontier = nxt
    return out


def run_prefix(start, prefix):
    st = start_state(start)
    for op in prefix:
        _, st = step(st, op)
    return st
