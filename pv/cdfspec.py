"""cdfspec - independent decoder / encoder for the classic netCDF file formats
CDF-1, CDF-2 and CDF-5, written from the format grammar only (no code of the
library under test is imported, called or copied).  Only numpy is required.

Grammar implemented (all integers big-endian):

  header    = magic numrecs dim_list gatt_list var_list
  magic     = 'C' 'D' 'F' VERSION                 VERSION = 1 | 2 | 5
  numrecs   = NON_NEG | STREAMING                 STREAMING = all bits set
  dim_list  = ABSENT | NC_DIMENSION nelems [dim ...]
  gatt_list = att_list ;  vatt_list = att_list
  att_list  = ABSENT | NC_ATTRIBUTE nelems [attr ...]
  var_list  = ABSENT | NC_VARIABLE  nelems [var ...]
  ABSENT    = ZERO ZERO        (4-byte tag 0, then nelems 0)
  dim       = name dim_length                     dim_length = NON_NEG (0: record dim)
  name      = nelems namestring padding           padding = zero bytes to 4-byte boundary
  attr      = name nc_type nelems [values ...] padding
  var       = name nelems [dimid ...] vatt_list nc_type vsize begin
  nelems, dimid, dim_length = NON_NEG
  NON_NEG   = 4-byte non-negative INT (CDF-1/2) | 8-byte non-negative INT64 (CDF-5)
  vsize     = NON_NEG (CDF-1/2: read as UNSIGNED 32 bit, because 2^32-1 is the
              legal saturation value and sizes up to 2^32-4 are legal)
  begin     = OFFSET = 4-byte INT (CDF-1) | 8-byte INT64 (CDF-2, CDF-5)
  tags (NC_DIMENSION ...) and nc_type are always 4 bytes.

Documented choices:
  * NC_CHAR uses numpy dtype 'S1' (variables: array of 'S1'; attributes: `bytes`).
  * numrecs == STREAMING is reported as numrecs=None, streaming=True in all
    three versions (the netCDF specification defines 2^64-1 for CDF-5 too).
    Shapes then use 0 records; see CDFFile.numrecs_from_size().
  * strict=False relaxes exactly two checks (zero padding, tag 0 with
    nelems != 0 -> treated as an empty list).  Everything else is always checked.
  * `begin` is decoded as a SIGNED integer (OFFSET); a negative begin is not a
    decode error, layout_problems() reports it.
  * encode()/header_bytes() do not validate: integers are packed modulo 2^bits
    if they lie in [-2^(bits-1), 2^bits) so invalid files can be produced on
    purpose.  To validate an object use decode(header_bytes(f)).
"""
import struct
import numpy as np

NC_BYTE, NC_CHAR, NC_SHORT, NC_INT, NC_FLOAT, NC_DOUBLE = 1, 2, 3, 4, 5, 6
NC_UBYTE, NC_USHORT, NC_UINT, NC_INT64, NC_UINT64 = 7, 8, 9, 10, 11
NC_DIMENSION, NC_VARIABLE, NC_ATTRIBUTE = 0x0A, 0x0B, 0x0C

TYPE_SIZE = {1: 1, 2: 1, 3: 2, 4: 4, 5: 4, 6: 8, 7: 1, 8: 2, 9: 4, 10: 8, 11: 8}
NP_DTYPE = {1: '>i1', 2: 'S1', 3: '>i2', 4: '>i4', 5: '>f4', 6: '>f8',
            7: '>u1', 8: '>u2', 9: '>u4', 10: '>i8', 11: '>u8'}
TYPE_NAME = {1: 'NC_BYTE', 2: 'NC_CHAR', 3: 'NC_SHORT', 4: 'NC_INT', 5: 'NC_FLOAT',
             6: 'NC_DOUBLE', 7: 'NC_UBYTE', 8: 'NC_USHORT', 9: 'NC_UINT',
             10: 'NC_INT64', 11: 'NC_UINT64'}
VSIZE_SATURATED = 2 ** 32 - 1      # stored in CDF-1/2 when the real vsize > 2^32-4
VSIZE_MAX_32 = 2 ** 32 - 4
_TAG_NAME = {NC_DIMENSION: 'NC_DIMENSION', NC_VARIABLE: 'NC_VARIABLE',
             NC_ATTRIBUTE: 'NC_ATTRIBUTE'}


class CDFError(Exception):
    """Grammar violation found by decode(); .offset is the byte offset."""

    def __init__(self, msg, offset=None):
        self.offset = offset
        Exception.__init__(self, msg if offset is None else '%s at byte offset %d' % (msg, offset))


def _roundup(n, a):
    return -(-n // a) * a


def legal_types(version):
    """nc_type codes legal for a format version."""
    return range(1, 12) if version == 5 else range(1, 7)


# ---------------------------------------------------------------- data model
class Dim:
    def __init__(self, name, length):
        self.name = bytes(name)
        self.length = int(length)          # 0 = record (unlimited) dimension

    def __repr__(self):
        return 'Dim(%r, %d)' % (self.name, self.length)


class Att:
    """values: `bytes` for NC_CHAR, 1-D numpy array of NP_DTYPE[xtype] otherwise."""

    def __init__(self, name, xtype, values):
        self.name = bytes(name)
        self.xtype = int(xtype)
        if self.xtype == NC_CHAR:
            if isinstance(values, np.ndarray):
                values = values.tobytes()
            self.values = bytes(values)
        else:
            self.values = np.array(values, dtype=NP_DTYPE[self.xtype]).reshape(-1)

    @property
    def nelems(self):
        return len(self.values)

    def value_bytes(self):
        """external (big-endian) representation of the values, without padding"""
        return self.values if self.xtype == NC_CHAR else self.values.tobytes()

    def logical(self):
        return (self.name, self.xtype, self.nelems, self.value_bytes())

    def __repr__(self):
        return 'Att(%r, %s, %r)' % (self.name, TYPE_NAME.get(self.xtype, self.xtype), self.values)


class Var:
    def __init__(self, name, xtype, dimids=(), atts=None, vsize=0, begin=0):
        self.name = bytes(name)
        self.xtype = int(xtype)
        self.dimids = [int(d) for d in dimids]
        self.atts = list(atts) if atts else []
        self.vsize = int(vsize)            # as stored in the file
        self.begin = int(begin)            # as stored in the file

    def __repr__(self):
        return 'Var(%r, %s, dimids=%r, natts=%d, vsize=%d, begin=%d)' % (
            self.name, TYPE_NAME.get(self.xtype, self.xtype), self.dimids,
            len(self.atts), self.vsize, self.begin)


class CDFFile:
    def __init__(self, version=1, numrecs=0, dims=None, gatts=None, vars=None,
                 list_style=None, streaming=False):
        self.version = version
        self.numrecs = numrecs             # None when decoded from STREAMING
        self.streaming = streaming         # True: numrecs field holds all ones
        self.dims = list(dims) if dims else []
        self.gatts = list(gatts) if gatts else []
        self.vars = list(vars) if vars else []
        # how EMPTY lists are encoded: 'absent' (ZERO ZERO, default) or 'tag0'
        # keys: 'dims', 'gatts', 'vars', ('vatts', varindex)
        self.list_style = dict(list_style) if list_style else {}
        self.warnings = []                 # filled by decode(strict=False)

    # -- field widths
    @property
    def nonneg_width(self):
        return 8 if self.version == 5 else 4

    @property
    def offset_width(self):
        return 4 if self.version == 1 else 8

    @property
    def header_size(self):
        """number of bytes the header occupies (function of the logical content,
        the version and list_style only)"""
        return len(header_bytes(self))

    # -- shape / size rules
    def rec_dimid(self):
        for i, d in enumerate(self.dims):
            if d.length == 0:
                return i
        return -1

    def is_record(self, var):
        return bool(var.dimids) and self.dims[var.dimids[0]].length == 0

    def var_shape(self, var):
        nrec = self.numrecs or 0
        return tuple(nrec if self.dims[d].length == 0 else self.dims[d].length
                     for d in var.dimids)

    def var_nbytes_unpadded(self, var):
        """bytes of the whole fixed variable, or of ONE record of a record variable"""
        n = TYPE_SIZE[var.xtype]
        for d in (var.dimids[1:] if self.is_record(var) else var.dimids):
            n *= self.dims[d].length
        return n

    def var_vsize_computed(self, var):
        return _roundup(self.var_nbytes_unpadded(var), 4)

    def vsize_field(self, var):
        """the value the vsize field must hold (saturates in CDF-1/2)"""
        n = self.var_vsize_computed(var)
        return VSIZE_SATURATED if self.version != 5 and n > VSIZE_MAX_32 else n

    def record_vars(self):
        return [i for i, v in enumerate(self.vars) if self.is_record(v)]

    def fixed_vars(self):
        return [i for i, v in enumerate(self.vars) if not self.is_record(v)]

    def recsize(self):
        """record stride: sum of padded vsizes of all record variables, except
        that with exactly ONE record variable records are packed (no padding)."""
        rv = self.record_vars()
        if len(rv) == 1:
            return self.var_nbytes_unpadded(self.vars[rv[0]])
        return sum(self.var_vsize_computed(self.vars[i]) for i in rv)

    def begin_rec(self):
        """file offset of the record section (min begin of record vars) or None"""
        rv = self.record_vars()
        return min(self.vars[i].begin for i in rv) if rv else None

    def numrecs_from_size(self, file_size):
        """number of (possibly partial) records implied by a file size; used for
        STREAMING files"""
        rs, b = self.recsize(), self.begin_rec()
        if b is None or rs == 0 or file_size <= b:
            return 0
        return -(-(file_size - b) // rs)

    def logical(self):
        return {
            'version': self.version,
            'numrecs': self.numrecs,
            'dims': [(d.name, d.length) for d in self.dims],
            'gatts': [a.logical() for a in self.gatts],
            'vars': [(v.name, v.xtype, tuple(v.dimids), [a.logical() for a in v.atts])
                     for v in self.vars],
        }


# ------------------------------------------------------------------- decoder
_U32 = struct.Struct('>I')
_I32 = struct.Struct('>i')
_I64 = struct.Struct('>q')
_U64 = struct.Struct('>Q')


class _Reader:
    """cursor over the input; every read checks for truncation"""

    def __init__(self, data, strict):
        self.b = data if isinstance(data, bytes) else memoryview(data).cast('B')
        self.n = len(self.b)
        self.pos = 0
        self.strict = strict
        self.w = 4                          # width of NON_NEG

    def need(self, n, what):
        if self.pos + n > self.n:
            raise CDFError('truncated header: %s needs %d bytes, %d available'
                           % (what, n, max(self.n - self.pos, 0)), self.pos)

    def u32(self, what):                    # tags and nc_type: 4 bytes, any version
        self.need(4, what)
        v = _U32.unpack_from(self.b, self.pos)[0]
        self.pos += 4
        return v

    def nonneg(self, what):                 # NON_NEG
        self.need(self.w, what)
        v = (_I64 if self.w == 8 else _I32).unpack_from(self.b, self.pos)[0]
        if v < 0:
            raise CDFError('negative NON_NEG value %d for %s' % (v, what), self.pos)
        self.pos += self.w
        return v

    def raw(self, n, what):
        self.need(n, what)
        v = bytes(self.b[self.pos:self.pos + n])
        self.pos += n
        return v

    def padding(self, n, what):             # padding = zero bytes to 4-byte boundary
        p = -n % 4
        if p:
            pad = self.raw(p, 'padding of ' + what)
            if self.strict and pad != b'\0' * p:
                raise CDFError('non-zero padding %r after %s' % (pad, what), self.pos - p)


def _rd_list_head(r, tag_expected, what, f):
    """ABSENT | TAG nelems   ->  (nelems, style)"""
    at = r.pos
    tag = r.u32(what + ' tag')
    if tag not in (0, tag_expected):
        raise CDFError('bad %s tag 0x%X (expected 0 or %s=0x%X)'
                       % (what, tag, _TAG_NAME[tag_expected], tag_expected), at)
    n = r.nonneg(what + ' nelems')
    if tag == 0:
        if n != 0:
            if r.strict:
                raise CDFError('%s: tag ZERO (ABSENT) with nelems=%d != 0' % (what, n), at + 4)
            f.warnings.append('%s: tag ZERO with nelems=%d treated as empty' % (what, n))
        return 0, 'absent'
    return n, ('tag0' if n == 0 else 'list')


def _rd_name(r, what):
    """name = nelems namestring padding"""
    at = r.pos
    n = r.nonneg(what + ' name length')
    if n == 0:
        raise CDFError('%s name has length 0' % what, at)
    s = r.raw(n, what + ' name')
    r.padding(n, what + ' name %r' % s)
    return s


def _rd_type(r, version, what):
    """nc_type = NC_BYTE .. NC_DOUBLE | (CDF-5) NC_UBYTE .. NC_UINT64"""
    at = r.pos
    t = r.u32(what + ' nc_type')
    if t not in legal_types(version):
        raise CDFError('%s: nc_type %d not legal in CDF-%d' % (what, t, version), at)
    return t


def _rd_att_list(r, f, what, style_key):
    """att_list = ABSENT | NC_ATTRIBUTE nelems [attr ...]
       attr     = name nc_type nelems [values ...] padding"""
    n, style = _rd_list_head(r, NC_ATTRIBUTE, what, f)
    if style == 'tag0':
        f.list_style[style_key] = 'tag0'
    atts = []
    for i in range(n):
        w = '%s[%d]' % (what, i)
        name = _rd_name(r, w)
        xtype = _rd_type(r, f.version, w)
        ne = r.nonneg(w + ' nelems')
        nbytes = ne * TYPE_SIZE[xtype]
        raw = r.raw(nbytes, w + ' values')
        r.padding(nbytes, w + ' values')
        atts.append(Att(name, xtype, raw if xtype == NC_CHAR
                        else np.frombuffer(raw, dtype=NP_DTYPE[xtype])))
    return atts


def _rd_dim_list(r, f):
    """dim_list = ABSENT | NC_DIMENSION nelems [dim ...] ; dim = name dim_length"""
    n, style = _rd_list_head(r, NC_DIMENSION, 'dim_list', f)
    if style == 'tag0':
        f.list_style['dims'] = 'tag0'
    have_rec = False
    for i in range(n):
        name = _rd_name(r, 'dim[%d]' % i)
        at = r.pos
        length = r.nonneg('dim[%d] length' % i)
        if length == 0:
            if have_rec:
                raise CDFError('dim[%d] %r: more than one record dimension' % (i, name), at)
            have_rec = True
        f.dims.append(Dim(name, length))


def _rd_var_list(r, f):
    """var_list = ABSENT | NC_VARIABLE nelems [var ...]
       var      = name nelems [dimid ...] vatt_list nc_type vsize begin"""
    n, style = _rd_list_head(r, NC_VARIABLE, 'var_list', f)
    if style == 'tag0':
        f.list_style['vars'] = 'tag0'
    ndims_file = len(f.dims)
    for i in range(n):
        w = 'var[%d]' % i
        name = _rd_name(r, w)
        nd = r.nonneg(w + ' number of dimensions')
        dimids = []
        for k in range(nd):
            at = r.pos
            d = r.nonneg('%s dimid[%d]' % (w, k))
            if d >= ndims_file:
                raise CDFError('%s %r: dimid[%d]=%d out of range (file has %d dims)'
                               % (w, name, k, d, ndims_file), at)
            if k > 0 and f.dims[d].length == 0:
                raise CDFError('%s %r: record dimension used as dimension %d (only the '
                               'first dimension may be the record dimension)' % (w, name, k), at)
            dimids.append(d)
        atts = _rd_att_list(r, f, w + ' vatt_list', ('vatts', i))
        xtype = _rd_type(r, f.version, w)
        at = r.pos
        if f.version == 5:                  # vsize = NON_NEG (INT64)
            r.need(8, w + ' vsize')
            vsize = _U64.unpack_from(r.b, r.pos)[0]
            if vsize >= 2 ** 63 and r.strict:
                raise CDFError('negative NON_NEG value for %s vsize' % w, at)
            r.pos += 8
        else:                               # unsigned: 2^32-1 is the saturation value
            vsize = r.u32(w + ' vsize')
        if f.version == 1:                  # begin = OFFSET
            r.need(4, w + ' begin')
            begin = _I32.unpack_from(r.b, r.pos)[0]
            r.pos += 4
        else:
            r.need(8, w + ' begin')
            begin = _I64.unpack_from(r.b, r.pos)[0]
            r.pos += 8
        f.vars.append(Var(name, xtype, dimids, atts, vsize, begin))


def decode(data, strict=True):
    """header = magic numrecs dim_list gatt_list var_list   -> CDFFile"""
    r = _Reader(data, strict)
    f = CDFFile()
    magic = r.raw(4, 'magic')                               # magic = 'C' 'D' 'F' VERSION
    if magic[:3] != b'CDF':
        raise CDFError('bad magic %r' % magic[:3], 0)
    if magic[3] not in (1, 2, 5):
        raise CDFError('bad format version byte %d' % magic[3], 3)
    f.version = magic[3]
    r.w = f.nonneg_width
    r.need(r.w, 'numrecs')                                  # numrecs = NON_NEG | STREAMING
    if bytes(r.b[r.pos:r.pos + r.w]) == b'\xff' * r.w:
        f.numrecs, f.streaming = None, True
        r.pos += r.w
    else:
        f.numrecs = r.nonneg('numrecs')
    _rd_dim_list(r, f)
    f.gatts = _rd_att_list(r, f, 'gatt_list', 'gatts')
    _rd_var_list(r, f)
    assert f.header_size == r.pos, 'cdfspec internal: encoder and decoder disagree on header size'
    return f


# ------------------------------------------------------------------- encoder
def _pack(value, nbytes, what='field'):
    value = int(value)
    bits = 8 * nbytes
    if not -(1 << (bits - 1)) <= value < (1 << bits):
        raise ValueError('%s=%d does not fit in %d bytes' % (what, value, nbytes))
    return (value % (1 << bits)).to_bytes(nbytes, 'big')


def _enc_name(out, name, w):
    """name = nelems namestring padding"""
    out.append(_pack(len(name), w, 'name length'))
    out.append(name)
    out.append(b'\0' * (-len(name) % 4))


def _enc_list_head(out, tag, n, style, w):
    """ABSENT (ZERO ZERO) | TAG nelems"""
    if n == 0 and style != 'tag0':
        out.append(b'\0' * (4 + w))
    else:
        out.append(_pack(tag, 4))
        out.append(_pack(n, w, 'nelems'))


def _enc_att_list(out, atts, style, w):
    """att_list = ABSENT | NC_ATTRIBUTE nelems [attr ...]"""
    _enc_list_head(out, NC_ATTRIBUTE, len(atts), style, w)
    for a in atts:
        _enc_name(out, a.name, w)
        out.append(_pack(a.xtype, 4, 'nc_type'))
        out.append(_pack(a.nelems, w, 'attribute nelems'))
        vb = a.value_bytes()
        out.append(vb)
        out.append(b'\0' * (-len(vb) % 4))


def header_bytes(f):
    """header = magic numrecs dim_list gatt_list var_list, from the fields of f
    (including each variable's vsize and begin exactly as given)."""
    if f.version not in (1, 2, 5):
        raise ValueError('version must be 1, 2 or 5')
    w, ow, ls = f.nonneg_width, f.offset_width, f.list_style
    out = [b'CDF', bytes([f.version])]
    out.append(b'\xff' * w if f.streaming else _pack(f.numrecs, w, 'numrecs'))
    _enc_list_head(out, NC_DIMENSION, len(f.dims), ls.get('dims'), w)
    for d in f.dims:                                        # dim = name dim_length
        _enc_name(out, d.name, w)
        out.append(_pack(d.length, w, 'dim_length'))
    _enc_att_list(out, f.gatts, ls.get('gatts'), w)
    _enc_list_head(out, NC_VARIABLE, len(f.vars), ls.get('vars'), w)
    for i, v in enumerate(f.vars):          # var = name nelems [dimid ...] vatt_list nc_type vsize begin
        _enc_name(out, v.name, w)
        out.append(_pack(len(v.dimids), w, 'number of dimensions'))
        for d in v.dimids:
            out.append(_pack(d, w, 'dimid'))
        _enc_att_list(out, v.atts, ls.get(('vatts', i)), w)
        out.append(_pack(v.xtype, 4, 'nc_type'))
        out.append(_pack(v.vsize, w, 'vsize'))
        out.append(_pack(v.begin, ow, 'begin'))
    return b''.join(out)


def assign_layout(f, *, header_pad=0, var_align=4, rec_align=4, gaps=None):
    """Set vsize (computed, saturated in CDF-1/2) and begin of every variable:
    fixed variables in definition order from roundup(header_size+header_pad,
    var_align), then record variables in definition order from
    roundup(end_of_fixed, rec_align).  gaps[i] = extra bytes inserted before
    variable i.  (A gap before a non-first record variable makes the record
    section incoherent with recsize(); layout_problems() reports that.)"""
    gaps = gaps or {}
    for v in f.vars:
        v.vsize = f.vsize_field(v)
    cur = f.header_size + header_pad
    fixed, rec = f.fixed_vars(), f.record_vars()
    if fixed:
        cur = _roundup(cur, var_align)
    for i in fixed:
        f.vars[i].begin = _roundup(cur, 4) + gaps.get(i, 0)
        cur = f.vars[i].begin + f.var_vsize_computed(f.vars[i])
    if rec:
        cur = _roundup(cur, rec_align)
    for i in rec:
        f.vars[i].begin = _roundup(cur, 4) + gaps.get(i, 0)
        cur = f.vars[i].begin + f.var_vsize_computed(f.vars[i])


# ------------------------------------------------------------ data placement
def _rows(f, var_index):
    """(start, nrows, rowbytes, stride): the variable's data are `nrows` runs of
    `rowbytes` contiguous bytes, run r starting at start + r*stride.
    fixed variable: one run at begin; record variable: record r at
    begin + r*recsize."""
    v = f.vars[var_index]
    nb = f.var_nbytes_unpadded(v)
    if f.is_record(v):
        return v.begin, (f.numrecs or 0), nb, f.recsize()
    return v.begin, 1, nb, max(nb, 1)


def var_element_offsets(f, var_index):
    """int64 array of shape var_shape: absolute file offset of every element"""
    v = f.vars[var_index]
    shape = f.var_shape(v)
    start, nrows, rowbytes, stride = _rows(f, var_index)
    sz = TYPE_SIZE[v.xtype]
    off = (start + np.arange(nrows, dtype=np.int64)[:, None] * stride
           + np.arange(rowbytes // sz, dtype=np.int64)[None, :] * sz)
    return off.reshape(shape)


def _strided(buf, start, nrows, rowbytes, stride):
    return np.lib.stride_tricks.as_strided(buf[start:], shape=(nrows, rowbytes),
                                           strides=(stride, 1))


def read_var(data, f, var_index):
    """array of shape var_shape and dtype NP_DTYPE[xtype] ('S1' for NC_CHAR);
    bytes beyond the end of `data` read as zero."""
    v = f.vars[var_index]
    start, nrows, rowbytes, stride = _rows(f, var_index)
    if start < 0:
        raise CDFError('variable %d has negative begin %d' % (var_index, start))
    buf = np.frombuffer(data, dtype=np.uint8)
    n = len(buf)
    out = np.zeros((nrows, rowbytes), dtype=np.uint8)
    if nrows and rowbytes and start < n:
        nfull = 0                           # rows completely inside the file
        if n - start >= rowbytes:
            nfull = min(nrows, (n - start - rowbytes) // stride + 1)
            out[:nfull] = _strided(buf, start, nfull, rowbytes, stride)
        s = start + nfull * stride          # at most one partial row follows
        if nfull < nrows and s < n:
            out[nfull, :n - s] = buf[s:n]
    return out.reshape(-1).view(NP_DTYPE[v.xtype]).reshape(f.var_shape(v))


def read_var_mask(data, f, var_index):
    """boolean array of shape var_shape: element lies completely inside `data`"""
    off = var_element_offsets(f, var_index)
    return (off >= 0) & (off + TYPE_SIZE[f.vars[var_index].xtype] <= len(data))


def _to_external(f, var_index, arr):
    """user data -> flat uint8 array holding the external representation"""
    v = f.vars[var_index]
    shape = f.var_shape(v)
    count = 1
    for s in shape:
        count *= s
    if isinstance(arr, (bytes, bytearray, memoryview)):     # raw external bytes
        raw = np.frombuffer(bytes(arr), dtype=np.uint8)
        if len(raw) != count * TYPE_SIZE[v.xtype]:
            raise ValueError('variable %d: %d raw bytes given, %d expected'
                             % (var_index, len(raw), count * TYPE_SIZE[v.xtype]))
        return raw
    a = np.asarray(arr)
    if a.shape != shape:
        raise ValueError('variable %d: data shape %r != var_shape %r' % (var_index, a.shape, shape))
    if v.xtype == NC_CHAR:
        if a.dtype.kind == 'S' and a.dtype.itemsize == 1:
            a = a.reshape(-1).view(np.uint8)
        elif a.dtype.kind in 'iu':
            a = a.astype(np.uint8)
        else:
            raise ValueError('variable %d: NC_CHAR data must be S1 or integer bytes' % var_index)
        return np.ascontiguousarray(a).reshape(-1)
    dt = np.dtype(NP_DTYPE[v.xtype])
    if dt.kind in 'iu' and a.dtype.kind in 'iu' and a.size:
        info = np.iinfo(dt)
        if int(a.min()) < info.min or int(a.max()) > info.max:
            raise ValueError('variable %d: values out of range of %s' % (var_index, TYPE_NAME[v.xtype]))
    return np.ascontiguousarray(a.astype(dt)).reshape(-1).view(np.uint8)


def _gap_bytes(fill_gap, n):
    if callable(fill_gap):
        b = bytes(fill_gap(n))
        if len(b) != n:
            raise ValueError('fill_gap(%d) returned %d bytes' % (n, len(b)))
        return b
    pat = bytes(fill_gap)
    return (pat * (n // len(pat) + 1))[:n]


def encode(f, data=None, *, fill_gap=None, file_size=None):
    """header_bytes(f) followed by the data of the variables in `data`
    ({var_index: array | raw external bytes}) at the offsets implied by the
    begins as given and the recsize rule.  Every byte written neither by the
    header nor by variable data (header pad, inter-variable gaps, vsize/record
    padding, variables absent from `data`) is a gap: zero, or taken from
    fill_gap (bytes pattern restarted in each gap, or callable n -> bytes).
    Result length: end of the last byte written, or file_size (truncate /
    zero-extend).  Pieces are written header first, then variables by index."""
    hdr = header_bytes(f)
    pieces = []
    end = len(hdr)
    for i in sorted(data or {}):
        raw = _to_external(f, i, data[i])
        start, nrows, rowbytes, stride = _rows(f, i)
        if start < 0:
            raise ValueError('variable %d: cannot place data at negative begin' % i)
        if nrows and rowbytes:
            pieces.append((start, nrows, rowbytes, stride, raw.reshape(nrows, rowbytes)))
            end = max(end, start + (nrows - 1) * stride + rowbytes)
    buf = np.zeros(end, dtype=np.uint8)
    written = np.zeros(end, dtype=bool) if fill_gap is not None else None
    buf[:len(hdr)] = np.frombuffer(hdr, dtype=np.uint8)
    if written is not None:
        written[:len(hdr)] = True
    for start, nrows, rowbytes, stride, rows in pieces:
        if stride >= rowbytes:
            _strided(buf, start, nrows, rowbytes, stride)[...] = rows
            if written is not None:
                _strided(written, start, nrows, rowbytes, stride)[...] = True
        else:                               # cannot happen with recsize(); kept for safety
            for r in range(nrows):
                buf[start + r * stride:start + r * stride + rowbytes] = rows[r]
                if written is not None:
                    written[start + r * stride:start + r * stride + rowbytes] = True
    if written is not None and end:
        edge = np.diff(np.concatenate(([1], written.view(np.int8), [1])))
        for s, e in zip(np.flatnonzero(edge == -1), np.flatnonzero(edge == 1)):
            buf[s:e] = np.frombuffer(_gap_bytes(fill_gap, int(e - s)), dtype=np.uint8)
    out = buf.tobytes()
    if file_size is not None:
        out = out[:file_size] + b'\0' * max(file_size - len(out), 0)
    return out


# -------------------------------------------------------------- layout check
def layout_problems(f, file_size=None):
    """Human-readable violations of the layout rules (independent of decode()).
    Zero-size variables (only constructible by hand: a zero-length dimension in
    a non-leading position) take part in alignment / header / vsize checks but
    are skipped in ordering and overlap checks.  With file_size only
    'header longer than file' is checked: files may legally end before
    unwritten data."""
    P = []
    hs = f.header_size
    if file_size is not None and hs > file_size:
        P.append('header size %d exceeds file size %d' % (hs, file_size))

    def nm(i):
        return 'var %d %r' % (i, f.vars[i].name)

    for i, v in enumerate(f.vars):
        if v.begin < 0:
            P.append('%s: begin %d is negative' % (nm(i), v.begin))
        elif v.begin % 4:
            P.append('%s: begin %d is not a multiple of 4' % (nm(i), v.begin))
        if 0 <= v.begin < hs:
            P.append('%s: begin %d lies inside the header (header_size %d)' % (nm(i), v.begin, hs))
        want = f.vsize_field(v)
        if v.vsize != want:
            P.append('%s: vsize field %d != %d expected from the dimensions%s'
                     % (nm(i), v.vsize, want,
                        ' (saturation value)' if want == VSIZE_SATURATED else ''))
    size = {i: f.var_nbytes_unpadded(v) for i, v in enumerate(f.vars)}
    fixed = [i for i in f.fixed_vars() if size[i] > 0]
    rec = [i for i in f.record_vars() if size[i] > 0]
    for kind, seq in (('fixed', fixed), ('record', rec)):
        for a, b in zip(seq, seq[1:]):
            va, vb = f.vars[a], f.vars[b]
            if vb.begin <= va.begin:
                P.append('%s variables out of order: %s begin %d <= %s begin %d'
                         % (kind, nm(b), vb.begin, nm(a), va.begin))
            elif vb.begin < va.begin + size[a]:
                P.append('%s variables overlap: %s begin %d < end %d of %s'
                         % (kind, nm(b), vb.begin, va.begin + size[a], nm(a)))
    if rec:
        first = min(f.vars[i].begin for i in rec)
        if fixed:
            end_fixed = max(f.vars[i].begin + size[i] for i in fixed)
            if first < end_fixed:
                P.append('record section begin %d < end %d of the fixed-size variables'
                         % (first, end_fixed))
        span = max(f.vars[i].begin + size[i] for i in rec) - first
        if span > f.recsize():
            P.append('record variables span %d bytes but the record stride is %d: '
                     'consecutive records overlap' % (span, f.recsize()))
    return P
