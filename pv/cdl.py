"""cdl - a small reader for the CDL text printed by `ncmpidump` (property C20).

Written from the CDL description in the ncmpigen/ncmpidump man pages (no code of the utilities is used):

    netcdf NAME {
    // file format: CDF-n ...                      (comment printed by ncmpidump)
    dimensions:
        NAME = INT ;
        NAME = UNLIMITED ; // (INT currently)
    variables:
        TYPE NAME ;  |  TYPE NAME(DIM, DIM, ...) ;
            VAR:ATT = value, value, ... ;
    // global attributes:
            :ATT = value, ... ;
    data:
     VAR = value, value, ... ;
    }

Values: numbers with an optional type suffix (b byte, s short, none int / double, f float, and the netCDF-4 style
suffixes UB US U LL ULL L that ncmpidump prints for the CDF-5 types), double-quoted strings with C escapes (adjacent
strings separated by commas are concatenated by the caller), and `_` for the fill value.

The reader keeps tokens as text so that the caller decides how to convert them (decimal -> binary32/binary64).
"""
import re

TYPE_WORDS = {"byte": 1, "char": 2, "short": 3, "int": 4, "long": 4, "integer": 4, "float": 5, "real": 5, "double": 6,
              "ubyte": 7, "ushort": 8, "uint": 9, "int64": 10, "uint64": 11}
RESERVED = set(TYPE_WORDS) | {"unlimited", "netcdf", "dimensions", "variables", "data", "_", "nan", "inf", "infinity",
                              "doubleinf", "floatinf", "inff", "c_format", "_fillvalue"}
SUFFIX_TYPE = {"b": 1, "s": 3, "": None, "f": 5, "ub": 7, "us": 8, "u": 9, "ll": 10, "ull": 11, "l": 4, "d": 6}

_ID = re.compile(r"[A-Za-z_][A-Za-z0-9_.@#\[\]+\-]*")
_NUM = re.compile(r"[+-]?(?:[0-9]+\.?[0-9]*(?:[eE][+-]?[0-9]+)?|\.[0-9]+(?:[eE][+-]?[0-9]+)?)")
_SUF = re.compile(r"[A-Za-z]*")
_ESC = {"a": 7, "b": 8, "f": 12, "n": 10, "r": 13, "t": 9, "v": 11, "\\": 92, "'": 39, '"': 34, "?": 63}


class CDLError(Exception):
    pass


class Tok:
    __slots__ = ("kind", "text", "value", "xtype", "pos")

    def __init__(self, kind, text, value=None, xtype=None, pos=0):
        self.kind, self.text, self.value, self.xtype, self.pos = kind, text, value, xtype, pos

    def __repr__(self):
        return "Tok(%s,%r)" % (self.kind, self.text)


def _unescape(body, pos):
    """C escapes of a quoted string -> bytes"""
    out = bytearray()
    i, n = 0, len(body)
    while i < n:
        c = body[i]
        if c != 0x5C:
            out.append(c)
            i += 1
            continue
        i += 1
        if i >= n:
            raise CDLError("dangling backslash in string at %d" % pos)
        c = chr(body[i])
        if c in "01234567":
            j = i
            while j < n and j < i + 3 and chr(body[j]) in "01234567":
                j += 1
            out.append(int(body[i:j], 8) & 0xFF)
            i = j
        elif c in "xX":
            j = i + 1
            while j < n and j < i + 3 and chr(body[j]) in "0123456789abcdefABCDEF":
                j += 1
            if j == i + 1:
                raise CDLError("bad \\x escape at %d" % pos)
            out.append(int(body[i + 1:j], 16))
            i = j
        else:
            out.append(_ESC.get(c, body[i]))
            i += 1
    return bytes(out)


def tokenize(data):
    """bytes -> list of Tok; kinds: id, num, str, fill, punct, comment"""
    if isinstance(data, str):
        data = data.encode("utf-8")
    toks = []
    i, n = 0, len(data)
    text = data.decode("latin-1")          # 1:1 bytes <-> code points, so regexes can run on str
    while i < n:
        c = text[i]
        if c in " \t\r\n\f":
            i += 1
            continue
        if c == "/" and text[i:i + 2] == "//":
            j = text.find("\n", i)
            j = n if j < 0 else j
            toks.append(Tok("comment", text[i + 2:j].strip(), pos=i))
            i = j
            continue
        if c == '"':
            j = i + 1
            while j < n and text[j] != '"':
                j += 2 if text[j] == "\\" else 1
            if j >= n:
                raise CDLError("unterminated string at %d" % i)
            toks.append(Tok("str", text[i:j + 1], _unescape(data[i + 1:j], i), 2, i))
            i = j + 1
            continue
        if c == "'":                        # byte constant 'c' / '\n' / '\377'
            j = i + 1
            while j < n and text[j] != "'":
                j += 2 if text[j] == "\\" else 1
            v = _unescape(data[i + 1:j], i)
            if len(v) != 1:
                raise CDLError("bad byte constant at %d" % i)
            b = v[0] - 256 if v[0] > 127 else v[0]
            toks.append(Tok("num", text[i:j + 1], b, 1, i))
            i = j + 1
            continue
        m = _NUM.match(text, i) if (c.isdigit() or c in "+-.") else None
        if m and m.end() > i and (c.isdigit() or c == "." or (i + 1 < n and (text[i + 1].isdigit() or text[i + 1] == "."))):
            body = m.group(0)
            s = _SUF.match(text, m.end())
            suf = s.group(0)
            isfloat = any(ch in body for ch in ".eE")
            if suf.lower() not in SUFFIX_TYPE:
                raise CDLError("unknown numeric suffix %r at %d" % (suf, i))
            xt = SUFFIX_TYPE[suf.lower()]
            if xt is None:
                xt = 6 if isfloat else 4
            if suf.lower() == "l" and isfloat:
                xt = 6
            if isfloat and xt not in (5, 6):
                raise CDLError("floating constant with integer suffix %r at %d" % (body + suf, i))
            toks.append(Tok("num", body + suf, body, xt, i))
            i = s.end()
            continue
        m = _ID.match(text, i)
        if m:
            w = m.group(0)
            toks.append(Tok("fill" if w == "_" else "id", w, w.encode("latin-1"), None, i))
            i = m.end()
            continue
        if c in "=,;:(){}":
            toks.append(Tok("punct", c, pos=i))
            i += 1
            continue
        raise CDLError("unexpected character %r at %d" % (c, i))
    return toks


class CDLFile:
    def __init__(self):
        self.name = None
        self.fmt = None              # from the '// file format: CDF-n' comment, if any
        self.dims = []               # (name bytes, length or None for UNLIMITED, current or None)
        self.vars = []               # dict(name, xtype, dims=[names], atts=[(name, [Tok])])
        self.gatts = []              # (name, [Tok])
        self.data = {}               # var name -> [Tok]
        self.data_order = []


class _P:
    def __init__(self, toks):
        self.t = toks
        self.i = 0

    def peek(self, skip_comments=True):
        while skip_comments and self.i < len(self.t) and self.t[self.i].kind == "comment":
            self.i += 1
        return self.t[self.i] if self.i < len(self.t) else Tok("eof", "")

    def next(self):
        t = self.peek()
        self.i += 1
        return t

    def expect(self, text):
        t = self.next()
        if t.kind != "punct" or t.text != text:
            raise CDLError("expected %r, found %r at %d" % (text, t.text, t.pos))
        return t

    def at_punct(self, text):
        t = self.peek()
        return t.kind == "punct" and t.text == text

    def section(self, word):
        """True and consume if the next tokens are `word` ':'"""
        t = self.peek()
        if t.kind == "id" and t.text.lower() == word and self.i + 1 < len(self.t):
            t2 = self.t[self.i + 1]
            if t2.kind == "punct" and t2.text == ":":
                self.i += 2
                return True
        return False

    def values(self):
        vals = []
        while True:
            t = self.next()
            if t.kind not in ("num", "str", "fill"):
                raise CDLError("value expected, found %r at %d" % (t.text, t.pos))
            vals.append(t)
            t = self.next()
            if t.kind == "punct" and t.text == ";":
                return vals
            if not (t.kind == "punct" and t.text == ","):
                raise CDLError("',' or ';' expected, found %r at %d" % (t.text, t.pos))


def parse(data):
    toks = tokenize(data)
    out = CDLFile()
    for t in toks:
        if t.kind == "comment":
            m = re.match(r"file format: CDF-(\d)", t.text)
            if m:
                out.fmt = int(m.group(1))
                break
    p = _P(toks)
    t = p.next()
    if t.kind != "id" or t.text.lower() != "netcdf":
        raise CDLError("'netcdf' expected")
    out.name = p.next().text
    p.expect("{")
    if p.section("dimensions"):
        while True:
            t = p.peek()
            if t.kind != "id" or p.t[p.i + 1].text != "=":
                break
            if t.text.lower() in ("variables", "data") and p.t[p.i + 1].text == ":":
                break
            name = p.next().value
            p.expect("=")
            v = p.next()
            cur = None
            if v.kind == "id" and v.text.lower() == "unlimited":
                length = None
            elif v.kind == "num" and v.xtype == 4:
                length = int(v.value)
            else:
                raise CDLError("dimension length expected at %d" % v.pos)
            t = p.next()
            if not (t.kind == "punct" and t.text in ",;"):
                raise CDLError("';' expected after dimension at %d" % t.pos)
            if length is None:
                c = p.peek(skip_comments=False)
                if c.kind == "comment":
                    m = re.match(r"\((\d+) currently\)", c.text)
                    if m:
                        cur = int(m.group(1))
            out.dims.append((name, length, cur))
    t = p.peek()
    if p.section("variables") or (t.kind == "punct" and t.text == ":"):     # global attributes may follow without variables
        while True:
            t = p.peek()
            if p.at_punct(":"):                                   # global attribute
                p.next()
                an = p.next()
                p.expect("=")
                out.gatts.append((an.value, p.values()))
                continue
            if t.kind != "id":
                break
            if t.text.lower() == "data" and p.t[p.i + 1].kind == "punct" and p.t[p.i + 1].text == ":":
                break
            nxt = p.t[p.i + 1] if p.i + 1 < len(p.t) else Tok("eof", "")
            if nxt.kind == "punct" and nxt.text == ":":           # VAR:ATT = ...
                vn = p.next().value
                p.next()
                an = p.next()
                p.expect("=")
                vals = p.values()
                owner = [v for v in out.vars if v["name"] == vn]
                if not owner:
                    raise CDLError("attribute of undeclared variable %r" % vn)
                owner[-1]["atts"].append((an.value, vals))
                continue
            if t.text.lower() in TYPE_WORDS and nxt.kind == "id":
                xt = TYPE_WORDS[p.next().text.lower()]
                while True:
                    vn = p.next()
                    dims = []
                    if p.at_punct("("):
                        p.next()
                        while True:
                            d = p.next()
                            if d.kind != "id":
                                raise CDLError("dimension name expected at %d" % d.pos)
                            dims.append(d.value)
                            t = p.next()
                            if t.kind == "punct" and t.text == ")":
                                break
                            if not (t.kind == "punct" and t.text == ","):
                                raise CDLError("',' or ')' expected at %d" % t.pos)
                    out.vars.append({"name": vn.value, "xtype": xt, "dims": dims, "atts": []})
                    t = p.next()
                    if t.kind == "punct" and t.text == ";":
                        break
                    if not (t.kind == "punct" and t.text == ","):
                        raise CDLError("',' or ';' expected after variable at %d" % t.pos)
                continue
            raise CDLError("unexpected %r in variables section at %d" % (t.text, t.pos))
    if p.section("data"):
        while True:
            t = p.peek()
            if t.kind != "id":
                break
            vn = p.next().value
            p.expect("=")
            out.data[vn] = p.values()
            out.data_order.append(vn)
    p.expect("}")
    return out


def strings_bytes(vals):
    """concatenation of the string tokens of a value list (None if a token is not a string)"""
    out = bytearray()
    for t in vals:
        if t.kind != "str":
            return None
        out += t.value
    return bytes(out)
