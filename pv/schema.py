"""Sequential reference model of the netCDF schema (dimensions, variables, attributes) and the
documented rules of the define/rename/copy/delete operations (property C07).  Nothing here calls
the library.

Names are byte strings; the library stores and compares names after Unicode NFC normalisation
(check_name.c: "We later normalize UTF-8 strings to NFC to facilitate matching and queries").

An expectation is `Exp(must, may)`:
  * must - set of error codes of documented error conditions that apply to the call; when non-empty
           the call has to fail with one of them (several conditions may apply at once; the
           precedence between them is not specified, so any one is accepted);
  * may  - codes the call is allowed (but not required) to fail with, for situations the
           documentation leaves open (e.g. "longer name" measured before or after normalisation).
  When `must` is empty a return code of 0 is acceptable; any non-zero code has to be in must|may.

Sources of the rules (see also checks/c07.py): man/pnetcdf.m4 (sections DIMENSIONS, VARIABLES,
ATTRIBUTES, close/redef/enddef), src/include/pnetcdf.h error-code comments,
src/drivers/common/check_name.c (name syntax comment), comments in src/drivers/ncmpio/ncmpio_attr.m4.
"""
import unicodedata
import numpy as np
from pv import model as M

E = M.E
NC_MAX_NAME = 256
NC_CHAR = M.NC_CHAR
DEFAULT_HS = {"dim": 256, "var": 256, "gattr": 64, "vattr": 8}     # ncmpio_NC.h PNC_HSIZE_*
HINT = {"dim": "nc_hash_size_dim", "var": "nc_hash_size_var", "gattr": "nc_hash_size_gattr", "vattr": "nc_hash_size_vattr"}
SIGNED_XT = (M.NC_BYTE, M.NC_SHORT, M.NC_INT, M.NC_FLOAT, M.NC_DOUBLE, M.NC_INT64)
MT_SIZE = {k: np.dtype(v).itemsize for k, v in M.MT_DTYPE.items()}


# ------------------------------------------------------------------ names
def nfc(b):
    """NFC form of a valid UTF-8 byte string (an undecodable string is returned unchanged; such names are
    never legal, see name_errs)"""
    try:
        return unicodedata.normalize("NFC", b.decode("utf-8")).encode("utf-8")
    except UnicodeDecodeError:
        return b


def name_errs(b):
    """documented reasons to reject a name (empty set = legal).
    Syntax (check_name.c): ([a-zA-Z0-9_]|{UTF8})([^\\x00-\\x1F\\x7F/]|{UTF8})*, no trailing space,
    at most NC_MAX_NAME bytes (pnetcdf.h: NC_EMAXNAME 'NC_MAX_NAME exceeded')."""
    errs = set()
    if len(b) == 0:
        return {E["EBADNAME"]}
    if len(b) > NC_MAX_NAME:
        errs.add(E["EMAXNAME"])
    bad = False
    try:
        b.decode("utf-8")
    except UnicodeDecodeError:
        bad = True
    if b"\x00" in b:
        bad = True
    c0 = b[0]
    if c0 < 0x80 and not (chr(c0).isalnum() or c0 == 0x5F):
        bad = True
    for c in b:
        if c < 0x20 or c == 0x7F or c == 0x2F:
            bad = True
    if b[-1:] == b" " or b[-1:] in (b"\t", b"\n", b"\r", b"\x0b", b"\x0c"):
        bad = True
    if bad:
        errs.add(E["EBADNAME"])
    return errs


def bernstein(nb, hsize):
    """ncmpio_Bernstein_hash (ncmpio_hash_func.c) of a normalised name; `char` is signed on this platform"""
    h = len(nb) & 0xFFFFFFFF
    for c in nb:
        if c >= 128:
            c -= 256
        h = (h + (h << 6) + c) & 0xFFFFFFFF
    return (h ^ (h >> 10) ^ (h >> 20)) & (hsize - 1)


# ------------------------------------------------------------------ expectation
class Exp:
    def __init__(self, must=(), may=()):
        self.must = set(must)
        self.may = set(may)

    def allows(self, rc):
        if rc == 0:
            return not self.must
        return rc in self.must or rc in self.may

    def __repr__(self):
        inv = {v: k for k, v in E.items()}
        f = lambda s: sorted(inv.get(c, c) for c in s)
        return "Exp(must=%s, may=%s)" % (f(self.must), f(self.may))


# ------------------------------------------------------------------ objects
class AttS:
    def __init__(self, name, xt, vals):
        self.name = name          # normalised bytes
        self.xt = xt
        self.vals = vals          # bytes for NC_CHAR, list of python numbers otherwise

    def nelems(self):
        return len(self.vals)

    def raw_size(self):
        return att_raw_size(self.xt, len(self.vals))

    def padded_size(self):
        return M.roundup(self.raw_size(), 4)

    def ext_bytes(self, big=False):
        """values in the external type; native endian (get_att in the external type) or big endian (file)"""
        if self.xt == NC_CHAR:
            return bytes(self.vals)
        dt = np.dtype(M.XT_DTYPE[self.xt])
        if big:
            dt = dt.newbyteorder(">")
        return np.array(self.vals, dtype=dt).tobytes()

    def copy(self):
        return AttS(self.name, self.xt, bytes(self.vals) if self.xt == NC_CHAR else list(self.vals))


def att_raw_size(xt, n):
    return M.XT_SIZE[xt] * n


class VarS:
    def __init__(self, name, xt, dimids):
        self.name = name
        self.xt = xt
        self.dimids = list(dimids)
        self.atts = []


class FileS:
    def __init__(self, fmt, hs=None):
        self.fmt = fmt
        self.dims = []        # [name, len]
        self.vars = []
        self.gatts = []
        self.indef = True
        self.ro = False
        self.hs = dict(DEFAULT_HS)
        self.set_hs(hs)

    def set_hs(self, hs):
        self.hs = dict(DEFAULT_HS)
        for k, v in (hs or {}).items():
            if v:
                self.hs[k] = v

    def recdim(self):
        for i, (_, l) in enumerate(self.dims):
            if l == 0:
                return i
        return -1

    def find_dim(self, nname):
        for i, (n, _) in enumerate(self.dims):
            if n == nname:
                return i
        return -1

    def find_var(self, nname):
        for i, v in enumerate(self.vars):
            if v.name == nname:
                return i
        return -1

    def attlist(self, v):
        """attribute list of varid v (-1 = global) or None when v is not a variable"""
        if v == -1:
            return self.gatts
        if 0 <= v < len(self.vars):
            return self.vars[v].atts
        return None

    @staticmethod
    def find_att(lst, nname):
        for i, a in enumerate(lst):
            if a.name == nname:
                return i
        return -1

    def legal_xt(self, xt):
        return 1 <= xt <= (11 if self.fmt == 5 else 6)

    def xt_errs(self, xt):
        if not (1 <= xt <= 11):
            return {E["EBADTYPE"]}          # "Not a netcdf data type"
        if xt > 6 and self.fmt != 5:
            return {E["ESTRICTCDF2"]}       # "Attempting CDF-5 operation on CDF-2 file"
        return set()

    def logical(self):
        """same shape as cdfspec.CDFFile.logical() (values big endian)"""
        return {"version": self.fmt, "numrecs": 0,
                "dims": [(n, l) for n, l in self.dims],
                "gatts": [(a.name, a.xt, a.nelems(), a.ext_bytes(big=True)) for a in self.gatts],
                "vars": [(v.name, v.xt, tuple(v.dimids), [(a.name, a.xt, a.nelems(), a.ext_bytes(big=True)) for a in v.atts])
                         for v in self.vars]}


def hexb(h):
    return bytes.fromhex(h)


def put_att_values(op):
    """(xtype actually used, model values) of a put_att op; ncmpi_put_att_text always stores NC_CHAR"""
    if op["mt"] == "text":
        return NC_CHAR, hexb(op["text"])
    if op["xt"] == NC_CHAR:
        return NC_CHAR, hexb(op.get("text", ""))
    return op["xt"], list(op["vals"])


def representable(vals, dtype):
    """every value converts exactly into numpy dtype"""
    dt = np.dtype(dtype)
    for v in vals:
        if dt.kind in "iu":
            if v != int(v):
                return False
            info = np.iinfo(dt)
            if not (info.min <= v <= info.max):
                return False
    return True


# ------------------------------------------------------------------ the model of the open files
class Model:
    """files[i] is the FileS behind executor slot f<i>"""

    def __init__(self, fmt, hs_list, fmts=None):
        # fmts: CDF version per file (a two-file history may mix versions); default: the same version everywhere
        self.files = [FileS((fmts or [fmt] * len(hs_list))[i], hs) for i, hs in enumerate(hs_list)]

    # -- helpers
    def _mode_write(self, f, need_def):
        """error codes for a mutating call; need_def: the call is only legal in define mode"""
        errs = set()
        if f.ro:
            errs.add(E["EPERM"])            # read-only file (API comments: "cannot be read-only")
            if need_def:
                errs.add(E["ENOTINDEFINE"])  # a read-only file is never in define mode either
        elif need_def and not f.indef:
            errs.add(E["ENOTINDEFINE"])
        return errs

    @staticmethod
    def _longer(f, old, new, must, may):
        """man page: 'If the new name is longer than the old name, the netCDF dataset must be in define mode';
        whether length is taken before or after normalisation is not specified"""
        if f.ro or f.indef:
            return
        a, b = len(new) > len(old), len(nfc(new)) > len(old)
        if a and b:
            must.add(E["ENOTINDEFINE"])
        elif a or b:
            may.add(E["ENOTINDEFINE"])

    @staticmethod
    def _grow(f, old, xt, n, must, may):
        """man page: 'If the attribute is new, or if the space required to store the attribute value is greater
        than before, the netCDF dataset must be in define mode'; space with or without the 4-byte padding of
        the file format is not specified"""
        if f.ro or f.indef:
            return
        if old is None:
            must.add(E["ENOTINDEFINE"])
            return
        raw = att_raw_size(xt, n)
        if M.roundup(raw, 4) > old.padded_size():
            must.add(E["ENOTINDEFINE"])
        elif raw > old.raw_size():
            may.add(E["ENOTINDEFINE"])

    # -- expectation
    def expect(self, op):
        k = op["op"]
        f = self.files[op["f"]]
        must, may = set(), set()
        if k == "def_dim":
            nm = hexb(op["name"])
            must |= self._mode_write(f, True)
            ne = name_errs(nm)
            must |= ne
            if not ne and f.find_dim(nfc(nm)) >= 0:
                must.add(E["ENAMEINUSE"])
            if op["len"] == 0 and f.recdim() >= 0:
                must.add(E["EUNLIMIT"])
            if op["len"] < 0:
                must.add(E["EDIMSIZE"])
        elif k == "def_var":
            nm = hexb(op["name"])
            must |= self._mode_write(f, True)
            ne = name_errs(nm)
            must |= ne
            if not ne and f.find_var(nfc(nm)) >= 0:
                must.add(E["ENAMEINUSE"])
            must |= f.xt_errs(op["xt"])
            for j, d in enumerate(op["dims"]):
                if not (0 <= d < len(f.dims)):
                    must.add(E["EBADDIM"])
                elif f.dims[d][1] == 0 and j > 0:
                    must.add(E["EUNLIMPOS"])
        elif k in ("rename_dim", "rename_var"):
            nm = hexb(op["name"])
            must |= self._mode_write(f, False)
            ne = name_errs(nm)
            must |= ne
            isdim = k == "rename_dim"
            n = len(f.dims) if isdim else len(f.vars)
            if not (0 <= op["id"] < n):
                must.add(E["EBADDIM"] if isdim else E["ENOTVAR"])
            elif not ne:
                old = f.dims[op["id"]][0] if isdim else f.vars[op["id"]].name
                hit = f.find_dim(nfc(nm)) if isdim else f.find_var(nfc(nm))
                if hit >= 0 and hit != op["id"]:
                    must.add(E["ENAMEINUSE"])       # "cannot rename ... to have the same name as another"
                elif hit == op["id"]:
                    may.add(E["ENAMEINUSE"])        # its own name: not "another", left open
                self._longer(f, old, nm, must, may)
        elif k == "rename_att":
            nm, new = hexb(op["name"]), hexb(op["new"])
            must |= self._mode_write(f, False)
            ne = name_errs(new)
            must |= ne
            lst = f.attlist(op["v"])
            if lst is None:
                must.add(E["ENOTVAR"])
            else:
                i = f.find_att(lst, nfc(nm))
                if i < 0:
                    must.add(E["ENOTATT"])
                elif not ne:
                    hit = f.find_att(lst, nfc(new))
                    if hit >= 0 and hit != i:
                        must.add(E["ENAMEINUSE"])
                    elif hit == i:
                        may.add(E["ENAMEINUSE"])
                    self._longer(f, lst[i].name, new, must, may)
        elif k == "put_att":
            nm = hexb(op["name"])
            must |= self._mode_write(f, False)
            ne = name_errs(nm)
            must |= ne
            lst = f.attlist(op["v"])
            if lst is None:
                must.add(E["ENOTVAR"])
            xt = NC_CHAR if op["mt"] == "text" else op["xt"]
            te = f.xt_errs(xt)
            must |= te
            if not te and op["mt"] not in ("text", "flex") and xt == NC_CHAR:
                must.add(E["ECHAR"])                # "Attempt to convert between text & numbers"
            if lst is not None and not ne and not te:
                i = f.find_att(lst, nfc(nm))
                xt2, vals = put_att_values(op)
                self._grow(f, lst[i] if i >= 0 else None, xt2, len(vals), must, may)
        elif k == "get_att":
            nm = hexb(op["name"])
            lst = f.attlist(op["v"])
            if lst is None:
                must.add(E["ENOTVAR"])
            else:
                i = f.find_att(lst, nfc(nm))
                if i < 0:
                    must.add(E["ENOTATT"])
                else:
                    a = lst[i]
                    mism = op["mt"] != "flex" and ((a.xt == NC_CHAR) != (op["mt"] == "text"))
                    if mism:
                        # a zero-length attribute has nothing to convert: left open
                        (must if a.nelems() > 0 else may).add(E["ECHAR"])
                    elif a.xt != NC_CHAR and op["mt"] != "flex" and not representable(a.vals, M.MT_DTYPE[op["mt"]]):
                        may.add(E["ERANGE"])
        elif k == "copy_att":
            nm = hexb(op["name"])
            g = self.files[op["f2"]]
            if g.ro:
                must.add(E["EPERM"])
            src = f.attlist(op["v"])
            dst = g.attlist(op["v2"])
            if src is None or dst is None:
                must.add(E["ENOTVAR"])
            if src is not None:
                i = f.find_att(src, nfc(nm))
                if i < 0:
                    must.add(E["ENOTATT"])
                elif dst is not None and not (g is f and op["v"] == op["v2"]):
                    # the destination file must be able to hold the attribute's type (same rule as put_att)
                    must |= g.xt_errs(src[i].xt)
                    j = g.find_att(dst, nfc(nm))
                    self._grow(g, dst[j] if j >= 0 else None, src[i].xt, src[i].nelems(), must, may)
        elif k == "del_att":
            nm = hexb(op["name"])
            must |= self._mode_write(f, True)
            lst = f.attlist(op["v"])
            if lst is None:
                must.add(E["ENOTVAR"])
            elif f.find_att(lst, nfc(nm)) < 0:
                must.add(E["ENOTATT"])
        elif k == "lookup":
            nm = nfc(hexb(op["name"]))
            w = op["what"]
            if w == "dimid":
                if f.find_dim(nm) < 0:
                    must.add(E["EBADDIM"])
            elif w == "varid":
                if f.find_var(nm) < 0:
                    must.add(E["ENOTVAR"])
            else:
                lst = f.attlist(op["v"])
                if lst is None:
                    must.add(E["ENOTVAR"])
                elif f.find_att(lst, nm) < 0:
                    must.add(E["ENOTATT"])
        elif k == "enddef":
            if f.ro:
                must |= {E["EPERM"], E["ENOTINDEFINE"]}
            elif not f.indef:
                must.add(E["ENOTINDEFINE"])
        elif k == "redef":
            if f.ro:
                must.add(E["EPERM"])
            elif f.indef:
                must.add(E["EINDEFINE"])
        elif k == "reopen":
            pass
        else:
            raise ValueError(k)
        return Exp(must, may)

    # -- what a successful lookup / get returns
    def lookup_result(self, op):
        f = self.files[op["f"]]
        nm = nfc(hexb(op["name"]))
        w = op["what"]
        if w == "dimid":
            return [f.find_dim(nm)]
        if w == "varid":
            return [f.find_var(nm)]
        lst = f.attlist(op["v"])
        i = f.find_att(lst, nm)
        if w == "attid":
            return [i]
        return [lst[i].xt, lst[i].nelems()]

    def get_result(self, op):
        """(bytes expected in the user buffer or None when not determined, size of one element)"""
        f = self.files[op["f"]]
        a = f.attlist(op["v"])[f.find_att(f.attlist(op["v"]), nfc(hexb(op["name"])))]
        if op["mt"] == "flex":
            return a.ext_bytes(), M.XT_SIZE[a.xt]
        if a.xt == NC_CHAR:
            return bytes(a.vals), 1
        dt = M.MT_DTYPE[op["mt"]]
        if not representable(a.vals, dt):
            return None, MT_SIZE[op["mt"]]
        return np.array(a.vals).astype(dt).tobytes(), MT_SIZE[op["mt"]]

    # -- state change of a call that returned NC_NOERR
    def apply(self, op):
        k = op["op"]
        f = self.files[op["f"]]
        if k == "def_dim":
            f.dims.append([nfc(hexb(op["name"])), op["len"]])
        elif k == "def_var":
            f.vars.append(VarS(nfc(hexb(op["name"])), op["xt"], op["dims"]))
        elif k == "rename_dim":
            f.dims[op["id"]][0] = nfc(hexb(op["name"]))
        elif k == "rename_var":
            f.vars[op["id"]].name = nfc(hexb(op["name"]))
        elif k == "rename_att":
            lst = f.attlist(op["v"])
            lst[f.find_att(lst, nfc(hexb(op["name"])))].name = nfc(hexb(op["new"]))
        elif k == "put_att":
            lst = f.attlist(op["v"])
            nm = nfc(hexb(op["name"]))
            xt, vals = put_att_values(op)
            i = f.find_att(lst, nm)
            if i >= 0:
                lst[i].xt, lst[i].vals = xt, vals
            else:
                lst.append(AttS(nm, xt, vals))
        elif k == "copy_att":
            g = self.files[op["f2"]]
            src, dst = f.attlist(op["v"]), g.attlist(op["v2"])
            nm = nfc(hexb(op["name"]))
            a = src[f.find_att(src, nm)]
            if g is f and op["v"] == op["v2"]:
                return
            j = g.find_att(dst, nm)
            if j >= 0:
                dst[j].xt, dst[j].vals = a.xt, a.copy().vals
            else:
                dst.append(a.copy())
        elif k == "del_att":
            lst = f.attlist(op["v"])
            del lst[f.find_att(lst, nfc(hexb(op["name"])))]
        elif k == "enddef":
            f.indef = False
        elif k == "redef":
            f.indef = True
        elif k == "reopen":
            f.indef = False          # close commits a pending definition (man page: enddef is called), open = data mode
            f.ro = not op["rw"]
            f.set_hs(op.get("hs"))

    # -- hash-bucket bookkeeping (classification only, never part of the oracle)
    def bucket_mates(self, op):
        """for a rename/delete: does the object's old or new name share its hash bucket (table size in effect)
        with another object of the same table?  Call before apply()."""
        k = op["op"]
        f = self.files[op["f"]]
        try:
            if k == "rename_dim":
                names = [n for n, _ in f.dims]
                i, new, hs = op["id"], nfc(hexb(op["name"])), f.hs["dim"]
            elif k == "rename_var":
                names = [v.name for v in f.vars]
                i, new, hs = op["id"], nfc(hexb(op["name"])), f.hs["var"]
            elif k in ("rename_att", "del_att"):
                lst = f.attlist(op["v"])
                names = [a.name for a in lst]
                i = f.find_att(lst, nfc(hexb(op["name"])))
                new = nfc(hexb(op["new"])) if k == "rename_att" else None
                hs = f.hs["gattr"] if op["v"] == -1 else f.hs["vattr"]
            else:
                return False
            if not (0 <= i < len(names)):
                return False
            others = [bernstein(n, hs) for j, n in enumerate(names) if j != i]
            keys = {bernstein(names[i], hs)}
            if new is not None:
                keys.add(bernstein(new, hs))
            return any(o in keys for o in others)
        except (UnicodeDecodeError, KeyError):
            return False
