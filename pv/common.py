"""Oracle helpers shared by several checks."""
import os
import numpy as np
from pv import model as M


def neq_bytes(a, b):
    """elementwise 'bit patterns differ' for two arrays of the same shape and itemsize (NaN-safe, works for 0-d)"""
    a = np.ascontiguousarray(a)
    b = np.ascontiguousarray(b)
    if a.size == 0:
        return np.zeros(a.shape, bool)
    isz = a.dtype.itemsize
    x = a.reshape(-1).view(np.uint8).reshape(-1, isz)
    y = b.reshape(-1).view(np.uint8).reshape(-1, isz)
    return (x != y).any(axis=1).reshape(a.shape)


def hexname(h):
    return bytes.fromhex(h)


def dump_var_array(dv, fm, vi, numrecs):
    v = fm.vars[vi]
    if dv.get("data") is None:
        return None
    raw = bytes.fromhex(dv["data"])
    shp = fm.shape(v, numrecs)
    a = np.frombuffer(raw, dtype=M.XT_DTYPE[v.xt])
    n = int(np.prod(shp)) if len(shp) else 1
    if len(a) != n:
        return None
    return a.reshape(shp)


def compare_dump(d, fm, what, check_data=True):
    """compare a `dumpall` record with the model (metadata + written data)"""
    out = []
    if d is None:
        return [{"kind": "nodump", "msg": what + ": no dump", "sig": {"kind": "nodump"}}]
    if d.get("rc") != 0:
        return [{"kind": "rc", "msg": "%s: inq failed rc=%s" % (what, d.get("rc")), "sig": {"kind": "dump_rc"}}]

    def bad(kind, msg):
        out.append({"kind": kind, "msg": "%s: %s" % (what, msg), "sig": {"kind": kind}})
    if d["ndims"] != len(fm.dims) or d["nvars"] != len(fm.vars):
        bad("meta", "ndims/nvars %s/%s expected %d/%d" % (d["ndims"], d["nvars"], len(fm.dims), len(fm.vars)))
        return out
    if d["unlim"] != fm.recdim():
        bad("meta", "unlimdim %s expected %d" % (d["unlim"], fm.recdim()))
    if fm.recdim() >= 0 and d["numrecs"] != fm.numrecs:
        bad("numrecs", "numrecs %s expected %d" % (d["numrecs"], fm.numrecs))
        return out
    for i, (name, l) in enumerate(fm.dims):
        dd = d["dims"][i]
        want = l if l != 0 else fm.numrecs
        if hexname(dd["name"]) != name.encode() or dd["len"] != want or dd["id"] != i or any(dd["e"]):
            bad("meta", "dim %d is %r len %s id %s" % (i, hexname(dd["name"]), dd["len"], dd["id"]))
    for vi, v in enumerate(fm.vars):
        dv = d["vars"][vi]
        if any(dv["e"]) or hexname(dv["name"]) != v.name.encode() or dv["xt"] != v.xt or dv["dimids"] != v.dimids or dv["id"] != vi:
            bad("meta", "var %d metadata mismatch: %r xt=%s dimids=%s" % (vi, hexname(dv["name"]), dv["xt"], dv["dimids"]))
            continue
        if not check_data or "data" not in dv:
            continue
        if dv.get("de") != 0:
            bad("rc", "get_var of var %d failed rc=%s" % (vi, dv.get("de")))
            continue
        a = dump_var_array(dv, fm, vi, fm.numrecs)
        if a is None:
            bad("value", "var %d: dump data has wrong size" % vi)
            continue
        known = v.mask != 0
        neq = neq_bytes(a, v.vals)
        wrong = known & neq
        if wrong.any():
            j = np.argwhere(wrong)[0].tolist() if a.ndim else []
            bad("value", "var %d element %s is %r expected %r (%d wrong)" % (vi, j, a[tuple(j)].item() if a.ndim else a[()].item(), v.vals[tuple(j)].item() if a.ndim else v.vals[()].item(), int(wrong.sum())))
    return out


def decode_compare(path, fm, what):
    """independent decode (cdfspec) of a file on disk and comparison with the model"""
    try:
        from pv import cdfspec
    except ImportError:
        return []
    out = []

    def bad(kind, msg):
        out.append({"kind": kind, "msg": "%s: %s" % (what, msg), "sig": {"kind": "decode_" + kind}})
    try:
        data = open(path, "rb").read()
    except OSError as e:
        return [{"kind": "nofile", "msg": "%s: %s" % (what, e), "sig": {"kind": "nofile"}}]
    try:
        f = cdfspec.decode(data, strict=True)
    except cdfspec.CDFError as e:
        bad("grammar", "file violates the format grammar: %s" % e)
        return out
    if f.version != fm.fmt:
        bad("meta", "version %s expected %s" % (f.version, fm.fmt))
    lp = cdfspec.layout_problems(f, len(data))
    if lp:
        bad("layout", "; ".join(lp[:3]))
    if len(f.dims) != len(fm.dims) or len(f.vars) != len(fm.vars):
        bad("meta", "dims/vars count")
        return out
    if fm.recdim() >= 0 and f.numrecs != fm.numrecs:
        bad("numrecs", "header numrecs %s expected %d" % (f.numrecs, fm.numrecs))
        return out
    for i, (name, l) in enumerate(fm.dims):
        if f.dims[i].name != name.encode() or f.dims[i].length != l:
            bad("meta", "dim %d" % i)
    for vi, v in enumerate(fm.vars):
        fv = f.vars[vi]
        if fv.name != v.name.encode() or fv.xtype != v.xt or list(fv.dimids) != v.dimids:
            bad("meta", "var %d" % vi)
            continue
        a = cdfspec.read_var(data, f, vi)
        inside = cdfspec.read_var_mask(data, f, vi)
        a = np.asarray(a)
        if v.xt == M.NC_CHAR:
            a = a.view(np.uint8).reshape(a.shape)
        a = a.astype(a.dtype.newbyteorder("=")) if a.dtype.byteorder not in ("=", "|") else a
        if a.shape != v.vals.shape:
            bad("meta", "var %d shape %s expected %s" % (vi, a.shape, v.vals.shape))
            continue
        known = v.mask != 0
        if (known & ~inside).any():
            bad("value", "var %d: written elements lie beyond the end of the file" % vi)
            continue
        neq = neq_bytes(a, v.vals)
        wrong = known & neq
        if wrong.any():
            j = np.argwhere(wrong)[0].tolist() if a.ndim else []
            bad("value", "var %d element %s decoded %r expected %r" % (vi, j, a[tuple(j)].item() if a.ndim else a[()].item(), v.vals[tuple(j)].item() if a.ndim else v.vals[()].item()))
    return out
